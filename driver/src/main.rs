// MIR fact extractor for the static checks under /verif.
//
// Injected with RUSTC_WORKSPACE_WRAPPER under `cargo +nightly check`; for the crate
// named by TU_FACTS_CRATE (default text_utils) it writes ONE json file (path in
// TU_FACTS_OUT) describing every MIR body of the crate: locals, debug names,
// statements, terminators with resolved callees, spans, trait bounds, plus the ADT
// definitions and trait impls of the crate. Nothing of the crate is executed.
#![feature(rustc_private)]

extern crate rustc_abi;
extern crate rustc_driver;
extern crate rustc_hir;
extern crate rustc_interface;
extern crate rustc_middle;
extern crate rustc_span;

use rustc_driver::Compilation;
use rustc_hir::def::DefKind;
use rustc_hir::def_id::{DefId, LOCAL_CRATE};
use rustc_middle::mir::{
    AggregateKind, AssertKind, BasicBlock, Body, Const, Operand, Place, ProjectionElem, Rvalue,
    StatementKind, TerminatorKind, VarDebugInfoContents,
};
use rustc_middle::ty::{self, Instance, Ty, TyCtxt, TypingEnv};
use rustc_span::Span;
use std::fmt::Write as _;

fn esc(s: &str) -> String {
    let mut o = String::with_capacity(s.len() + 2);
    o.push('"');
    for c in s.chars() {
        match c {
            '"' => o.push_str("\\\""),
            '\\' => o.push_str("\\\\"),
            '\n' => o.push_str("\\n"),
            '\r' => o.push_str("\\r"),
            '\t' => o.push_str("\\t"),
            c if (c as u32) < 0x20 => {
                let _ = write!(o, "\\u{:04x}", c as u32);
            }
            c => o.push(c),
        }
    }
    o.push('"');
    o
}

struct Cx<'tcx> {
    tcx: TyCtxt<'tcx>,
}

impl<'tcx> Cx<'tcx> {
    fn span(&self, sp: Span) -> String {
        let sm = self.tcx.sess.source_map();
        // the call-site span for code produced by macros (so that file:line points into the crate)
        let exp = sp.from_expansion();
        let mac = if exp {
            let d = sp.ctxt().outer_expn_data();
            match d.kind {
                rustc_span::ExpnKind::Macro(_, name) => name.to_string(),
                rustc_span::ExpnKind::Desugaring(k) => format!("desugar:{:?}", k),
                rustc_span::ExpnKind::AstPass(k) => format!("astpass:{:?}", k),
                rustc_span::ExpnKind::Root => "root".to_string(),
            }
        } else {
            String::new()
        };
        let macs: Vec<String> = if exp {
            sp.macro_backtrace()
                .filter_map(|d| match d.kind {
                    rustc_span::ExpnKind::Macro(_, name) => Some(name.to_string()),
                    _ => None,
                })
                .collect()
        } else {
            Vec::new()
        };
        let src = sp.source_callsite();
        let lo = sm.lookup_char_pos(src.lo());
        let hi = sm.lookup_char_pos(src.hi());
        let file = match &lo.file.name {
            rustc_span::FileName::Real(r) => match r.local_path() {
                Some(p) => p.display().to_string(),
                None => format!("{:?}", r),
            },
            o => format!("{:?}", o),
        };
        format!(
            "{{\"file\":{},\"line\":{},\"col\":{},\"hi_line\":{},\"hi_col\":{},\"exp\":{},\"mac\":{},\"macs\":{}}}",
            esc(&file),
            lo.line,
            lo.col.0,
            hi.line,
            hi.col.0,
            exp,
            esc(&mac),
            esc(&macs.join(">"))
        )
    }

    fn ty(&self, t: Ty<'tcx>) -> String {
        esc(&format!("{}", t))
    }

    fn place(&self, body: &Body<'tcx>, p: &Place<'tcx>) -> String {
        let mut s = format!("{{\"l\":{},\"p\":[", p.local.as_usize());
        let mut first = true;
        for (base, elem) in p.iter_projections() {
            if !first {
                s.push(',');
            }
            first = false;
            match elem {
                ProjectionElem::Deref => s.push_str("\"*\""),
                ProjectionElem::Field(f, t) => {
                    // field name if the base is an ADT
                    let bty = base.ty(body, self.tcx);
                    let mut name = String::new();
                    if let ty::Adt(adt, _) = bty.ty.kind() {
                        let vidx = bty.variant_index.unwrap_or(rustc_abi::FIRST_VARIANT);
                        if adt.is_enum() || adt.is_struct() || adt.is_union() {
                            if let Some(v) = adt.variants().get(vidx) {
                                if let Some(fd) = v.fields.get(f) {
                                    name = fd.name.to_string();
                                }
                            }
                        }
                    }
                    let _ = write!(
                        s,
                        "{{\"f\":{},\"n\":{},\"t\":{}}}",
                        f.as_usize(),
                        esc(&name),
                        self.ty(t)
                    );
                }
                ProjectionElem::Index(l) => {
                    let _ = write!(s, "{{\"idx\":{}}}", l.as_usize());
                }
                ProjectionElem::ConstantIndex { offset, min_length, from_end } => {
                    let _ = write!(
                        s,
                        "{{\"cidx\":{},\"min\":{},\"from_end\":{}}}",
                        offset, min_length, from_end
                    );
                }
                ProjectionElem::Subslice { from, to, from_end } => {
                    let _ = write!(s, "{{\"sub\":[{},{}],\"from_end\":{}}}", from, to, from_end);
                }
                ProjectionElem::Downcast(name, v) => {
                    let n = name.map(|n| n.to_string()).unwrap_or_default();
                    let _ = write!(s, "{{\"dc\":{},\"n\":{}}}", v.as_usize(), esc(&n));
                }
                ProjectionElem::OpaqueCast(t) => {
                    let _ = write!(s, "{{\"opaque\":{}}}", self.ty(t));
                }
                ProjectionElem::UnwrapUnsafeBinder(t) => {
                    let _ = write!(s, "{{\"unbind\":{}}}", self.ty(t));
                }
            }
        }
        s.push_str("]}");
        s
    }

    fn fn_def(&self, owner: DefId, def: DefId, args: ty::GenericArgsRef<'tcx>) -> String {
        let tcx = self.tcx;
        let path = tcx.def_path_str(def);
        let full = tcx.def_path_str_with_args(def, args);
        let mut s = format!("\"fn\":{},\"fn_full\":{}", esc(&path), esc(&full));
        let gargs: Vec<String> = args.iter().map(|a| esc(&format!("{}", a))).collect();
        let _ = write!(s, ",\"gargs\":[{}]", gargs.join(","));
        let _ = write!(s, ",\"local\":{}", def.is_local());
        // resolve trait methods to the implementation where possible
        let env = TypingEnv::post_analysis(tcx, owner);
        let resolved = std::panic::catch_unwind(std::panic::AssertUnwindSafe(|| {
            Instance::try_resolve(tcx, env, def, args)
        }));
        if let Ok(Ok(Some(inst))) = resolved {
            let rd = inst.def_id();
            let _ = write!(
                s,
                ",\"res\":{},\"res_full\":{},\"res_local\":{},\"res_kind\":{}",
                esc(&tcx.def_path_str(rd)),
                esc(&tcx.def_path_str_with_args(rd, inst.args)),
                rd.is_local(),
                esc(&format!("{:?}", std::mem::discriminant(&inst.def)))
            );
            let kind = match inst.def {
                ty::InstanceKind::Item(_) => "item",
                ty::InstanceKind::Virtual(..) => "virtual",
                ty::InstanceKind::ClosureOnceShim { .. } => "closure_once",
                ty::InstanceKind::FnPtrShim(..) => "fnptr",
                ty::InstanceKind::DropGlue(..) => "drop_glue",
                ty::InstanceKind::CloneShim(..) => "clone_shim",
                ty::InstanceKind::Intrinsic(..) => "intrinsic",
                ty::InstanceKind::VTableShim(..) => "vtable_shim",
                ty::InstanceKind::ReifyShim(..) => "reify",
                _ => "other",
            };
            let _ = write!(s, ",\"inst\":{}", esc(kind));
        }
        // trait of the (unresolved) callee, if it is a trait method
        if let Some(tr) = tcx.trait_of_assoc(def) {
            let _ = write!(s, ",\"trait\":{}", esc(&tcx.def_path_str(tr)));
        }
        s
    }

    fn constant(&self, owner: DefId, c: &Const<'tcx>) -> String {
        let tcx = self.tcx;
        let t = c.ty();
        let mut s = format!("{{\"ty\":{},\"disp\":{}", self.ty(t), esc(&format!("{}", c)));
        match t.kind() {
            ty::FnDef(def, args) => {
                let _ = write!(s, ",{}", self.fn_def(owner, *def, args));
            }
            ty::Int(_) | ty::Uint(_) | ty::Bool | ty::Char => {
                let env = TypingEnv::post_analysis(tcx, owner);
                let v = std::panic::catch_unwind(std::panic::AssertUnwindSafe(|| {
                    c.try_eval_scalar_int(tcx, env)
                }));
                if let Ok(Some(si)) = v {
                    let size = si.size();
                    let bits = si.to_bits(size);
                    let val: i128 = if let ty::Int(_) = t.kind() {
                        size.sign_extend(bits)
                    } else {
                        bits as i128
                    };
                    let _ = write!(s, ",\"int\":\"{}\"", val);
                }
            }
            _ => {}
        }
        if let Const::Val(rustc_middle::mir::ConstValue::Scalar(rustc_middle::mir::interpret::Scalar::Ptr(ptr, _)), _) = c {
            let aid = ptr.provenance.alloc_id();
            if let Some(rustc_middle::mir::interpret::GlobalAlloc::Static(sd)) = tcx.try_get_global_alloc(aid) {
                let _ = write!(s, ",\"static\":{}", esc(&tcx.def_path_str(sd)));
            }
        }
        if let Const::Unevaluated(u, _) = c {
            let _ = write!(
                s,
                ",\"uneval\":{},\"promoted\":{}",
                esc(&tcx.def_path_str(u.def)),
                match u.promoted {
                    Some(p) => format!("{}", p.as_usize()),
                    None => "null".to_string(),
                }
            );
        }
        s.push('}');
        s
    }

    fn operand(&self, owner: DefId, body: &Body<'tcx>, o: &Operand<'tcx>) -> String {
        match o {
            Operand::Copy(p) => format!("{{\"k\":\"copy\",\"pl\":{}}}", self.place(body, p)),
            Operand::Move(p) => format!("{{\"k\":\"move\",\"pl\":{}}}", self.place(body, p)),
            Operand::Constant(c) => {
                format!("{{\"k\":\"const\",\"c\":{}}}", self.constant(owner, &c.const_))
            }
            _ => format!("{{\"k\":\"other\",\"dbg\":{}}}", esc(&format!("{:?}", o))),
        }
    }

    fn rvalue(&self, owner: DefId, body: &Body<'tcx>, rv: &Rvalue<'tcx>) -> String {
        let tcx = self.tcx;
        match rv {
            Rvalue::Use(o, _) => format!("{{\"k\":\"use\",\"op\":{}}}", self.operand(owner, body, o)),
            Rvalue::Repeat(o, n) => format!(
                "{{\"k\":\"repeat\",\"op\":{},\"n\":{}}}",
                self.operand(owner, body, o),
                esc(&format!("{}", n))
            ),
            Rvalue::Ref(_, bk, p) => format!(
                "{{\"k\":\"ref\",\"mut\":{},\"bk\":{},\"pl\":{}}}",
                matches!(bk, rustc_middle::mir::BorrowKind::Mut { .. }),
                esc(&format!("{:?}", bk)),
                self.place(body, p)
            ),
            Rvalue::ThreadLocalRef(d) => {
                format!("{{\"k\":\"tls\",\"def\":{}}}", esc(&tcx.def_path_str(*d)))
            }
            Rvalue::RawPtr(k, p) => format!(
                "{{\"k\":\"rawptr\",\"kind\":{},\"pl\":{}}}",
                esc(&format!("{:?}", k)),
                self.place(body, p)
            ),
            Rvalue::Cast(k, o, t) => format!(
                "{{\"k\":\"cast\",\"kind\":{},\"op\":{},\"ty\":{}}}",
                esc(&format!("{:?}", k)),
                self.operand(owner, body, o),
                self.ty(*t)
            ),
            Rvalue::BinaryOp(op, ab) => format!(
                "{{\"k\":\"binop\",\"op\":{},\"a\":{},\"b\":{}}}",
                esc(&format!("{:?}", op)),
                self.operand(owner, body, &ab.0),
                self.operand(owner, body, &ab.1)
            ),
            Rvalue::UnaryOp(op, o) => format!(
                "{{\"k\":\"unop\",\"op\":{},\"a\":{}}}",
                esc(&format!("{:?}", op)),
                self.operand(owner, body, o)
            ),
            Rvalue::Discriminant(p) => {
                let pty = p.ty(body, tcx).ty;
                format!(
                    "{{\"k\":\"discr\",\"pl\":{},\"of\":{}}}",
                    self.place(body, p),
                    self.ty(pty)
                )
            }
            Rvalue::Aggregate(kind, ops) => {
                let opss: Vec<String> = ops.iter().map(|o| self.operand(owner, body, o)).collect();
                let k = match &**kind {
                    AggregateKind::Array(t) => format!("\"agg\":\"array\",\"ety\":{}", self.ty(*t)),
                    AggregateKind::Tuple => "\"agg\":\"tuple\"".to_string(),
                    AggregateKind::Adt(d, v, args, _, _) => {
                        let adt = tcx.adt_def(*d);
                        let var = adt.variant(*v);
                        let fields: Vec<String> =
                            var.fields.iter().map(|f| esc(&f.name.to_string())).collect();
                        format!(
                            "\"agg\":\"adt\",\"adt\":{},\"adt_full\":{},\"variant\":{},\"vname\":{},\"fields\":[{}]",
                            esc(&tcx.def_path_str(*d)),
                            esc(&tcx.def_path_str_with_args(*d, args)),
                            v.as_usize(),
                            esc(&var.name.to_string()),
                            fields.join(",")
                        )
                    }
                    AggregateKind::Closure(d, _) => {
                        format!("\"agg\":\"closure\",\"def\":{}", esc(&tcx.def_path_str(*d)))
                    }
                    AggregateKind::Coroutine(d, _) => {
                        format!("\"agg\":\"coroutine\",\"def\":{}", esc(&tcx.def_path_str(*d)))
                    }
                    AggregateKind::CoroutineClosure(d, _) => {
                        format!("\"agg\":\"coroutine_closure\",\"def\":{}", esc(&tcx.def_path_str(*d)))
                    }
                    AggregateKind::RawPtr(t, _) => format!("\"agg\":\"rawptr\",\"ety\":{}", self.ty(*t)),
                };
                format!("{{\"k\":\"agg\",{},\"ops\":[{}]}}", k, opss.join(","))
            }
            Rvalue::CopyForDeref(p) => {
                format!("{{\"k\":\"copy_for_deref\",\"pl\":{}}}", self.place(body, p))
            }
            Rvalue::WrapUnsafeBinder(o, _) => {
                format!("{{\"k\":\"use\",\"op\":{}}}", self.operand(owner, body, o))
            }
        }
    }

    fn assert_msg(&self, owner: DefId, body: &Body<'tcx>, m: &AssertKind<Operand<'tcx>>) -> String {
        match m {
            AssertKind::BoundsCheck { len, index } => format!(
                "{{\"k\":\"bounds\",\"len\":{},\"index\":{}}}",
                self.operand(owner, body, len),
                self.operand(owner, body, index)
            ),
            AssertKind::Overflow(op, a, b) => format!(
                "{{\"k\":\"overflow\",\"op\":{},\"a\":{},\"b\":{}}}",
                esc(&format!("{:?}", op)),
                self.operand(owner, body, a),
                self.operand(owner, body, b)
            ),
            AssertKind::OverflowNeg(a) => {
                format!("{{\"k\":\"overflow_neg\",\"a\":{}}}", self.operand(owner, body, a))
            }
            AssertKind::DivisionByZero(a) => {
                format!("{{\"k\":\"div_zero\",\"a\":{}}}", self.operand(owner, body, a))
            }
            AssertKind::RemainderByZero(a) => {
                format!("{{\"k\":\"rem_zero\",\"a\":{}}}", self.operand(owner, body, a))
            }
            o => format!("{{\"k\":\"other\",\"dbg\":{}}}", esc(&format!("{:?}", o))),
        }
    }

    fn bb(b: BasicBlock) -> usize {
        b.as_usize()
    }

    fn unwind(u: &rustc_middle::mir::UnwindAction) -> String {
        match u {
            rustc_middle::mir::UnwindAction::Cleanup(b) => format!("{}", b.as_usize()),
            _ => "null".to_string(),
        }
    }

    fn body(&self, did: DefId, body: &Body<'tcx>, promoted: Option<usize>) -> String {
        let tcx = self.tcx;
        let mut s = String::new();
        let kind = tcx.def_kind(did);
        let path = match promoted {
            Some(i) => format!("{}::promoted[{}]", tcx.def_path_str(did), i),
            None => tcx.def_path_str(did),
        };
        let kindstr = match promoted {
            Some(_) => "Promoted".to_string(),
            None => format!("{:?}", kind),
        };
        let _ = write!(
            s,
            "{{\"path\":{},\"kind\":{},\"span\":{}",
            esc(&path),
            esc(&kindstr),
            self.span(tcx.def_span(did))
        );
        // parent chain (closure -> enclosing fn; method -> impl)
        let parent = tcx.opt_parent(did);
        if let Some(p) = parent {
            let _ = write!(s, ",\"parent\":{}", esc(&tcx.def_path_str(p)));
        }
        // enclosing non-closure body
        let root = tcx.typeck_root_def_id(did);
        let _ = write!(s, ",\"root\":{}", esc(&tcx.def_path_str(root)));
        // impl info for the root
        if let Some(imp) = tcx.opt_parent(root) {
            if let DefKind::Impl { of_trait } = tcx.def_kind(imp) {
                let selfty = tcx.type_of(imp).instantiate_identity().skip_norm_wip();
                let _ = write!(s, ",\"impl_self\":{}", self.ty(selfty));
                if of_trait {
                    let tr = tcx.impl_trait_ref(imp).instantiate_identity().skip_norm_wip();
                    let _ = write!(
                        s,
                        ",\"impl_trait\":{},\"impl_trait_full\":{}",
                        esc(&tcx.def_path_str(tr.def_id)),
                        esc(&format!("{}", tr))
                    );
                }
            }
        }
        // predicates of the root item and of all its parents
        let mut preds: Vec<String> = Vec::new();
        let mut cur = Some(root);
        while let Some(d) = cur {
            let k = tcx.def_kind(d);
            if matches!(
                k,
                DefKind::Fn | DefKind::AssocFn | DefKind::Impl { .. } | DefKind::Trait | DefKind::Struct | DefKind::Enum
            ) {
                for (cl, _) in tcx.predicates_of(d).predicates {
                    preds.push(esc(&format!("{}", cl)));
                }
            }
            cur = tcx.opt_parent(d);
            if let Some(c) = cur {
                if matches!(tcx.def_kind(c), DefKind::Mod) {
                    break;
                }
            }
        }
        let _ = write!(s, ",\"preds\":[{}]", preds.join(","));
        let _ = write!(s, ",\"arg_count\":{}", body.arg_count);
        // locals
        s.push_str(",\"locals\":[");
        for (i, (_, d)) in body.local_decls.iter_enumerated().enumerate() {
            if i > 0 {
                s.push(',');
            }
            let _ = write!(
                s,
                "{{\"ty\":{},\"mut\":{}}}",
                self.ty(d.ty),
                d.mutability.is_mut()
            );
        }
        s.push(']');
        // debug info
        s.push_str(",\"vars\":[");
        for (i, v) in body.var_debug_info.iter().enumerate() {
            if i > 0 {
                s.push(',');
            }
            let val = match &v.value {
                VarDebugInfoContents::Place(p) => format!("\"pl\":{}", self.place(body, p)),
                VarDebugInfoContents::Const(c) => {
                    format!("\"c\":{}", self.constant(did, &c.const_))
                }
            };
            let _ = write!(
                s,
                "{{\"name\":{},{},\"arg\":{},\"span\":{}}}",
                esc(&v.name.to_string()),
                val,
                match v.argument_index {
                    Some(a) => format!("{}", a),
                    None => "null".to_string(),
                },
                self.span(v.source_info.span)
            );
        }
        s.push(']');
        // blocks
        s.push_str(",\"blocks\":[");
        for (bi, (_, bb)) in body.basic_blocks.iter_enumerated().enumerate() {
            if bi > 0 {
                s.push(',');
            }
            let _ = write!(s, "{{\"cleanup\":{},\"stmts\":[", bb.is_cleanup);
            let mut first = true;
            for st in &bb.statements {
                let js = match &st.kind {
                    StatementKind::Assign(b) => Some(format!(
                        "{{\"k\":\"assign\",\"lhs\":{},\"rv\":{},\"span\":{}}}",
                        self.place(body, &b.0),
                        self.rvalue(did, body, &b.1),
                        self.span(st.source_info.span)
                    )),
                    StatementKind::SetDiscriminant { place, variant_index } => Some(format!(
                        "{{\"k\":\"setdiscr\",\"lhs\":{},\"variant\":{},\"span\":{}}}",
                        self.place(body, place),
                        variant_index.as_usize(),
                        self.span(st.source_info.span)
                    )),
                    StatementKind::StorageLive(_)
                    | StatementKind::StorageDead(_)
                    | StatementKind::Nop
                    | StatementKind::FakeRead(_)
                    | StatementKind::PlaceMention(_)
                    | StatementKind::AscribeUserType(..)
                    | StatementKind::Coverage(_)
                    | StatementKind::ConstEvalCounter
                    | StatementKind::BackwardIncompatibleDropHint { .. } => None,
                    StatementKind::Intrinsic(i) => Some(format!(
                        "{{\"k\":\"intrinsic\",\"dbg\":{},\"span\":{}}}",
                        esc(&format!("{:?}", i)),
                        self.span(st.source_info.span)
                    )),
                };
                if let Some(js) = js {
                    if !first {
                        s.push(',');
                    }
                    first = false;
                    s.push_str(&js);
                }
            }
            s.push_str("],\"term\":");
            let t = bb.terminator();
            let tsp = self.span(t.source_info.span);
            let tj = match &t.kind {
                TerminatorKind::Goto { target } => {
                    format!("{{\"k\":\"goto\",\"target\":{}", Self::bb(*target))
                }
                TerminatorKind::SwitchInt { discr, targets } => {
                    let mut arms: Vec<String> = Vec::new();
                    for (v, b) in targets.iter() {
                        arms.push(format!("[\"{}\",{}]", v, Self::bb(b)));
                    }
                    let dty = discr.ty(body, tcx);
                    format!(
                        "{{\"k\":\"switch\",\"discr\":{},\"dty\":{},\"arms\":[{}],\"otherwise\":{}",
                        self.operand(did, body, discr),
                        self.ty(dty),
                        arms.join(","),
                        Self::bb(targets.otherwise())
                    )
                }
                TerminatorKind::UnwindResume => "{\"k\":\"resume\"".to_string(),
                TerminatorKind::UnwindTerminate(_) => "{\"k\":\"terminate\"".to_string(),
                TerminatorKind::Return => "{\"k\":\"return\"".to_string(),
                TerminatorKind::Unreachable => "{\"k\":\"unreachable\"".to_string(),
                TerminatorKind::Drop { place, target, unwind, .. } => {
                    let pty = place.ty(body, tcx).ty;
                    format!(
                        "{{\"k\":\"drop\",\"pl\":{},\"ty\":{},\"target\":{},\"unwind\":{}",
                        self.place(body, place),
                        self.ty(pty),
                        Self::bb(*target),
                        Self::unwind(unwind)
                    )
                }
                TerminatorKind::Call { func, args, destination, target, unwind, fn_span, .. } => {
                    let argss: Vec<String> =
                        args.iter().map(|a| self.operand(did, body, &a.node)).collect();
                    let dty = destination.ty(body, tcx).ty;
                    format!(
                        "{{\"k\":\"call\",\"func\":{},\"args\":[{}],\"dest\":{},\"dest_ty\":{},\"target\":{},\"unwind\":{},\"fn_span\":{}",
                        self.operand(did, body, func),
                        argss.join(","),
                        self.place(body, destination),
                        self.ty(dty),
                        match target {
                            Some(t) => format!("{}", Self::bb(*t)),
                            None => "null".to_string(),
                        },
                        Self::unwind(unwind),
                        self.span(*fn_span)
                    )
                }
                TerminatorKind::TailCall { func, args, .. } => {
                    let argss: Vec<String> =
                        args.iter().map(|a| self.operand(did, body, &a.node)).collect();
                    format!(
                        "{{\"k\":\"tailcall\",\"func\":{},\"args\":[{}]",
                        self.operand(did, body, func),
                        argss.join(",")
                    )
                }
                TerminatorKind::Assert { cond, expected, msg, target, unwind } => format!(
                    "{{\"k\":\"assert\",\"cond\":{},\"expected\":{},\"msg\":{},\"target\":{},\"unwind\":{}",
                    self.operand(did, body, cond),
                    expected,
                    self.assert_msg(did, body, msg),
                    Self::bb(*target),
                    Self::unwind(unwind)
                ),
                TerminatorKind::FalseEdge { real_target, .. } => {
                    format!("{{\"k\":\"goto\",\"target\":{}", Self::bb(*real_target))
                }
                TerminatorKind::FalseUnwind { real_target, .. } => {
                    format!("{{\"k\":\"goto\",\"target\":{}", Self::bb(*real_target))
                }
                o => format!("{{\"k\":\"other\",\"dbg\":{}", esc(&format!("{:?}", o))),
            };
            let _ = write!(s, "{},\"span\":{}}}}}", tj, tsp);
        }
        s.push_str("]}");
        s
    }
}

struct Cb;

impl rustc_driver::Callbacks for Cb {
    fn after_analysis<'tcx>(
        &mut self,
        _c: &rustc_interface::interface::Compiler,
        tcx: TyCtxt<'tcx>,
    ) -> Compilation {
        let want = std::env::var("TU_FACTS_CRATE").unwrap_or_else(|_| "text_utils".to_string());
        if tcx.crate_name(LOCAL_CRATE).as_str() != want {
            return Compilation::Continue;
        }
        let out = match std::env::var("TU_FACTS_OUT") {
            Ok(o) => o,
            Err(_) => return Compilation::Continue,
        };
        let cx = Cx { tcx };
        let mut s = String::with_capacity(64 << 20);
        s.push_str("{\"crate\":");
        s.push_str(&esc(&want));
        // rustc argv, so that the self-test can re-run the driver without cargo
        let argv: Vec<String> = std::env::args().map(|a| esc(&a)).collect();
        let _ = write!(s, ",\"argv\":[{}]", argv.join(","));
        let _ = write!(
            s,
            ",\"cwd\":{}",
            esc(&std::env::current_dir().map(|p| p.display().to_string()).unwrap_or_default())
        );
        // bodies
        s.push_str(",\"bodies\":[");
        let mut n = 0usize;
        let mut keys: Vec<_> = tcx.mir_keys(()).iter().copied().collect();
        keys.sort_by_key(|k| tcx.def_path_str(k.to_def_id()));
        for k in keys {
            let did = k.to_def_id();
            let kind = tcx.def_kind(did);
            if !matches!(kind, DefKind::Fn | DefKind::AssocFn | DefKind::Closure) {
                continue;
            }
            if !tcx.is_mir_available(did) {
                continue;
            }
            let body = tcx.optimized_mir(did);
            if n > 0 {
                s.push(',');
            }
            n += 1;
            s.push_str(&cx.body(did, body, None));
            for (pi, pb) in tcx.promoted_mir(did).iter_enumerated() {
                s.push(',');
                n += 1;
                s.push_str(&cx.body(did, pb, Some(pi.as_usize())));
            }
        }
        s.push(']');
        // ADTs
        s.push_str(",\"adts\":[");
        let mut first = true;
        for id in tcx.hir_crate_items(()).definitions() {
            let did = id.to_def_id();
            let kind = tcx.def_kind(did);
            if !matches!(kind, DefKind::Struct | DefKind::Enum) {
                continue;
            }
            let adt = tcx.adt_def(did);
            if !first {
                s.push(',');
            }
            first = false;
            let _ = write!(
                s,
                "{{\"path\":{},\"kind\":{},\"variants\":[",
                esc(&tcx.def_path_str(did)),
                esc(&format!("{:?}", kind))
            );
            for (i, v) in adt.variants().iter().enumerate() {
                if i > 0 {
                    s.push(',');
                }
                let fields: Vec<String> = v
                    .fields
                    .iter()
                    .map(|f| {
                        format!(
                            "{{\"name\":{},\"ty\":{}}}",
                            esc(&f.name.to_string()),
                            cx.ty(tcx.type_of(f.did).instantiate_identity().skip_norm_wip())
                        )
                    })
                    .collect();
                let _ = write!(
                    s,
                    "{{\"name\":{},\"fields\":[{}]}}",
                    esc(&v.name.to_string()),
                    fields.join(",")
                );
            }
            s.push_str("]}");
        }
        s.push(']');
        // impls
        s.push_str(",\"impls\":[");
        let mut first = true;
        for id in tcx.hir_crate_items(()).definitions() {
            let did = id.to_def_id();
            if let DefKind::Impl { of_trait } = tcx.def_kind(did) {
                if !first {
                    s.push(',');
                }
                first = false;
                let selfty = tcx.type_of(did).instantiate_identity().skip_norm_wip();
                let tr = if of_trait {
                    let t = tcx.impl_trait_ref(did).instantiate_identity().skip_norm_wip();
                    esc(&format!("{}", t))
                } else {
                    "null".to_string()
                };
                let items: Vec<String> = tcx
                    .associated_item_def_ids(did)
                    .iter()
                    .map(|d| esc(&tcx.def_path_str(*d)))
                    .collect();
                let preds: Vec<String> = tcx
                    .predicates_of(did)
                    .predicates
                    .iter()
                    .map(|(c, _)| esc(&format!("{}", c)))
                    .collect();
                let _ = write!(
                    s,
                    "{{\"self\":{},\"trait\":{},\"items\":[{}],\"preds\":[{}],\"span\":{}}}",
                    cx.ty(selfty),
                    tr,
                    items.join(","),
                    preds.join(","),
                    cx.span(tcx.def_span(did))
                );
            }
        }
        s.push(']');
        // statics / consts
        s.push_str(",\"statics\":[");
        let mut first = true;
        for id in tcx.hir_crate_items(()).definitions() {
            let did = id.to_def_id();
            let kind = tcx.def_kind(did);
            if matches!(kind, DefKind::Static { .. } | DefKind::Const { .. }) {
                if !first {
                    s.push(',');
                }
                first = false;
                // the source text of the whole item (short items only): string constants such as regex patterns are part of the behaviour
                let src = tcx
                    .sess
                    .source_map()
                    .span_to_snippet(tcx.source_span(id))
                    .ok()
                    .filter(|t| t.len() <= 600)
                    .unwrap_or_default();
                let _ = write!(
                    s,
                    "{{\"path\":{},\"kind\":{},\"ty\":{},\"span\":{},\"src\":{}}}",
                    esc(&tcx.def_path_str(did)),
                    esc(&format!("{:?}", kind)),
                    cx.ty(tcx.type_of(did).instantiate_identity().skip_norm_wip()),
                    cx.span(tcx.def_span(did)),
                    esc(&src)
                );
            }
        }
        s.push(']');
        let _ = write!(s, ",\"n_bodies\":{}}}", n);
        let tmp = format!("{}.tmp.{}", out, std::process::id());
        std::fs::write(&tmp, s).expect("write facts");
        std::fs::rename(&tmp, &out).expect("rename facts");
        Compilation::Continue
    }
}

fn main() {
    let mut args: Vec<String> = std::env::args().collect();
    // RUSTC_WORKSPACE_WRAPPER passes the path of rustc as argv[1]
    if args.len() > 1 && (args[1].ends_with("rustc") || args[1].contains("/rustc")) {
        args.remove(1);
    }
    rustc_driver::run_compiler(&args, &mut Cb);
}
