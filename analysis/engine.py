"""Rule registry, results, evidence and known-findings handling."""
import json
import os
import re
import time
import traceback
import threading

_RULE_LOCK = threading.Lock()   # rule modules keep per-body role tables in module globals: evaluate one tree at a time

RULES = []


class Definite(Exception):
    """raised by a shared anchor helper when what it finds in place of the anchor is itself a violation (the construct is there
    and is wrong), as opposed to AnchorMissing (nothing recognisable is there)"""
    def __init__(self, key, msg, body=None, span=None):
        Exception.__init__(self, msg)
        self.key, self.msg, self.body, self.span = key, msg, body, span


class AnchorMissing(Exception):
    pass


class RuleDef:
    def __init__(self, prop, rid, fn, tier, template, desc):
        self.prop = prop
        self.rid = rid
        self.fn = fn
        self.tier = tier
        self.template = template
        self.desc = desc


def rule(prop, rid, template, desc, tier='quick'):
    def deco(fn):
        RULES.append(RuleDef(prop, rid, fn, tier, template, desc))
        return fn
    return deco


class Result:
    def __init__(self, rid, ok, site, fn, key, msg, details=None, kind='instance'):
        self.rid = rid
        self.ok = ok
        self.site = site
        self.fn = fn
        self.key = key
        self.msg = msg
        self.details = details or {}
        self.kind = kind

    def to_json(self):
        return {'rule': self.rid, 'ok': self.ok, 'site': self.site, 'function': self.fn, 'key': self.key,
                'message': self.msg, 'details': self.details}


def _site(body, span=None):
    if body is None:
        return '<crate>'
    sp = span or body.span
    return '%s:%d' % (sp['file'], sp['line'])


class Ctx:
    def __init__(self, facts, prop, tier):
        self.facts = facts
        self.prop = prop
        self.tier = tier
        self.results = []
        self.notes = []
        self.cur = None
        self.stats = {'bodies_inspected': set(), 'call_sites_inspected': 0}

    # -- anchors -----------------------------------------------------------
    def body(self, path):
        """the unique body with exactly this (normalised) def path; AnchorMissing otherwise"""
        from .facts import norm_path
        c = [b for b in self.facts.bodies if norm_path(b.path) == path]
        if len(c) != 1:
            raise AnchorMissing('function `%s` not found (%d candidates)' % (path, len(c)))
        self.stats['bodies_inspected'].add(c[0].path)
        return c[0]

    def bodies(self, pattern, minimum=1):
        from .facts import norm_path
        rx = re.compile(pattern)
        c = [b for b in self.facts.bodies if rx.search(norm_path(b.path))]
        if len(c) < minimum:
            raise AnchorMissing('fewer than %d functions match `%s` (%d found)' % (minimum, pattern, len(c)))
        for b in c:
            self.stats['bodies_inspected'].add(b.path)
        return c

    def closures(self, parent_path, recursive=True):
        from .facts import norm_path
        out = []
        for b in self.facts.bodies:
            if b.kind == 'Closure' and norm_path(b.root) == parent_path:
                out.append(b)
        for b in out:
            self.stats['bodies_inspected'].add(b.path)
        return out

    # -- verdicts ------------------------------------------------------------
    def ok(self, body, what, span=None, **details):
        self.results.append(Result(self.cur.rid, True, _site(body, span), body.path if body else '', '',
                                   what, details))

    def fail(self, body, key, what, span=None, **details):
        from .facts import norm_path
        fn = norm_path(body.path) if body else ''
        full_key = '%s|%s|%s' % (self.cur.rid, fn, key)
        self.results.append(Result(self.cur.rid, False, _site(body, span), body.path if body else '', full_key,
                                   what, details))

    def require(self, cond, body, key, what_ok, what_fail=None, span=None, **details):
        if cond:
            self.ok(body, what_ok, span, **details)
        else:
            self.fail(body, key, what_fail or ('NOT: ' + what_ok), span, **details)
        return cond

    def note(self, text):
        self.notes.append(text)


def run_rules(facts, prop, tier):
    with _RULE_LOCK:
        return _run_rules(facts, prop, tier)


def _run_rules(facts, prop, tier):
    ctx = Ctx(facts, prop, tier)
    ran = []
    for rd in RULES:
        if rd.prop != prop:
            continue
        if rd.tier == 'thorough' and tier != 'thorough':
            continue
        ctx.cur = rd
        n0 = len(ctx.results)
        try:
            rd.fn(ctx)
        except Definite as e:
            ctx.fail(e.body, e.key, e.msg, e.span)
        except AnchorMissing as e:
            ctx.results.append(Result(rd.rid, False, '<crate>', '', '%s||anchor-missing|%s' % (rd.rid, _stable(str(e))),
                                      'anchor missing: %s' % e, {'anchor_missing': True}))
        except Exception as e:  # fail closed: the anchored shape is not what the rule understands
            tb = traceback.format_exc()
            ctx.results.append(Result(rd.rid, False, '<crate>', '', '%s||rule-error|%s' % (rd.rid, type(e).__name__),
                                      'rule could not be evaluated on this tree (%s: %s)' % (type(e).__name__, e),
                                      {'traceback': tb}))
        if len(ctx.results) == n0:
            # a rule that matched nothing passes vacuously forever: fail closed
            ctx.results.append(Result(rd.rid, False, '<crate>', '', '%s||no-instances' % rd.rid,
                                      'rule evaluated zero instances (anchor missing)', {'anchor_missing': True}))
        ran.append(rd)
    _split_undecided(ctx, facts, prop)
    return ctx, ran


_PROP_FILES = {}


def prop_files(prop):
    """source files a property is anchored in (from properties.jsonl, which is fixed)"""
    if not _PROP_FILES:
        import json
        here = os.path.dirname(os.path.dirname(os.path.abspath(__file__)))
        for line in open(os.path.join(here, 'properties.jsonl')):
            d = json.loads(line)
            _PROP_FILES[d['id']] = list(d.get('anchors', {}).get('files', []))
    return _PROP_FILES.get(prop, [])


def changed_sources(facts, prop, extra_files=()):
    """files (anchor files of the property + files of the functions its rules inspected) whose content differs from the
    baseline on which every anchor was confirmed by hand (analysis/baseline_sources.json)"""
    import json, hashlib
    here = os.path.dirname(os.path.abspath(__file__))
    base = json.load(open(os.path.join(here, 'baseline_sources.json')))['files']
    out = []
    for f in sorted(set(prop_files(prop)) | set(extra_files)):
        if base.get(f) != facts.source_sha.get(f):
            out.append(f)
    return out


def _split_undecided(ctx, facts, prop):
    """Three-valued outcome. A rule that cannot find the construct it reasons about (AnchorMissing / zero instances) has
    decided nothing. On the baseline sources this means the checker itself is broken and the rule fails closed. On sources that
    differ from the baseline (the anchored code was rewritten) the clause is reported as UNDECIDED -- loudly, in the output and
    the evidence -- but it is not a violation: the checker has no construct to point at."""
    ctx.undecided = []
    am = [r for r in ctx.results if not r.ok and r.details.get('anchor_missing')]
    if not am:
        return
    files = set()
    for bp in ctx.stats.get('bodies_inspected', ()):
        for b in facts.by_path.get(bp, []):
            f = b.file()
            if f:
                files.add(f)
    changed = changed_sources(facts, prop, files)
    if not changed:
        return
    for r in am:
        r.details['changed_sources'] = changed
        ctx.results.remove(r)
        ctx.undecided.append(r)


def _stable(s):
    return re.sub(r'[0-9]+', 'N', s)[:120]


# ---------------------------------------------------------------------------
# known findings

def load_known(path):
    findings = {}
    fixed = []
    if not os.path.exists(path):
        return findings, fixed
    for line in open(path):
        line = line.strip()
        if not line or line.startswith('#'):
            continue
        m = re.match(r'^finding:\s+property=(\S+)\s+key=(\S+)\s+(.*)$', line)
        if m:
            findings[(m.group(1), m.group(2))] = m.group(3)
            continue
        m = re.match(r'^fixed:\s+property=(\S+)\s+(\S+)\s+(.*)$', line)
        if m:
            fixed.append((m.group(1), m.group(2), m.group(3)))
    return findings, fixed
