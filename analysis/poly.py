"""Tiny polynomial normal form over symbolic trees (integer coefficients): used to compare index expressions such as
(i - 1) * cols + j - 1 with their reference form."""
from .sym import nosite, core


def anon(t):
    """drop debug names (of parameters, captured variables, locals) so that atoms do not depend on identifiers"""
    if not isinstance(t, tuple):
        return t
    if t and t[0] in ('arg', 'upvar') and len(t) >= 3:
        return (t[0], t[1])
    if t and t[0] == 'var' and len(t) >= 3:
        return ('var', t[2])
    return tuple(anon(x) if isinstance(x, tuple) else x for x in t)


def atom_key(t):
    return repr(anon(nosite(t)))


def _atom(t):
    return (nosite(t),)


def poly(t, subst=None):
    """dict {monomial (sorted tuple of atom keys): coeff}; atoms are non-arithmetic sub-trees"""
    t = core(t) if t and t[0] not in ('bin',) else t
    if subst is not None:
        k = nosite(t)
        for key, val in subst:
            if k == key:
                return dict(val)
    if t[0] == 'const' and t[2] is not None:
        return {(): t[2]} if t[2] != 0 else {}
    if t[0] == 'bin' and t[1] in ('Add', 'Sub', 'Mul'):
        a = poly(t[2], subst)
        b = poly(t[3], subst)
        if t[1] == 'Add':
            return _add(a, b, 1)
        if t[1] == 'Sub':
            return _add(a, b, -1)
        return _mul(a, b)
    if t[0] == 'cast':
        return poly(t[1], subst)
    return {(atom_key(t),): 1}


def _add(a, b, sign):
    r = dict(a)
    for m, c in b.items():
        r[m] = r.get(m, 0) + sign * c
        if r[m] == 0:
            del r[m]
    return r


def _mul(a, b):
    r = {}
    for m1, c1 in a.items():
        for m2, c2 in b.items():
            m = tuple(sorted(m1 + m2))
            r[m] = r.get(m, 0) + c1 * c2
            if r[m] == 0:
                del r[m]
    return r


def sub(a, b):
    return _add(a, b, -1)


def var(name):
    return {(name,): 1}


def const(c):
    return {(): c} if c else {}


def linear_in(p, cols_key):
    """decompose p = di * cols + dj with integer di, dj; returns (di, dj) or None"""
    di = dj = 0
    for m, c in p.items():
        if m == (cols_key,):
            di = c
        elif m == ():
            dj = c
        else:
            return None
    return di, dj


def linear_in_poly(p, cols_poly, span=4):
    """p = di * cols_poly + dj for small integers di: returns (di, dj) or None"""
    for di in range(-span, span + 1):
        r = sub(p, _mul(const(di), cols_poly)) if di else dict(p)
        if all(m == () for m in r):
            return di, r.get((), 0)
    return None
