"""Per-property texts: what the static rules decide, what they do not, what is assumed.
Used by the evidence writer and by tools/gen_manifest.py."""

COMMON_NOTE = ("Trusted base: rustc nightly front end + MIR construction, /verif/driver (MIR->JSON), /verif/analysis "
               "(CFG, dominance, symbolic slices) and the rule modules; documented semantics of the std/itertools/rand "
               "items named in the rules. The rules are necessary structural conditions of the property over the "
               "resolved program; value-level clauses listed under not_decided in the evidence are not claimed.")

INFO = {
    'C01': {
        'decides': 'framing order prefix/body/suffix, identity byte<->id mapping and the 256 boundary, contiguous tiling of the '
                   'special-token split, one token per Character with unknown fallback',
        'not_decided': ['decode(encode(s)) == s as a value statement', 'correctness of the regex crate and of grapheme segmentation'],
    },
    'C02': {
        'decides': 'agreement of merge id / token id (+256) / token-table index, byte provenance of merged tokens, single emitter of '
                   'ids, no narrowing of positions, no ambient state, trainer/tokenizer share the word pattern, from_utf8 (error not panic)',
        'not_decided': ['the round trip as a value statement', 'semantics of the word regex (drops only trailing whitespace)',
                        'UTF-8 validity of concatenated token bytes as a value fact'],
    },
    'C03': {
        'decides': 'the merge heap is drained (no early exit), re-pushed stamps are read after the state update, staleness filter, '
                   'ordering key (Reverse(id), Reverse(left index)), nearest live neighbours in text order, both neighbours '
                   'reconsidered after every merge, no emitter bypassing the merge loop',
        'not_decided': ['equality with a reference BPE as a value statement (the rules are the premises of the standard '
                        'lazy-deletion priority-queue argument; the argument itself is on paper)'],
    },
    'C04': {
        'decides': 'offsets between id spaces (256, table length, Vocab::len), special offset provenance per tokenizer kind, '
                   'Vocab::build chain and reverse map, pad/prefix/suffix ids looked up in the built vocabulary, vocab_size formulas',
        'not_decided': ['pad_to_multiple_of arithmetic yields a multiple (value fact)', 'bijectivity as a value statement'],
    },
    'C05': {
        'decides': 'every shape condition of the ticket protocol on every path of the worker: ticket under the lock on the enumerated '
                   'iterator, turn wait with single exit, send-before-advance, advance on every path, single writer of the turn, '
                   'blocking recv, sender lifetime, worker count >= 1, no Clone bound / no item drop',
        'not_decided': ['the interleaving argument itself (two-line invariant on paper: send_next = number of attempted sends)',
                        'liveness under an unfair scheduler (spin wait)', 'memory-model facts beyond "ordering is not Relaxed"'],
    },
    'C06': {
        'decides': 'ownership (no Clone bound, no item drop), non-empty batches, limit test (strict >, update before push, remainder = '
                   'rejected item), BatchLimit tables, nothing stranded (None only on empty buffer, remainder pushed back, plain refill '
                   'order), seeded rng only, stable sort by size, progress of the fill loop, sub-sequence choice and splice',
        'not_decided': ['that a sorted+shuffled sub-sequence satisfies the limit as a value fact (delegated to the size function whose '
                        'shape is checked)', 'partition as a value statement'],
    },
    'C08': {
        'decides': 'adaptor order and arguments of init_iter (global enumerate before take/skip/step_by), seed derivation (epoch seed, '
                   'item seed = seed + global index), absolute setters and designated writers of the offsets, no ambient nondeterminism '
                   'source and no hash-order leak in the per-item code, rngs seeded from info.seed, no interior-mutable state in per-item '
                   'closures; C05/C06-5 prerequisites re-evaluated',
        'not_decided': ['equality of two runs as a value statement', 'fast_forward semantics for k not a multiple of the world size is as coded',
                        'determinism of third-party code (regex, unicode tables, rand distributions) is assumed'],
    },
    'C07': {
        'decides': 'termination shape of the interleaved scan (continues only after observing finished[c]; +1 mod n; precondition '
                   '!all_finished), mark-before-reselect, None only under all_finished, tagging before re-selection, single puller, '
                   'sequential/weighted arm tables, seeded rng',
        'not_decided': ['round-robin fairness beyond "advance by one, skip finished"', 'exactly-once as a value statement'],
    },
    'C09': {
        'decides': 'send errors leave the producer loops, channels are bounded by the caller-given capacity, one pull per blocking '
                   'send, turn advanced on the error path, panic hook installed before spawn and cannot return',
        'not_decided': ['wall-clock promptness', 'std semantics of panic hooks / process::exit are assumed',
                        'train_bpe installing another hook later (a history of API calls) is outside the quantifier'],
    },
}

INFO.update({
    'C10': {
        'decides': 'operations(): single Ok result = the vector of the alignment loop, exactly one push and from_ptr+1 per iteration, '
                   'operation <-> to_ptr step <-> guard table, unwrap/index guards; repair(): mismatch => Err with a panic-free error path, '
                   'only a single space inserted and only under Insert/!ws/!prev-ws, skip only under Delete && ws, in-order zip; one '
                   'whitespace predicate; labels = operations(input, target)',
        'not_decided': ['repair(from, operations(from, to)) == to as a value statement', 'behaviour on inputs that are not whitespace-clean'],
    },
    'C11': {
        'decides': 'Character::is_whitespace = all code points char::is_whitespace on every path and used by clean/word_boundaries/'
                   'remove/full; clean(): skip/remember/one-space/append discipline; remove/full filter the characters of the input '
                   'itself; word_boundaries open/close/trailing-word table',
        'not_decided': ['idempotence and equality with split_whitespace().join(" ") as value statements',
                        'grapheme segmentation itself (unicode-segmentation crate)'],
    },
    'C12': {
        'decides': 'term-by-term reconstruction of the DP recurrence (cell offsets, costs, ops, guards incl. the whitespace restrictions), '
                   'initialisation, first-minimum selector, backtrace table and reversal, answer cell / prefix row, clamped divisor, '
                   'single result expression',
        'not_decided': ['the [0,1] bound of the normalised distance under spaces_insert_delete_only (does not hold by definition)',
                        'the induction from the recurrence to the value statement is on paper'],
    },
    'C13': {
        'decides': 'all float divisions have non-zero divisors, F-beta shape (recall-weighted), explicit panic-site inventory over the '
                   'call graph of the metric entry points (D7 known finding), set-operation provenance of tp/fp/fn, empty-sequence flag, '
                   'micro / sequence-averaged aggregation shapes, accuracy / mean edit distance shapes',
        'not_decided': ['numeric values of F-beta; calibration clauses as value statements', 'implicit arithmetic panics (overflow) are not inventoried'],
    },
    'C14': {
        'decides': 'unconditional seed_from_u64(info.seed), one uniform draw per character before branching, per-character yield table '
                   '("" / c / " "+c) with its guards (strict <, idx > 0, previous CHARACTER not whitespace), join(""), apply() rewrites only '
                   'the selected part, labels via whitespace::operations',
        'not_decided': ['recoverability by operations/repair as a value statement', 'the distribution of the draws'],
    },
    'C15': {
        'decides': 'all checked subtractions in corrupt.rs are guarded, exclusion set consulted for exactly the touched positions and an '
                   'excluded position rejects the candidate (path sensitive), re-indexing maps per edit kind (exact, total, collected), '
                   'no in-place shifting, new positions added, result string pieces, exclusion set threaded through chained edits',
        'not_decided': ['exactly-one-edit as a value statement', 'behaviour of user supplied CanEdit/GetEdits implementations'],
    },
    'C16': {
        'decides': 'configuration guard max <= 2*context => Err dominating the window-length subtraction, tiling shape (start 0, next start '
                   '= pushed end, loop until len), window_end formulas, no-progress => Err before push (byte), Window field table, context '
                   'formulas, count_until budget test',
        'not_decided': ['the size bound of a context as a value statement', 'that positions computed from the run-length table equal the prefix sums of the cluster lengths as a value statement (the shapes of run_length_encode / decode and byte_start_end are checked)'],
    },
    'C18': {
        'decides': 'term-by-term reconstruction of the LCS recurrence (2-D offsets, +[match], Match iff matching), last-maximum selector, '
                   'border initialisation, backtrace table with push after the step, reversal, returned counts, case-insensitive '
                   'comparison by lower-casing only, edited_words complements by side',
        'not_decided': ['maximality of the matching as a value statement (follows from the recurrence on paper)'],
    },
})
NOT_DECIDED = {k: v.get('not_decided', []) for k, v in INFO.items()}
ASSUMPTIONS = {k: v.get('assumptions', []) for k, v in INFO.items()}

INFO.update({
    'C01': {
        'decides': 'framing prefix ++ ids ++ suffix (unconditional) and its use by byte/char tokenize; byte <-> id identity with the strict '
                   '256 boundary, no arithmetic/filter on the byte path, from_utf8; special-token split pieces and `last` discipline; one '
                   'token per Character through CS::new(.., use_graphemes) with unk for clusters and unk_token_id fallback; no bypassing writer',
        'not_decided': ['decode(encode(s)) == s as a value statement', 'regex crate matching semantics', 'grapheme segmentation'],
    },
    'C17': {
        'decides': 'paired writers of ids and groups in ByteTokenizer::process_input (prefix/special/bytes/code points/suffix, no bypass), '
                   'same text and grapheme flag for ids and groups, TokenGroup::len / get_weights tables, pad_ids / padding_mask order, sparse '
                   'matrix size (independent maxima), index planes and offset stepping',
        'not_decided': ['weights summing to one as float values', 'ndarray shape conversions'],
    },
    'C19': {
        'decides': 'pair selection = filter(freq > 0).max_by_key(freq), merge loop order and recording under the loop index, num_merges '
                   'formula, worker exits (exhaustion / closed channel only), every pulled line sent, additive reducer, shared word pattern, '
                   'neighbour-pair guards of the incremental statistics',
        'not_decided': ['that the incremental statistics equal a recount (value level); only the guards of each update are checked',
                        'tie-breaking among equally frequent pairs (hash order) is not constrained by the property'],
    },
    'C20': {
        'decides': 'unlimited sentinels reach no capacity / checked arithmetic, top-k heap shape (Reverse((freq, word)), strict eviction, full '
                   'drain), shared line iterator = flat_map(lines).take(max_sequences) inside the mutex, worker exits and additive reducer '
                   '(no removal), freq_sum, save/load separator agreement, get_closest strict-less / equal / most-frequent table',
        'not_decided': ['exact frequencies as a value statement', 'which of several equally frequent, equally close entries is returned (hash order)'],
    },
})
NOT_DECIDED = {k: v.get('not_decided', []) for k, v in INFO.items()}
ASSUMPTIONS = {k: v.get('assumptions', []) for k, v in INFO.items()}


# clauses added after the blind second round of seeded changes (rules R-C02-6, R-C07-7, R-C08-7, R-C09-6, R-C13-5, R-C15-7, R-C17-5,
# R-C19-6, R-C20-7 and the new clauses of existing rules)
_EXTRA_DECIDES = {
    'C02': 'every regular piece of split_input goes to merge_bytes whole and once (single caller); the table producer records a merge in every iteration that selected a pair (dense ids)',
    'C05': 'workers are dedicated threads (not a shared pool) and pull one item at a time',
    'C07': 'explicit panic sites of next / next_idx / all_finished are the reviewed inventory (a complete cyclic search is recognised and justified)',
    'C08': 'the worker count flows only into pipe(.., n)',
    'C09': 'producer threads are detached and no Drop receives or joins',
    'C10': 'the repaired output is append-only; the task labels are exactly the operations of (input, target) between the -1 frames',
    'C11': 'clean() returns only the string it built; word ranges are measured in Characters only',
    'C13': 'decision table of the evaluated operations per mode; inclusive word-end attribution in _group_words',
    'C14': 'the corrupted text is one pass over the characters and is not modified afterwards; labels = operations(input, target)',
    'C15': 'lengths in edit_word are measured in Characters only',
    'C17': 'framing by add_prefix_and_suffix agrees with the seeded group counts (R-C01-1 re-evaluated)',
    'C19': 'every occurrence of a pair in a word is counted; training starts from single bytes',
    'C20': 'distances are never truncated to integers',
}
# clauses added after the blind third round
_EXTRA3 = {
    'C01': 'a parsed special token is looked up in the special vocabulary; Vocab::build de-duplicates before numbering (R-C04-3 re-evaluated)',
    'C02': 'the merge-loop rules of C03 (stamps, staleness filter, neighbour searches, re-pushes) re-evaluated',
    'C03': 'no adaptor drops initial candidates between their construction and the heap',
    'C04': 'token_to_id consults the special vocabulary first; the BPE byte branch is decided on one BYTE',
    'C05': 'the panic hook ends the process (R-C09-5 re-evaluated)',
    'C06': 'the order-preserving direct path is selected by !sort && !shuffle alone',
    'C10': 'the grapheme flag reaches CharString::new unchanged; the whitespace predicate is the Unicode one (R-C11-1); CharString::new has two segmentations only',
    'C11': 'CharString::new: graphemes(true) / chars() selected by the flag alone, no narrowing of cluster lengths; grapheme flag unchanged at every site',
    'C12': 'grapheme flag unchanged at every CharString::new; segmentation primitive (R-C11-6)',
    'C13': 'normalised edit distance divides by the Character count (R-C12-1 re-evaluated); grapheme flag unchanged in _group_words',
    'C14': 'dispatcher passes (insert p, delete p, flag) positionally; operations()/repair() count Characters only; segmentation primitive',
    'C15': 'grapheme flag unchanged; segmentation primitive',
    'C16': 'no raw slicing of the text in the window functions; grapheme flag unchanged; segmentation primitive',
    'C17': 'tensorize keeps one row per item; grapheme flag unchanged; segmentation primitive',
    'C18': 'no thread-local / static state in match_words_with and edited_words',
    'C19': 'every Ok(()) of train_bpe is behind merge_ops.save',
}
_EXTRA4 = {
    'C01': 'the special-token matcher sets no match-widening regex option and escapes the tokens (exact, like the lookup); special ids start at 256 for the byte tokenizer (R-C04-2 re-evaluated)',
    'C02': 'the de_tokenize loops leave the id slice early only towards an error',
    'C03': 'merge_bytes merges within whole matches of the splitter: unadapted find_iter, per-word tables from all bytes of the match',
    'C04': 'byte tokenizer: one byte boundary (256) in id_to_token / de_tokenize / get_vocab / vocab_size; no state change inside a debug assertion in src/tokenization.rs',
    'C06': 'the value compared with k in find_subsequences_of_max_size_k is size_fn of one window; the fill loop pulls from the source itself (no look-ahead adaptor over the borrowed source)',
    'C07': 'path table of next() with versioned self.idx: tag equals the index the pull used; mark before all_finished()/next_idx(); None only under all_finished()',
    'C10': 'operations()/repair() segment their arguments themselves (no normalised copy)',
    'C20': 'all constant segmentation flags passed from src/dictionary.rs agree',
}
_EXTRA5 = {
    'C01': 'segmentation primitive and CharString positional accessors (R-C11-6 / R-C16-10 re-evaluated)',
    'C02': 'shared framing, special-token split and exact matcher (R-C01-1, R-C01-3, R-C01-6 re-evaluated)',
    'C05': 'no blocking Drop in the loader (R-C09-6 re-evaluated)',
    'C11': 'Display for Character is verbatim; grapheme segmentation only in src/unicode.rs; CharString positional accessors',
    'C12': 'whitespace predicate (R-C11-1 re-evaluated)',
    'C13': 'constant "nothing to evaluate" flags are judged against the emptiness known at the return; no raw byte indexing with character positions',
    'C14': 'checked subtractions of corrupt_whitespace',
    'C15': 'every provider unwrap runs for a kind code read out of the collection of enabled kinds',
    'C16': 'CharString::byte_start_end / char_byte_len / char_range_to_byte_range / get / sub / chars agree with the stored cluster lengths; grapheme segmentation only in src/unicode.rs',
    'C17': 'weights follow the aggregation of the item they are written for; padded matrices are not rewritten; special-token split (R-C01-3 re-evaluated)',
    'C18': 'an LCS cell written as explicit branches never stores the bare diagonal value',
    'C19': 'counted words are not transformed after counting; replace_pair_in_word copies or merges every symbol (left to right, non-overlapping), replace_pair records (idx, old, new, freq) and updates vocab[idx]',
    'C20': 'the top-k selection compares whole heap entries; edit distance recurrence and divisor (R-C12-1/2 re-evaluated)',
}
_EXTRA6 = {
    'C02': 'train_bpe statistics guards and word rewriting (R-C19-5, R-C19-8 re-evaluated)',
    'C03': 'the merge table is cut by id only (no filter on token bytes)',
    'C04': 'id_to_token returns table bytes without a text round trip; loop-form Vocab::build writes the reverse entry only for new tokens',
    'C05': 'Pipe::new does not loop or wait on worker progress',
    'C06': 'no capacity hint derived from the batch limit',
    'C07': 'generators / lengths / finished are stored per source of the list as given',
    'C08': 'skip, seed, (rank, world_size) and limit.unwrap_or(MAX) are stored as given',
    'C09': 'the consumer is a single blocking receive (R-C05-4 re-evaluated)',
    'C11': 'clean() segments its whole input once',
    'C13': 'every sequence adds an entry to the list whose length is the divisor of the sequence average',
    'C15': 'bounds-checked indexing in corrupt.rs is a WeightedIndex sample or guarded by the length',
    'C17': 'each padded matrix gets the pad value of its own field; utils::accumulate_with is the prefix-sum recurrence the offset assertion is checked against',
    'C18': 'every cell of the LCS table is computed',
    'C19': 'the old-word next pair is skipped between two adjacent occurrences; corpus reader has no truncating adaptor; unicode::normalize always normalises; text::clean and the CharString primitive (R-C11-1/2/6 re-evaluated)',
    'C20': 'unicode::normalize always normalises (identity only under IsNormalized::Yes); text::clean and the CharString primitive (R-C11-1/2/6 re-evaluated); split_words keeps every word and every part',
}
_EXTRA7 = {
    'C01': 'decoding is verbatim (R-C04-11 re-evaluated)',
    'C02': 'decoding is verbatim (R-C04-11 re-evaluated)',
    'C03': 'a found neighbour candidate is pushed with no further test in between; its id is the unfiltered table entry',
    'C04': 'de_tokenize / join_tokens / join_parts apply no text transformation to the decoded text',
    'C07': 'no nth / advance_by override that continues after an inner bulk skip came back empty',
    'C08': 'no nth / advance_by override that continues after an inner bulk skip came back empty',
    'C10': 'every comparison of the two lengths in repair() leads to Err on its mismatch edge',
    'C13': 'the DP recurrence with its whitespace restriction (R-C12-2 re-evaluated)',
    'C14': 'the shared whitespace predicate (R-C11-1 re-evaluated)',
    'C15': 'every return hands back the caller\'s exclusion set; rng-drawing loops have an exit that does not depend on the draw',
    'C16': 'the dispatcher windows() passes the fields of the configuration to char / byte once and returns their result as it is',
    'C17': 'plane 2 of the sparse matrix is a per-item counter (reset per item, + group_len per group)',
    'C19': 'the old-word next pair is skipped only when a full occurrence of the merged pair follows',
    'C20': 'no line is dropped or limited inside the per-file closure before take(max_sequences); the word-part pattern is anchored with \\b on both sides',
}
_EXTRA8 = {
    'C02': 'the word pattern is written with \\s / \\S only',
    'C03': 'the word pattern is written with \\s / \\S only; a sort-then-take cut of the merge table orders by id',
    'C04': 'get_vocab of the byte tokenizer lists every special token',
    'C06': 'a spliced batch range is a candidate of the search or provably non-empty',
    'C07': 'the line reader ends a source at end of file only; no nth override that skips a source by its recorded length',
    'C08': 'the line reader ends a source at end of file only; min_items = min(len, limit) -sat skip',
    'C09': 'a worker pulls one item per lock (no bulk pull)',
    'C10': 'Python encoding of Operation agrees between writer and reader; operations() only appends; byte lengths of the arguments only size buffers',
    'C11': 'clean() and word_boundaries() visit every character and only append; the trailing word is reported unconditionally',
    'C12': 'Python encoding of EditOperation agrees between writer and reader; no narrowing cast in the edit-distance functions',
    'C13': 'all three lists of _correction_f1 have the same length before they are indexed; text::clean (R-C11-1/2 re-evaluated)',
    'C14': 'the task input is tokenized with ignore_special_tokens = true',
    'C16': 'PyWindow copies the window field by field; the window loops return Ok only through their head test',
    'C17': 'matrices have shape (items, max length) / (3, stride); lengths travel with the matrix of the same pad_ids call; Python encodings of GroupAggregation / ByteGroups agree; accumulate_with is the prefix-sum recurrence',
    'C19': 'segmentation flags of train_bpe agree; the reducer receives blocking only; the word pattern is written with \\s / \\S only',
    'C20': 'save() truncates its file; character n-grams are windows over all characters of the word; the reducer receives blocking only; each normal form is computed by its namesake',
}
_EXTRA9 = {
    'C11': 'no ASCII-only whitespace classifier in clean / word_boundaries / remove / full / is_whitespace',
    'C18': 'edited_words reads both word counts on every path from the matching to its return',
    'C19': 'a bulk pull of the counting workers takes at least one line by construction',
    'C20': 'byte lengths of the query / the entries only size buffers in get_closest',
}
for _k, _v in _EXTRA9.items():
    _EXTRA8[_k] = (_EXTRA8[_k] + '; ' + _v) if _k in _EXTRA8 else _v
for _k, _v in _EXTRA8.items():
    _EXTRA7[_k] = (_EXTRA7[_k] + '; ' + _v) if _k in _EXTRA7 else _v
for _k in ['C%02d' % _i for _i in range(1, 21)]:
    _hs = 'no truncating exit from an iterator loop (two reviewed exceptions); no thread_local / interior-mutable static in the files of the property (results are functions of the arguments)'
    _EXTRA7[_k] = (_EXTRA7[_k] + '; ' + _hs) if _k in _EXTRA7 else _hs
for _k, _v in _EXTRA7.items():
    _EXTRA6[_k] = (_EXTRA6[_k] + '; ' + _v) if _k in _EXTRA6 else _v
for _k, _v in _EXTRA6.items():
    _EXTRA5[_k] = (_EXTRA5[_k] + '; ' + _v) if _k in _EXTRA5 else _v
for _k, _v in _EXTRA3.items():
    _EXTRA_DECIDES[_k] = (_EXTRA_DECIDES[_k] + '; ' + _v) if _k in _EXTRA_DECIDES else _v
for _k, _v in _EXTRA5.items():
    _EXTRA4[_k] = (_EXTRA4[_k] + '; ' + _v) if _k in _EXTRA4 else _v
for _k, _v in _EXTRA4.items():
    _EXTRA_DECIDES[_k] = (_EXTRA_DECIDES[_k] + '; ' + _v) if _k in _EXTRA_DECIDES else _v
for _k, _v in _EXTRA_DECIDES.items():
    if _k in INFO and _v not in INFO[_k]['decides']:
        INFO[_k]['decides'] = INFO[_k]['decides'] + '; ' + _v
