"""Per-property texts for the evidence files: what is not decided, what is assumed."""
NOT_DECIDED = {}
ASSUMPTIONS = {}
