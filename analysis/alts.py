"""ALTS normal form: the alternatives a value can take, independent of whether the code spells the choice as a
`match` / `if let` (a multi-definition temporary in MIR) or as an Option/Result combinator
(`unwrap_or_else`, `unwrap_or`, `map`, `ok`, `map_or`, ...).

expand(facts, body, tree)  replaces multi-definition temporaries by ('choice', ((value, variants, atoms), ...)) nodes,
                           evaluated in `body` (conditions = the guards dominating each defining block)
value_alts(facts, body, tree) -> [Alt]   flat list; Alt.value: tree; Alt.variants: [(tree, {names})]; Alt.atoms: [(tree, pol)]
"""
from .sym import sym, core, nosite, simplify, defs_of, symbolizer, variant_facts_at, atoms_at, last_seg, peel

SOME = 'std::option::Option::Some'
NONE = 'std::option::Option::None'
OK = 'std::result::Result::Ok'
ERR = 'std::result::Result::Err'


class Alt:
    def __init__(self, value, variants=(), atoms=()):
        self.value = value
        self.variants = [(t, set(n)) for t, n in variants]
        self.atoms = list(atoms)

    def under(self, tree_pred, name):
        """the alternative is taken only when a value satisfying tree_pred has variant `name`"""
        return any(names == {name} and tree_pred(nosite(t)) for t, names in self.variants)

    def state_of(self, pred):
        """'Some' / 'None' (or a Result / enum variant name) known for the value satisfying pred on this alternative,
        from a `match` arm, an `if let`, or an is_some()/is_none() test"""
        for t, n in self.variants:
            if len(n) == 1 and pred(nosite(t)):
                return list(n)[0]
        for t, pol in self.atoms:
            c = peel(t)
            if c[0] == 'is' and len(c[2]) == 1 and pred(nosite(c[1])) and pol:
                return c[2][0]
            if c[0] == 'call' and c[2] and pred(nosite(c[2][0])):
                n = last_seg(c[1])
                if n in ('is_some', 'is_ok'):
                    return {('is_some', True): 'Some', ('is_some', False): 'None', ('is_ok', True): 'Ok', ('is_ok', False): 'Err'}[(n, pol)]
                if n in ('is_none', 'is_err'):
                    return {('is_none', True): 'None', ('is_none', False): 'Some', ('is_err', True): 'Err', ('is_err', False): 'Ok'}[(n, pol)]
        return None

    def __repr__(self):
        from .sym import show
        return '%s  IF %s %s' % (show(self.value), ['%s is %s' % (show(t), '|'.join(sorted(n))) for t, n in self.variants],
                                 [('' if p else '!') + show(t) for t, p in self.atoms])


def _some(x):
    return ('agg', 'adt', SOME, (x,))


def _none():
    return ('agg', 'adt', NONE, ())


def _conds(body, bb):
    vf = tuple((nosite(a), tuple(sorted(n))) for a, n in variant_facts_at(body, bb))
    at = tuple((nosite(a), pol) for a, pol, g in atoms_at(body, bb) if pol is not None)
    return vf, at


def expand(facts, body, t, depth=0, _stack=()):
    if depth > 8 or not isinstance(t, tuple) or not t:
        return t
    if t[0] in ('phi', 'var') and len(t) >= 2:
        loc = t[1] if t[0] == 'phi' else (t[2] if len(t) > 2 else None)
        if loc is not None and loc not in _stack and isinstance(loc, int):
            whole, partial = defs_of(body, loc)
            if len(whole) >= 2 and not partial and (t[0] == 'phi' or loc not in body._mutborrowed):
                z = symbolizer(body)
                alts = []
                vals = []
                for d in whole:
                    v = simplify(z.rvalue(d.rv, 0, (loc,)) if hasattr(d, 'rv') else z.call(d, 0, (loc,)))
                    vals.append((d, v))
                # a loop-carried variable (an accumulator: some definition mentions the variable itself) is state, not a choice
                from .sym import walk as _walk
                selfref = any(isinstance(x, tuple) and x and ((x[0] == 'phi' and x[1] == loc) or (x[0] == 'var' and len(x) > 2 and x[2] == loc))
                              for d, v in vals for x in _walk(v))
                if selfref:
                    return t
                for d, v in vals:
                    vf, at = _conds(body, d.bb)
                    alts.append((expand(facts, body, nosite(v), depth + 1, _stack + (loc,)), vf, at))
                return ('choice', tuple(alts))
        return t
    if t[0] in ('const', 'arg', 'upvar', 'env', 'item', 'fn', 'uninit'):
        return t
    if t[0] == 'field' and isinstance(t[2], int) and isinstance(t[1], tuple) and t[1] and t[1][0] in ('phi', 'var') and depth < 6:
        # component k of a tuple temporary that is assigned field by field on several branches (`let (a, b) = if c { (x, y) } else { (u, v) }`
        # lowers to `_t.0 = x; _t.1 = y` per branch): the choice among the assignments to that component
        loc = t[1][1] if t[1][0] == 'phi' else (t[1][2] if len(t[1]) > 2 else None)
        if isinstance(loc, int) and loc not in _stack:
            whole, partial = defs_of(body, loc)
            mine = [d for d in partial if hasattr(d, 'lhs') and d.lhs is not None and len(d.lhs.fields()) == 1 and d.lhs.fields()[0][0] == 'f' and d.lhs.fields()[0][1] == t[2]]
            if not whole and len(mine) >= 2 and hasattr(mine[0], 'rv'):
                z = symbolizer(body)
                alts = []
                for d in mine:
                    v = simplify(z.rvalue(d.rv, 0, (loc,)))
                    vf, at = _conds(body, d.bb)
                    alts.append((expand(facts, body, nosite(v), depth + 1, _stack + (loc,)), vf, at))
                return ('choice', tuple(alts))
    if t[0] == 'call' and len(t[2]) == 2 and depth < 6:
        # a local closure called directly (`let f = |n| ..; f(x)`): Fn::call(&closure, (args..)) -> the closure's value
        f, a = peel(t[2][0]), peel(t[2][1])
        if isinstance(f, tuple) and f and f[0] == 'agg' and f[1] == 'closure' and isinstance(a, tuple) and a and a[0] == 'agg' and a[1] == 'tuple' and \
                ('{closure' in t[1] or last_seg(t[1]) in ('call', 'call_mut', 'call_once')):
            from .seq import apply_fn
            r = apply_fn(facts, f, tuple(expand(facts, body, x, depth + 1, _stack) for x in a[3]))
            if not (isinstance(r, tuple) and r and r[0] == 'apply'):
                return r
    return tuple(expand(facts, body, x, depth, _stack) if isinstance(x, tuple) else x for x in t)


def ret_choice(facts, body):
    """the return value of a body as one tree (a 'choice' node when several values are returned)"""
    from .sym import ret_values
    rv = ret_values(body)
    alts = []
    for v, bb in rv:
        vf, at = _conds(body, bb)
        alts.append((expand(facts, body, nosite(v)), vf, at))
    if len(alts) == 1:
        return alts[0][0]
    return ('choice', tuple(alts))


def value_alts(facts, body, tree, depth=0, expanded=False):
    from .seq import apply_fn
    t = tree if expanded else expand(facts, body, nosite(tree))
    if depth > 8 or not isinstance(t, tuple) or not t:
        return [Alt(t)]
    p = peel(t)
    if p[0] == 'choice':
        out = []
        for v, vf, at in p[1]:
            for a in value_alts(facts, body, v, depth + 1, True):
                out.append(Alt(a.value, list(vf) + a.variants, list(at) + a.atoms))
        return out
    if p[0] == 'unwrap':
        return _payload(facts, body, p[1], depth, ('Some', 'Ok'))
    if p[0] == 'call' and p[2]:
        n = last_seg(p[1])
        a = p[2]
        isopt = 'Option' in p[1] or 'Result' in p[1]
        x = a[0]
        nx = nosite(x)
        none = 'None' if 'Option' in p[1] else 'Err'
        some = 'Some' if 'Option' in p[1] else 'Ok'
        if isopt and n == 'unwrap_or_else' and len(a) == 2:
            d = apply_fn(facts, a[1], () if 'Option' in p[1] else (('unwrap_err', x),))
            return _payload(facts, body, x, depth, (some,)) + [Alt(v.value, [(nx, {none})] + v.variants, v.atoms) for v in value_alts(facts, body, d, depth + 1, True)]
        if isopt and n == 'unwrap_or' and len(a) == 2:
            return _payload(facts, body, x, depth, (some,)) + [Alt(a[1], [(nx, {none})])]
        if isopt and n == 'unwrap_or_default' and len(a) == 1:
            return _payload(facts, body, x, depth, (some,)) + [Alt(('default',), [(nx, {none})])]
        if isopt and n == 'map_or' and len(a) == 3:
            return [Alt(apply_fn(facts, a[2], (('unwrap', x),)), [(nx, {some})]), Alt(a[1], [(nx, {none})])]
        if isopt and n == 'map_or_else' and len(a) == 3:
            return [Alt(apply_fn(facts, a[2], (('unwrap', x),)), [(nx, {some})]), Alt(apply_fn(facts, a[1], ()), [(nx, {none})])]
        if isopt and n == 'or_else' and len(a) == 2:
            # x.or_else(f): x itself when it is Some / Ok, otherwise whatever f() gives
            d = apply_fn(facts, a[1], () if 'Option' in p[1] else (('unwrap_err', x),))
            return [Alt(_some(v.value) if 'Option' in p[1] else ('agg', 'adt', OK, (v.value,)), v.variants, v.atoms) for v in _payload(facts, body, x, depth, (some,))] + \
                [Alt(v.value, [(nx, {none})] + v.variants, v.atoms) for v in value_alts(facts, body, d, depth + 1, True)]
        if isopt and n == 'or' and len(a) == 2 and 'Option' in p[1]:
            return [Alt(_some(v.value), v.variants, v.atoms) for v in _payload(facts, body, x, depth, (some,))] + \
                [Alt(v.value, [(nx, {none})] + v.variants, v.atoms) for v in value_alts(facts, body, a[1], depth + 1, True)]
        if n == 'map' and len(a) == 2 and 'Option' in p[1]:
            return [Alt(_some(apply_fn(facts, a[1], (('unwrap', x),))), [(nx, {'Some'})]), Alt(_none(), [(nx, {'None'})])]
        if n == 'ok' and 'Result' in p[1] and len(a) == 1:
            return [Alt(_some(('unwrap', x)), [(nx, {'Ok'})]), Alt(_none(), [(nx, {'Err'})])]
    return [Alt(t)]


def _payload(facts, body, x, depth, somes):
    """alternatives of the payload of Option/Result `x` (only its Some/Ok alternatives)"""
    inner = value_alts(facts, body, x, depth + 1, True)
    nx = nosite(x)
    if len(inner) == 1 and nosite(inner[0].value) == nx:
        return [Alt(('unwrap', x), [(nx, {somes[0]})])]
    out = []
    for a in inner:
        v = peel(a.value)
        if v[0] == 'agg' and v[2] in (SOME, OK):
            out.append(Alt(v[3][0], a.variants, a.atoms))
        elif v[0] == 'agg' and v[2] in (NONE, ERR):
            continue
        else:
            out.append(Alt(('unwrap', a.value), [(nosite(a.value), {somes[0]})] + a.variants, a.atoms))
    return out


def ret_alts_paths(facts, body):
    """alternatives of the return value, one per (defining block, path to it) with the guards of the whole path -- a DNF of the
    conditions under which each value is returned; None when the path enumeration is too large"""
    from .sym import ret_values, path_guards, guard_variants
    out = []
    for v, bb in ret_values(body):
        paths = path_guards(body, bb)
        if paths is None:
            return None
        val = expand(facts, body, nosite(v))
        for gs in paths:
            vf, at = [], []
            for g in gs:
                r = guard_variants(body, g)
                if r is not None:
                    vf.append((nosite(r[0]), tuple(sorted(r[1]))))
                    continue
                t, pol = g.atom()
                if pol is not None:
                    at.append((nosite(t), pol))
            out.append(Alt(val, vf, at))
    return out


def eval_conds(alt, assign):
    """truth of the guard conjunction of `alt` under `assign` = [(tree predicate, variant name)]: True / False / None (unknown atom).
    Understood atoms: `x is V` facts, Eq/Ne(x, unit variant), PartialEq::eq/ne(x, unit variant), is-matches on x."""
    def var_of(t):
        c = core(t)
        for pred, val in assign:
            if pred(c):
                return val
        return None

    def unit(t):
        c = core(t)
        if c[0] == 'agg' and c[1] == 'adt' and not c[3]:
            return c[2].rsplit('::', 1)[-1]
        if c[0] == 'const' and '::' in c[1]:
            return c[1].rsplit('::', 1)[-1].strip('{} ')
        return None
    res = True
    for t, names in alt.variants:
        v = var_of(t)
        if v is None:
            return None
        if v not in names:
            return False
    for t, pol in alt.atoms:
        c = peel(t)
        val = None
        if c[0] == 'bin' and c[1] in ('Eq', 'Ne'):
            for a, b in ((c[2], c[3]), (c[3], c[2])):
                va, ub = var_of(a), unit(b)
                if va is not None and ub is not None:
                    val = (va == ub) if c[1] == 'Eq' else (va != ub)
        elif c[0] == 'call' and len(c[2]) == 2 and last_seg(c[1]) in ('eq', 'ne'):
            for a, b in ((c[2][0], c[2][1]), (c[2][1], c[2][0])):
                va, ub = var_of(a), unit(b)
                if va is not None and ub is not None:
                    val = (va == ub) if last_seg(c[1]) == 'eq' else (va != ub)
        if val is None:
            return None
        if val != pol:
            return False
    return res


def flatten(tree, limit=64):
    """distribute 'choice' nodes nested anywhere in `tree` to the top: [Alt] whose values contain no choice node"""
    def go(t):
        if not isinstance(t, tuple) or not t:
            return [(t, (), ())]
        if t[0] == 'choice':
            out = []
            for v, vf, at in t[1]:
                for vv, vf2, at2 in go(v):
                    out.append((vv, tuple(vf) + vf2, tuple(at) + at2))
            return out[:limit]
        if t[0] in ('const', 'arg', 'upvar', 'env', 'item', 'fn', 'uninit', 'var', 'phi'):
            return [(t, (), ())]
        combos = [((), (), ())]
        for x in t:
            if isinstance(x, tuple):
                nxt = []
                for pre, vf, at in combos:
                    for vv, vf2, at2 in go(x):
                        nxt.append((pre + (vv,), vf + vf2, at + at2))
                        if len(nxt) > limit:
                            break
                combos = nxt[:limit]
            else:
                combos = [(pre + (x,), vf, at) for pre, vf, at in combos]
        return combos
    def proj(t):
        # field of a literal aggregate -> the component
        if not isinstance(t, tuple) or not t:
            return t
        t = tuple(proj(x) if isinstance(x, tuple) else x for x in t)
        if t[0] == 'field' and isinstance(t[2], int):
            a = peel(t[1])
            if isinstance(a, tuple) and a and a[0] == 'agg' and a[1] in ('tuple', 'array') and t[2] < len(a[3]):
                return a[3][t[2]]
        return t
    return [Alt(proj(v), vf, at) for v, vf, at in go(tree)]


def ret_alts(facts, body):
    """flat alternatives of the return value of `body` (multi-definition temporaries expanded, nested choices distributed)"""
    return flatten(ret_choice(facts, body))


def consistent(alt):
    """no two variant facts of the alternative about the same value exclude each other"""
    seen = {}
    for t, n in alt.variants:
        k = repr(nosite(t))
        seen[k] = (seen[k] & set(n)) if k in seen else set(n)
        if not seen[k]:
            return False
    return True


def ret_table(facts, body, scrutinee):
    """{variant name of the value satisfying `scrutinee`: [returned value trees]} over all feasible paths (or-patterns that
    share one arm are resolved per path)"""
    al = ret_alts_paths(facts, body)
    if al is None:
        return None
    out = {}
    for a in al:
        for f in flatten(a.value):
            m = Alt(f.value, list(a.variants) + list(f.variants), list(a.atoms) + list(f.atoms))
            if not consistent(m):
                continue
            names = None
            for t, n in m.variants:
                if scrutinee(core(t)):
                    names = set(n) if names is None else names & set(n)
            if names and len(names) == 1:
                v = nosite(m.value)
                out.setdefault(list(names)[0], [])
                if v not in out[list(names)[0]]:
                    out[list(names)[0]].append(v)
    return out


def ret_variant_alts(facts, body, scrutinee):
    """{variant name of the value satisfying `scrutinee`: [Alt]} -- the consistent alternatives of the returned value on the paths on
    which the scrutinee has that variant (like ret_table, but the atoms are kept so that a two-way choice can be recognised)"""
    al = ret_alts_paths(facts, body)
    if al is None:
        return None
    out = {}
    for a in al:
        for f in flatten(a.value):
            m = Alt(nosite(f.value), list(a.variants) + list(f.variants), list(a.atoms) + list(f.atoms))
            if not consistent(m):
                continue
            names = None
            for t, n in m.variants:
                if scrutinee(core(t)):
                    names = set(n) if names is None else names & set(n)
            if names and len(names) == 1:
                k = list(names)[0]
                at = []
                for t, p in m.atoms:
                    if (nosite(t), p) not in at:
                        at.append((nosite(t), p))
                if any((t, not p) in at for t, p in at):
                    continue   # the same test both ways: not a path
                m.atoms = at
                out.setdefault(k, [])
                if not any(o.value == m.value and sorted(map(repr, o.atoms)) == sorted(map(repr, m.atoms)) for o in out[k]):
                    out[k].append(m)
    return out


def _diff(a, b, path=()):
    """positions at which two trees differ: [(path, subtree of a, subtree of b)] (outermost differing nodes of equal-shaped parents)"""
    if a == b:
        return []
    if isinstance(a, tuple) and isinstance(b, tuple) and len(a) == len(b) and a and b and \
            ((a[0] == b[0] and a[0] in ('agg', 'call', 'bin', 'un', 'cast', 'field')) or (isinstance(a[0], tuple) and isinstance(b[0], tuple))):
        out = []
        for i, (x, y) in enumerate(zip(a, b)):
            if x != y:
                if isinstance(x, tuple) and isinstance(y, tuple):
                    out += _diff(x, y, path + (i,))
                else:
                    return [(path, a, b)]
        return out
    return [(path, a, b)]


def _put(t, path, v):
    if not path:
        return v
    l = list(t)
    l[path[0]] = _put(t[path[0]], path[1:], v)
    return tuple(l)


def merge_minmax(alts):
    """two alternatives that differ in one place, chosen by a comparison of exactly the two candidates (`if a > b { a } else { b }`),
    are one value with `max(a, b)` / `min(a, b)` in that place; returns the merged value tree or None"""
    if len(alts) == 1:
        return alts[0].value
    if len(alts) != 2:
        return None
    x, y = alts
    d = _diff(x.value, y.value)
    if len(d) != 1:
        return None
    path, vx, vy = d[0]
    cx, cy = core(vx), core(vy)
    for t, pol in x.atoms:
        c = core(t)
        if not (c[0] == 'bin' and c[1] in ('Gt', 'Ge', 'Lt', 'Le')) or (t, not pol) not in y.atoms:
            continue
        p, q = core(c[2]), core(c[3])
        if {repr(p), repr(q)} != {repr(cx), repr(cy)} or p == q:
            continue
        greater_first = c[1] in ('Gt', 'Ge')           # the comparison says "p is the larger one" when it holds
        holds_pick = cx                                   # x is the alternative on which the comparison has polarity `pol`
        larger = p if greater_first == pol else q         # which of the two is the larger one on alternative x
        op = 'max' if repr(holds_pick) == repr(larger) else 'min'
        return _put(x.value, path, ('call', 'core::cmp::Ord::' + op, (vy, vx) if op == 'max' else (vx, vy)))
    return None
