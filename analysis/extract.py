"""Fact extraction: runs the rustc_private driver over /repo's current working tree.

The only step that touches /repo. Nothing of the repository is executed: `cargo check`
type-checks and builds MIR; build scripts and proc macros of *dependencies* run as in any
build, the crate under analysis is only compiled to metadata.
"""
import fcntl
import hashlib
import json
import os
import shutil
import subprocess
import time

VERIF = os.path.dirname(os.path.dirname(os.path.abspath(__file__)))
CACHE = os.path.join(VERIF, '.cache')
DRIVER_DIR = os.path.join(VERIF, 'driver')
DRIVER_BIN = os.path.join(DRIVER_DIR, 'target', 'debug', 'tu-facts-driver')
BODY_FLOOR = 1000   # counted on the pinned tree: 1155 bodies


class CompileError(Exception):
    pass


def source_hash(repo):
    h = hashlib.sha256()
    files = []
    for root, dirs, fs in os.walk(os.path.join(repo, 'src')):
        dirs.sort()
        for f in sorted(fs):
            files.append(os.path.join(root, f))
    for f in ('Cargo.toml', 'Cargo.lock'):
        files.append(os.path.join(repo, f))
    for f in files:
        h.update(os.path.relpath(f, repo).encode())
        h.update(b'\0')
        try:
            with open(f, 'rb') as fh:
                h.update(fh.read())
        except OSError:
            h.update(b'<missing>')
        h.update(b'\0')
    # the driver is part of what determines the facts
    with open(os.path.join(DRIVER_DIR, 'src', 'main.rs'), 'rb') as fh:
        h.update(fh.read())
    return h.hexdigest()[:24]


def sysroot():
    return subprocess.check_output(['rustc', '+nightly', '--print', 'sysroot'], text=True).strip()


def build_driver():
    src = os.path.join(DRIVER_DIR, 'src', 'main.rs')
    if os.path.exists(DRIVER_BIN) and os.path.getmtime(DRIVER_BIN) >= os.path.getmtime(src):
        return
    env = dict(os.environ, CARGO_NET_OFFLINE='true')
    r = subprocess.run(['cargo', 'build', '--offline'], cwd=DRIVER_DIR, env=env,
                       stdout=subprocess.PIPE, stderr=subprocess.STDOUT, text=True)
    if r.returncode != 0 or not os.path.exists(DRIVER_BIN):
        raise CompileError('driver build failed:\n' + r.stdout)


def driver_env(out):
    env = dict(os.environ)
    env.update({
        'LD_LIBRARY_PATH': os.path.join(sysroot(), 'lib') + ':' + env.get('LD_LIBRARY_PATH', ''),
        'RUSTFLAGS': '-Zmir-opt-level=0 -Awarnings',
        'RUSTC_WORKSPACE_WRAPPER': DRIVER_BIN,
        'TU_FACTS_OUT': out,
        'CARGO_TARGET_DIR': os.path.join(CACHE, 'target'),
        'CARGO_NET_OFFLINE': 'true',
    })
    env.pop('RUSTC_WRAPPER', None)
    return env


def ensure_facts(repo='/repo'):
    os.makedirs(CACHE, exist_ok=True)
    lock = open(os.path.join(CACHE, 'extract.lock'), 'w')
    fcntl.flock(lock, fcntl.LOCK_EX)
    try:
        sh = source_hash(repo)
        out = os.path.join(CACHE, 'facts-%s.json' % sh)
        if os.path.exists(out) and os.path.getsize(out) > 1000:
            return out, {'cached': True, 'source_hash': sh, 'extract_s': 0.0}
        t0 = time.time()
        build_driver()
        # cargo's freshness cache would skip the wrapper: forget the crate's fingerprints
        fp = os.path.join(CACHE, 'target', 'debug', '.fingerprint')
        if os.path.isdir(fp):
            for d in os.listdir(fp):
                if d.startswith('text-utils-'):
                    shutil.rmtree(os.path.join(fp, d), ignore_errors=True)
        # keep only a few fact files of older source states
        old = sorted((f for f in os.listdir(CACHE) if f.startswith('facts-') and f.endswith('.json')),
                     key=lambda f: os.path.getmtime(os.path.join(CACHE, f)))
        for f in old[:-5]:
            try:
                os.unlink(os.path.join(CACHE, f))
            except OSError:
                pass
        r = subprocess.run(['cargo', '+nightly', 'check', '--offline', '--lib', '--message-format', 'short'],
                           cwd=repo, env=driver_env(out), stdout=subprocess.PIPE, stderr=subprocess.STDOUT, text=True)
        if r.returncode != 0:
            raise CompileError(r.stdout)
        if not os.path.exists(out):
            raise CompileError('driver produced no fact file (cargo skipped the wrapper?)\n' + r.stdout)
        with open(out) as f:
            n = json.load(f)['n_bodies']
        if n < BODY_FLOOR:
            os.unlink(out)
            raise CompileError('fact file has %d bodies, fewer than the floor %d' % (n, BODY_FLOOR))
        if source_hash(repo) != sh:
            os.unlink(out)
            raise CompileError('source changed during extraction')
        return out, {'cached': False, 'source_hash': sh, 'extract_s': round(time.time() - t0, 2), 'n_bodies': n}
    finally:
        fcntl.flock(lock, fcntl.LOCK_UN)
        lock.close()
