"""Tree patterns and method-chain views over analysis.sym trees."""
from .sym import nosite, last_seg, peel, walk, IDENTITY_CALLS

ANY = ('__any__',)


class Cap:
    """capture a sub-tree under a name (same name twice = same tree modulo call sites)"""

    def __init__(self, name, sub=ANY):
        self.name = name
        self.sub = sub


class Call:
    """a call whose resolved (or declared) name ends with `name`; args=None: any arguments"""

    def __init__(self, name, *args, **kw):
        self.name = name
        self.args = args if args or kw.get('exact') else None
        if kw.get('noargs'):
            self.args = ()


class Pred:
    def __init__(self, fn):
        self.fn = fn


class Peel:
    """match the pattern against the tree with casts / identity calls / unwraps stripped from its top"""

    def __init__(self, sub, unwrap=True):
        self.sub = sub
        self.unwrap = unwrap


def Const(v):
    return Pred(lambda t: t[0] == 'const' and t[2] == v)


def match(t, p, env=None):
    if env is None:
        env = {}
    if p is ANY:
        return True
    if isinstance(p, Cap):
        if not match(t, p.sub, env):
            return False
        if p.name in env:
            return nosite(env[p.name]) == nosite(t)
        env[p.name] = t
        return True
    if isinstance(p, Pred):
        try:
            return bool(p.fn(t))
        except (IndexError, TypeError, KeyError, AttributeError):
            return False   # a predicate written for one tree shape met another shape: no match
    if isinstance(p, Peel):
        return match(peel(t, unwrap=p.unwrap), p.sub, env)
    if isinstance(p, Call):
        if not (isinstance(t, tuple) and t and t[0] == 'call'):
            return False
        names = p.name if isinstance(p.name, (list, tuple)) else [p.name]
        if not any(t[1].endswith(n) for n in names):
            return False
        if p.args is None:
            return True
        if len(p.args) != len(t[2]):
            return False
        e = dict(env)
        if all(match(a, q, e) for a, q in zip(t[2], p.args)):
            env.update(e)
            return True
        # max / min are commutative
        if len(p.args) == 2 and (t[1].endswith('::max') or t[1].endswith('::min')):
            e = dict(env)
            if match(t[2][1], p.args[0], e) and match(t[2][0], p.args[1], e):
                env.update(e)
                return True
        return False
    if isinstance(p, tuple):
        if not isinstance(t, tuple) or len(t) < len(p):
            return False
        if p and p[0] == 'call':
            raise ValueError('use Call() for call patterns')
        if len(t) != len(p):
            return False
        if p and p[0] == 'bin' and len(p) == 4 and isinstance(p[1], str) and t[0] == 'bin':
            return _match_bin(t, p, env)
        return all(match(a, q, env) for a, q in zip(t, p))
    return t == p


COMMUTATIVE = {'Add', 'Mul', 'Eq', 'Ne', 'BitAnd', 'BitOr', 'BitXor'}
FLIPPED = {'Lt': 'Gt', 'Gt': 'Lt', 'Le': 'Ge', 'Ge': 'Le'}


def _try(t2, t3, p2, p3, env):
    e = dict(env)
    if match(t2, p2, e) and match(t3, p3, e):
        env.update(e)
        return True
    return False


def _match_bin(t, p, env):
    """binary operator patterns are matched modulo commutativity (a + b = b + a) and comparison flipping (a < b = b > a)"""
    op, top = p[1], t[1]
    if op == top:
        if _try(t[2], t[3], p[2], p[3], env):
            return True
        if op in COMMUTATIVE and _try(t[3], t[2], p[2], p[3], env):
            return True
        return False
    if FLIPPED.get(op) == top:
        return _try(t[3], t[2], p[2], p[3], env)
    return False


def find(t, p):
    """all (subtree, env) matching p inside t"""
    out = []
    for s in walk(t):
        env = {}
        if match(s, p, env):
            out.append((s, env))
    return out


def has(t, p):
    return bool(find(t, p))


# ---------------------------------------------------------------------------
# method chains

TRANSPARENT = set(IDENTITY_CALLS) | {'from', 'try_from', 'unwrap', 'expect', 'ok', 'branch'}


def chain(t):
    """Flatten receiver-nested calls: returns (source_tree, [(name, full_name, other_args, call_tree), ...]) from the
    innermost receiver outwards. ('unwrap', x) nodes appear as steps named 'unwrap'."""
    steps = []
    cur = t
    while True:
        if isinstance(cur, tuple) and cur and cur[0] == 'call' and cur[2]:
            steps.append((last_seg(cur[1]), cur[1], cur[2][1:], cur))
            cur = cur[2][0]
            continue
        if isinstance(cur, tuple) and cur and cur[0] == 'unwrap':
            steps.append(('unwrap', 'unwrap', (), cur))
            cur = cur[1]
            continue
        if isinstance(cur, tuple) and cur and cur[0] == 'cast':
            cur = cur[1]
            continue
        break
    steps.reverse()
    return cur, steps


def chain_names(t, keep_transparent=False):
    src, steps = chain(t)
    return src, [s[0] for s in steps if keep_transparent or s[0] not in TRANSPARENT]


def step(t, name):
    """first step of the chain with this last segment: (other_args, call_tree) or None"""
    _, steps = chain(t)
    for s in steps:
        if s[0] == name:
            return s[2], s[3]
    return None


NEGATED = {'Eq': 'Ne', 'Ne': 'Eq', 'Lt': 'Ge', 'Ge': 'Lt', 'Gt': 'Le', 'Le': 'Gt'}


def holds(body, blk, pattern, negate=False):
    """Is the condition `pattern` (a pattern over core trees) known to hold at block `blk`, i.e. implied by a guard whose
    edge dominates the block? Comparison patterns also match the negated guard: `!(a < b)` proves `a >= b`; commutativity
    and operand flipping are handled by match()."""
    from .sym import atoms_at, core
    want = not negate
    for t, pol, g in atoms_at(body, blk):
        if pol is None:
            # a `match x { K => .., _ => .. }` arm states x == K (or x != K on the default arm)
            if isinstance(pattern, tuple) and len(pattern) == 4 and pattern[0] == 'bin' and pattern[1] in ('Eq', 'Ne') and t[0] != 'discr':
                c = core(t)
                for x, k in ((pattern[2], pattern[3]), (pattern[3], pattern[2])):
                    if not match(c, x):
                        continue
                    isk = lambda v: match(('const', str(v), v), k)
                    eq = g.values is not None and len(g.values) == 1 and all(isk(v) for v in g.values)
                    ne = g.excluded is not None and any(isk(v) for v in g.excluded)
                    if ((pattern[1] == 'Eq') == want and eq) or ((pattern[1] == 'Ne') == want and ne):
                        return True
            continue
        c = core(t)
        # for unsigned values `x == 0` is also written `x < 1` / `x <= 0` (and `x != 0` as `x >= 1` / `x > 0`)
        if isinstance(pattern, tuple) and len(pattern) == 4 and pattern[0] == 'bin' and pattern[1] in ('Eq', 'Ne') and c[0] == 'bin' and c[1] in ('Lt', 'Le', 'Ge', 'Gt'):
            zero = match(('const', '0', 0), pattern[3])
            if zero and match(c[2], pattern[2]) and c[3][0] == 'const' and len(c[3]) > 2:
                k = c[3][2]
                is_zero = (c[1] == 'Lt' and k == 1) or (c[1] == 'Le' and k == 0)
                non_zero = (c[1] == 'Ge' and k == 1) or (c[1] == 'Gt' and k == 0)
                if is_zero or non_zero:
                    states_zero = is_zero if pol else non_zero
                    states_nonzero = non_zero if pol else is_zero
                    if (pattern[1] == 'Eq') == want and states_zero:
                        return True
                    if (pattern[1] == 'Ne') == want and states_nonzero:
                        return True
        if pol is want and match(c, pattern):
            return True
        if isinstance(pattern, tuple) and pattern and pattern[0] == 'bin' and pattern[1] in NEGATED and c[0] == 'bin':
            neg = ('bin', NEGATED[pattern[1]], pattern[2], pattern[3])
            if pol is (not want) and match(c, neg):
                return True
    return False
