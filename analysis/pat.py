"""Tree patterns and method-chain views over analysis.sym trees."""
from .sym import nosite, last_seg, peel, walk, IDENTITY_CALLS

ANY = ('__any__',)


class Cap:
    """capture a sub-tree under a name (same name twice = same tree modulo call sites)"""

    def __init__(self, name, sub=ANY):
        self.name = name
        self.sub = sub


class Call:
    """a call whose resolved (or declared) name ends with `name`; args=None: any arguments"""

    def __init__(self, name, *args, **kw):
        self.name = name
        self.args = args if args or kw.get('exact') else None
        if kw.get('noargs'):
            self.args = ()


class Pred:
    def __init__(self, fn):
        self.fn = fn


class Peel:
    """match the pattern against the tree with casts / identity calls / unwraps stripped from its top"""

    def __init__(self, sub, unwrap=True):
        self.sub = sub
        self.unwrap = unwrap


def Const(v):
    return Pred(lambda t: t[0] == 'const' and t[2] == v)


def match(t, p, env=None):
    if env is None:
        env = {}
    if p is ANY:
        return True
    if isinstance(p, Cap):
        if not match(t, p.sub, env):
            return False
        if p.name in env:
            return nosite(env[p.name]) == nosite(t)
        env[p.name] = t
        return True
    if isinstance(p, Pred):
        return bool(p.fn(t))
    if isinstance(p, Peel):
        return match(peel(t, unwrap=p.unwrap), p.sub, env)
    if isinstance(p, Call):
        if not (isinstance(t, tuple) and t and t[0] == 'call'):
            return False
        names = p.name if isinstance(p.name, (list, tuple)) else [p.name]
        if not any(t[1].endswith(n) for n in names):
            return False
        if p.args is None:
            return True
        if len(p.args) != len(t[2]):
            return False
        return all(match(a, q, env) for a, q in zip(t[2], p.args))
    if isinstance(p, tuple):
        if not isinstance(t, tuple) or len(t) < len(p):
            return False
        if p and p[0] == 'call':
            raise ValueError('use Call() for call patterns')
        if len(t) != len(p):
            return False
        return all(match(a, q, env) for a, q in zip(t, p))
    return t == p


def find(t, p):
    """all (subtree, env) matching p inside t"""
    out = []
    for s in walk(t):
        env = {}
        if match(s, p, env):
            out.append((s, env))
    return out


def has(t, p):
    return bool(find(t, p))


# ---------------------------------------------------------------------------
# method chains

TRANSPARENT = set(IDENTITY_CALLS) | {'from', 'try_from', 'unwrap', 'expect', 'ok', 'branch'}


def chain(t):
    """Flatten receiver-nested calls: returns (source_tree, [(name, full_name, other_args, call_tree), ...]) from the
    innermost receiver outwards. ('unwrap', x) nodes appear as steps named 'unwrap'."""
    steps = []
    cur = t
    while True:
        if isinstance(cur, tuple) and cur and cur[0] == 'call' and cur[2]:
            steps.append((last_seg(cur[1]), cur[1], cur[2][1:], cur))
            cur = cur[2][0]
            continue
        if isinstance(cur, tuple) and cur and cur[0] == 'unwrap':
            steps.append(('unwrap', 'unwrap', (), cur))
            cur = cur[1]
            continue
        if isinstance(cur, tuple) and cur and cur[0] == 'cast':
            cur = cur[1]
            continue
        break
    steps.reverse()
    return cur, steps


def chain_names(t, keep_transparent=False):
    src, steps = chain(t)
    return src, [s[0] for s in steps if keep_transparent or s[0] not in TRANSPARENT]


def step(t, name):
    """first step of the chain with this last segment: (other_args, call_tree) or None"""
    _, steps = chain(t)
    for s in steps:
        if s[0] == name:
            return s[2], s[3]
    return None
