"""T7 HASH-ORDER: iteration over a HashMap/HashSet must reach only order-insensitive consumers.

For every call whose receiver chain starts at a hash-ordered source we classify the *terminal* consumer:
  insensitive  collect into Hash*/BTree*, count, integer sum, all/any, extend of a map/set, for-loop whose body
               only inserts into maps/sets or accumulates with +=, sorted*/sort* with a key that covers the entry key
  SENSITIVE    collect::<Vec|String>, join, next/find/position/last/nth, max_by*/min_by*, for-loop that pushes
               to a Vec/String/writer, fold, sorted_by_key on a non-key (stable sort leaks hash order on ties)
  unclassified anything else (reported in the evidence, no alarm)
"""
import re
from . import cfg
from .facts import norm_path
from .sym import sym, show_in, nosite, core, walk, ret_values, init_value, loop_source, last_seg
from .pat import chain

HASH_SRC = re.compile(r'(hash_map|hash_set|HashMap|HashSet)')
SRC_METHODS = ('iter', 'iter_mut', 'keys', 'values', 'values_mut', 'into_iter', 'into_keys', 'into_values', 'drain',
               'difference', 'intersection', 'union', 'symmetric_difference')
SANITIZERS = ('sorted', 'sorted_unstable', 'sorted_by', 'sorted_by_key', 'sorted_unstable_by', 'sorted_unstable_by_key',
              'sorted_by_cached_key')
INSENSITIVE = ('count', 'all', 'any', 'len', 'is_empty', 'contains', 'contains_key', 'size_hint')
SENSITIVE = ('join', 'next', 'find', 'find_map', 'position', 'last', 'nth', 'max_by_key', 'min_by_key', 'max_by', 'min_by',
             'fold', 'reduce', 'try_fold', 'for_each', 'collect_vec', 'format', 'concat', 'last_mut', 'rev')


def _is_hash_source(step, body):
    name, full, args, tree = step
    if name not in SRC_METHODS:
        return False
    if HASH_SRC.search(full):
        return True
    return False


class Finding:
    def __init__(self, body, term, kind, why, source_tree, consumer):
        self.body = body
        self.term = term
        self.kind = kind
        self.why = why
        self.source_tree = source_tree
        self.consumer = consumer


def _key_covering(facts, clo_tree, over_keys_only):
    """sorted_by_key closure: does the key read the entry key (component 0 of (k, v)) or the whole item?"""
    if not (isinstance(clo_tree, tuple) and clo_tree and clo_tree[0] == 'agg' and clo_tree[1] == 'closure'):
        return False
    l = facts.by_path.get(clo_tree[2], [])
    if len(l) != 1:
        return False
    clo = l[0]
    rv = ret_values(clo)
    if not rv:
        return False
    for v, bb in rv:
        c = core(v)
        ok = False
        for s in walk(c):
            if not isinstance(s, tuple) or not s:
                continue
            if s[0] == 'arg' and s[1] == 2 and over_keys_only:
                ok = True
            # whole argument used (e.g. `|x| x`) or its key component
            if s[0] == 'field' and s[2] == 0 and s[1][0] == 'arg' and s[1][1] == 2:
                ok = True
        if c[0] == 'arg' and c[1] == 2:
            ok = True
        if not ok:
            return False
    return True


def _cmp_total(facts, clo_tree):
    """sorted_by comparator: accepted when it compares the whole items (a.cmp(b)) somewhere (tie-break by key)"""
    if not (isinstance(clo_tree, tuple) and clo_tree and clo_tree[0] == 'agg' and clo_tree[1] == 'closure'):
        return False
    l = facts.by_path.get(clo_tree[2], [])
    if len(l) != 1:
        return False
    bodies = [l[0]] + [b for b in facts.bodies if b.kind == 'Closure' and b.parent == l[0].path]
    for b in bodies:
        for t in b.calls(r'cmp::Ord::cmp$|::cmp$|partial_cmp$'):
            a = [core(sym(b, x)) for x in t.args]
            flat = [x for x in a if x[0] in ('arg', 'upvar') or (x[0] == 'field' and x[2] == 0 and x[1][0] in ('arg', 'upvar'))]
            if len(flat) == 2:
                return True
    return False


HASH_ITER_TY = re.compile(r'std::collections::hash_map::(Iter|IterMut|IntoIter|Keys|Values|ValuesMut|Drain|IntoKeys|IntoValues)\b|'
                          r'std::collections::hash_set::(Iter|IntoIter|Difference|Intersection|Union|SymmetricDifference|Drain)\b')
KEYS_ONLY_TY = re.compile(r'hash_map::(Keys|IntoKeys)\b|hash_set::')


def _vec_sorted_later(facts, b, t, over_keys, name=None):
    """collect() into a named Vec (or extend of the named Vec `name`) that is then sorted in place by a key covering the entry key"""
    if name is None:
        if t.dest is None or t.dest.proj:
            return None
        name = b.var_name(t.dest.local)
    if not name:
        return None
    for u in b.calls(r'slice::sort(_unstable)?(_by|_by_key|_by_cached_key)?$'):
        r = core(sym(b, u.args[0]))
        if r[0] == 'var' and r[1] == name and cfg.dominates(b, t.bb, u.bb):
            ls = last_seg(u.callee_res())
            if ls in ('sort', 'sort_unstable'):
                return True
            if ls.endswith('by_key') or ls.endswith('cached_key'):
                # a key that does not cover the entry key is the in-place form of `.sorted_by_key(non-key)`
                return _key_covering(facts, sym(b, u.args[1]), over_keys) or 'by-non-key'
            return _cmp_total(facts, sym(b, u.args[1]))
    return None


def _loop_sinks(b, loop, t):
    """calls inside `loop` that append to an ordered sink (so the order in which the loop visits its elements is observable)"""
    sens = []
    for u in b.terms('call'):
        if u.bb not in loop.blocks or u is t:
            continue
        un = u.callee_res() or ''
        if re.search(r'Vec::push$|Vec::extend|String::push|String::push_str$|Write::write|write_fmt$|VecDeque::push|Vec::insert$', un):
            # a push into a per-key bucket (`map.entry(k).or_default().push(v)`) is ordered by the outer
            # iteration, not by the hash order
            rt = sym(b, u.args[0]) if u.args else ()
            keyed = any(isinstance(x, tuple) and x and x[0] == 'call' and
                        re.search(r'Entry.*::(or_default|or_insert|or_insert_with)$|HashMap::get_mut$|BTreeMap::get_mut$', x[1])
                        for x in walk(rt))
            if not keyed:
                sens.append(u)
    return sens


def _vec_only_drives_set_updates(b, t):
    """collect() into a named Vec whose only use is a `for` loop that updates maps / sets / accumulators (`for k in &dropped {
    map.remove(k); }`): the order of the Vec is not observable. True / False"""
    if t.dest is None or t.dest.proj:
        return False
    l = t.dest.local
    if not b.var_name(l):
        return False
    loops_ok = 0
    for u in b.terms('call'):
        if u is t or u.bb not in b.reachable:
            continue
        # the Vec shows up as its name or, when the symbolizer sees through the single definition, as the collect call of this site
        hit = [a for a in u.args if any(isinstance(x, tuple) and x and ((x[0] == 'var' and len(x) > 2 and x[2] == l) or
                                                                         (x[0] == 'call' and len(x) > 3 and x[3] == t.bb and x[1] == t.callee_res()))
                                        for y in (sym(b, a), init_value(b, sym(b, a))) for x in walk(y))]
        if not hit:
            continue
        n = last_seg(u.callee_res() or '')
        if n in ('len', 'is_empty', 'deref', 'iter', 'into_iter', 'as_slice'):
            continue
        if re.search(r'(HashMap|HashSet|BTreeMap|BTreeSet)::(remove|contains|contains_key|get)$', u.callee_res() or '') and \
                cfg.innermost_loop(b, u.bb) is not None:
            continue     # an element handed to a map / set operation inside the loop (checked with the loop below)
        if n == 'next':
            lp = cfg.innermost_loop(b, u.bb)
            if lp is None or _loop_sinks(b, lp, u):
                return False
            # inside the loop the element may only be handed to map / set operations
            for w in b.terms('call'):
                if w.bb in lp.blocks and w is not u:
                    wn = w.callee_res() or ''
                    # removals and look-ups only: `remove(k); insert(k - 1)` on the set the keys came from collides differently for different orders
                    if not re.search(r'(HashMap|HashSet|BTreeMap|BTreeSet)::(remove|contains|contains_key|get)$|::next$|::deref$|::clone$|mem::drop$|drop_in_place', wn):
                        return False
            loops_ok += 1
            continue
        return False
    return loops_ok >= 1


def scan(facts, bodies):
    """returns (findings, n_boundaries): one finding per call that consumes a hash-ordered iterator
    (an argument whose type contains a HashMap/HashSet iterator) and produces something that is not one."""
    findings = []
    seen = set()
    for b in bodies:
        for t in b.terms('call'):
            if not t.args:
                continue
            hargs = [a for a in t.args if a.place is not None and HASH_ITER_TY.search(b.local_ty(a.place.local))]
            if not hargs:
                continue
            dty = b.local_ty(t.dest.local) if t.dest is not None else ''
            if HASH_ITER_TY.search(dty):
                continue  # adaptor: still hash ordered, judged at its consumer
            name = t.callee_res() or ''
            ls = last_seg(name)
            aty = b.local_ty(hargs[0].place.local)
            over_keys = bool(KEYS_ONLY_TY.search(aty))
            tree = init_value(b, sym(b, hargs[0]))
            src_show = show_in(b, tree)
            key = (b.path, t.span['line'], ls)
            if key in seen:
                continue
            seen.add(key)

            def add(kind, why):
                findings.append(Finding(b, t, kind, why, src_show, ls))

            if ls in SANITIZERS:
                if ls in ('sorted', 'sorted_unstable'):
                    ok = True
                elif ls.endswith('by_key') or ls.endswith('cached_key'):
                    ok = _key_covering(facts, sym(b, t.args[1]), over_keys)
                else:
                    ok = _cmp_total(facts, sym(b, t.args[1]))
                if ok:
                    add('sanitized', 'sorted with a key covering the entry key')
                else:
                    add('SENSITIVE', 'stable sort `%s` by something that does not cover the entry key: entries with equal '
                        'sort keys keep their hash order' % ls)
                continue
            if ls in ('collect', 'from_iter'):
                if re.search(r'^(std::result::Result<|std::option::Option<)?std::collections::(HashMap|HashSet|BTreeMap|BTreeSet|hash_map|hash_set)', dty):
                    add('insensitive', 'collected into %s' % dty.split('<')[0])
                else:
                    later = _vec_sorted_later(facts, b, t, over_keys)
                    if later == 'by-non-key':
                        findings.append(Finding(b, t, 'SENSITIVE', 'collected into a Vec that is then stably sorted by something that does not cover the entry '
                                                'key: entries with equal sort keys keep their hash order', src_show, 'sorted_by_key'))
                    elif later:
                        add('sanitized', 'collected into a Vec that is sorted by the entry key before use')
                    elif _vec_only_drives_set_updates(b, t):
                        add('insensitive', 'collected into a Vec that only drives a loop of map / set updates')
                    else:
                        add('SENSITIVE', 'collected into the ordered container %s' % dty[:60])
                continue
            if ls in ('sum', 'product'):
                if re.match(r'^(u|i)(8|16|32|64|128|size)$', dty):
                    add('insensitive', 'integer %s' % ls)
                else:
                    add('SENSITIVE', 'floating point %s depends on the order of the summands' % ls)
                continue
            if ls in ('max', 'min'):
                add('insensitive', '%s of the values' % ls)
                continue
            if ls in INSENSITIVE:
                add('insensitive', ls)
                continue
            if ls == 'extend' or ls == 'extend_from_slice':
                rty = b.local_ty(t.args[0].place.local) if t.args[0].place is not None else ''
                if re.search(r'HashMap|HashSet|BTreeMap|BTreeSet', rty):
                    add('insensitive', 'extends a map/set')
                else:
                    rv = core(sym(b, t.args[0]))
                    later = _vec_sorted_later(facts, b, t, over_keys, rv[1] if rv[0] == 'var' and len(rv) > 2 else '') if rv[0] == 'var' else None
                    if later and later != 'by-non-key':
                        add('sanitized', 'extends a Vec that is sorted by the entry key before use')
                    else:
                        add('SENSITIVE', 'extends the ordered container %s in hash order' % rty[:60])
                continue
            if ls == 'next':
                loop = cfg.innermost_loop(b, t.bb)
                if loop is None:
                    add('SENSITIVE', 'takes the first element in hash order')
                    continue
                sens = _loop_sinks(b, loop, t)
                if sens:
                    add('SENSITIVE', 'for-loop over hash order appends to an ordered sink (`%s`, line %d)' % (
                        last_seg(sens[0].callee_res()), sens[0].span['line']))
                else:
                    add('insensitive', 'for-loop body only updates maps / accumulators')
                continue
            if ls in SENSITIVE:
                add('SENSITIVE', '`%s` depends on the iteration order' % ls)
                continue
            add('unclassified', ls)
    return findings, len(seen)
