"""Facts model: the MIR of crate text_utils as dumped by /verif/driver.

Everything here is a pure function of the JSON fact file; nothing of /repo is
executed. Blocks flagged `cleanup` (unwind paths) are kept but excluded from
the control-flow graph used by the rules.
"""
import json
import re
from functools import lru_cache


def norm_path(s):
    """Strip generic arguments from a def path, keeping qualified-self syntax:
    `std::vec::Vec::<T, A>::len` -> `std::vec::Vec::len`,
    `<std::vec::Vec<T, A> as std::ops::Index<I>>::index` -> `<std::vec::Vec as std::ops::Index>::index`."""
    out = []
    i = 0
    n = len(s)

    def skip(i):
        # s[i] == '<': return index after the matching '>'
        d = 0
        while i < n:
            c = s[i]
            if c == '<':
                d += 1
            elif c == '>' and s[i - 1] != '-':
                d -= 1
                if d == 0:
                    return i + 1
            i += 1
        return n

    while i < n:
        c = s[i]
        if c == '<':
            prev = s[i - 1] if i > 0 else ''
            if prev.isalnum() or prev == '_':
                i = skip(i)
                continue
            if i >= 2 and s[i - 2:i] == '::':
                # `::<..>` turbofish or `::<impl ..>` segment
                j = skip(i)
                # drop the '::' we already emitted
                if out and out[-1] == ':' and len(out) > 1 and out[-2] == ':':
                    out.pop()
                    out.pop()
                i = j
                continue
            # qualified self: keep the bracket, normalise inside
            j = skip(i)
            inner = s[i + 1:j - 1]
            out.append('<' + norm_path(inner) + '>')
            i = j
            continue
        out.append(c)
        i += 1
    return ''.join(out)


class Place:
    __slots__ = ('local', 'proj')

    def __init__(self, j):
        self.local = j['l']
        self.proj = j['p']

    def is_local(self):
        return not self.proj

    def key(self):
        return (self.local, json.dumps(self.proj, sort_keys=True))

    def fields(self):
        """projection as a tuple of simple tokens: '*', ('f', i), ('idx', l), ('dc', v)"""
        out = []
        for p in self.proj:
            if p == '*':
                out.append('*')
            elif 'f' in p:
                out.append(('f', p['f'], p.get('n', '')))
            elif 'idx' in p:
                out.append(('idx', p['idx']))
            elif 'dc' in p:
                out.append(('dc', p['dc'], p.get('n', '')))
            elif 'cidx' in p:
                out.append(('cidx', p['cidx'], p.get('from_end', False)))
            else:
                out.append(('other', json.dumps(p, sort_keys=True)))
        return tuple(out)

    def __repr__(self):
        s = '_%d' % self.local
        for p in self.fields():
            if p == '*':
                s = '(*%s)' % s
            elif p[0] == 'f':
                s = '%s.%s' % (s, p[2] if p[2] else p[1])
            elif p[0] == 'idx':
                s = '%s[_%d]' % (s, p[1])
            elif p[0] == 'dc':
                s = '(%s as %s)' % (s, p[2] or p[1])
            elif p[0] == 'cidx':
                s = '%s[%s%d]' % (s, '-' if p[2] else '', p[1])
            else:
                s = '%s.?' % s
        return s


class Operand:
    __slots__ = ('kind', 'place', 'const', 'raw')

    def __init__(self, j):
        self.raw = j
        self.kind = j['k']
        self.place = Place(j['pl']) if 'pl' in j else None
        self.const = j.get('c')

    def is_const(self):
        return self.kind == 'const'

    def int_value(self):
        if self.const is not None and 'int' in self.const:
            return int(self.const['int'])
        return None

    def const_disp(self):
        return self.const['disp'] if self.const is not None else None

    def str_value(self):
        """string literal value if the constant is a &str literal"""
        if self.const is None:
            return None
        d = self.const['disp']
        m = re.match(r'^const "(.*)"$', d, re.S)
        if m and self.const['ty'].startswith('&') and 'str' in self.const['ty']:
            return m.group(1)
        return None

    def float_value(self):
        if self.const is None:
            return None
        m = re.match(r'^const (-?[0-9.eE+-]+)f(32|64)$', self.const['disp'])
        if m:
            try:
                return float(m.group(1))
            except ValueError:
                return None
        return None

    def fn_name(self):
        if self.const is not None and 'fn' in self.const:
            return self.const['fn']
        return None

    def __repr__(self):
        if self.kind == 'const':
            if 'fn' in self.const:
                return 'fn:' + self.const['fn']
            return self.const['disp']
        if self.place is not None:
            return ('move ' if self.kind == 'move' else '') + repr(self.place)
        return '?' + self.raw.get('dbg', '')


class Rvalue:
    __slots__ = ('kind', 'raw', 'ops', 'place', 'op', 'ty', 'agg')

    def __init__(self, j):
        self.raw = j
        self.kind = j['k']
        self.place = Place(j['pl']) if 'pl' in j else None
        self.ops = []
        self.op = j.get('op') if isinstance(j.get('op'), str) else None
        self.ty = j.get('ty')
        self.agg = j.get('agg')
        if self.kind in ('use', 'repeat', 'cast'):
            self.ops = [Operand(j['op'])]
        elif self.kind == 'binop':
            self.ops = [Operand(j['a']), Operand(j['b'])]
        elif self.kind == 'unop':
            self.ops = [Operand(j['a'])]
        elif self.kind == 'agg':
            self.ops = [Operand(o) for o in j['ops']]

    def __repr__(self):
        k = self.kind
        if k == 'use':
            return repr(self.ops[0])
        if k == 'ref':
            return ('&mut ' if self.raw['mut'] else '&') + repr(self.place)
        if k == 'rawptr':
            return '&raw ' + repr(self.place)
        if k == 'cast':
            return '%r as %s (%s)' % (self.ops[0], self.ty, self.raw['kind'])
        if k == 'binop':
            return '%s(%r, %r)' % (self.op, self.ops[0], self.ops[1])
        if k == 'unop':
            return '%s(%r)' % (self.op, self.ops[0])
        if k == 'discr':
            return 'discriminant(%r)' % self.place
        if k == 'agg':
            a = self.agg
            if a == 'adt':
                return '%s::%s{%s}' % (self.raw['adt'], self.raw['vname'], ', '.join(map(repr, self.ops)))
            if a == 'closure':
                return 'closure %s [%s]' % (self.raw['def'], ', '.join(map(repr, self.ops)))
            return '%s(%s)' % (a, ', '.join(map(repr, self.ops)))
        if k == 'copy_for_deref':
            return 'deref_copy ' + repr(self.place)
        if k == 'repeat':
            return '[%r; %s]' % (self.ops[0], self.raw['n'])
        return k


class Stmt:
    __slots__ = ('kind', 'lhs', 'rv', 'span', 'raw', 'bb', 'idx')

    def __init__(self, j, bb, idx):
        self.raw = j
        self.kind = j['k']
        self.bb = bb
        self.idx = idx
        self.span = j['span']
        self.lhs = Place(j['lhs']) if 'lhs' in j else None
        self.rv = Rvalue(j['rv']) if 'rv' in j else None

    def __repr__(self):
        if self.kind == 'assign':
            return '%r = %r' % (self.lhs, self.rv)
        if self.kind == 'setdiscr':
            return 'discriminant(%r) = %d' % (self.lhs, self.raw['variant'])
        return self.kind


class Term:
    __slots__ = ('kind', 'raw', 'span', 'bb', 'func', 'args', 'dest', 'target', 'discr',
                 'arms', 'otherwise', 'place', 'cond', 'msg', 'fn_span')

    def __init__(self, j, bb):
        self.raw = j
        self.kind = j['k']
        self.bb = bb
        self.span = j['span']
        self.func = Operand(j['func']) if 'func' in j else None
        self.args = [Operand(a) for a in j.get('args', [])]
        self.dest = Place(j['dest']) if 'dest' in j else None
        self.target = j.get('target')
        self.discr = Operand(j['discr']) if 'discr' in j else None
        self.arms = [(int(v), t) for v, t in j.get('arms', [])]
        self.otherwise = j.get('otherwise')
        self.place = Place(j['pl']) if 'pl' in j else None
        self.cond = Operand(j['cond']) if 'cond' in j else None
        self.msg = j.get('msg')
        self.fn_span = j.get('fn_span')

    # ---- callee naming -------------------------------------------------
    def callee(self):
        """declared callee path (trait method path for trait calls), generics stripped"""
        if self.func is None or self.func.const is None or 'fn' not in self.func.const:
            return None
        return norm_path(self.func.const['fn'])

    def callee_res(self):
        """resolved callee (impl method) if resolution succeeded, else declared"""
        c = self.func.const if self.func is not None else None
        if c is None or 'fn' not in c:
            return None
        return norm_path(c.get('res', c['fn']))

    def callee_full(self):
        c = self.func.const if self.func is not None else None
        if c is None or 'fn' not in c:
            return None
        return c.get('res_full', c.get('fn_full'))

    def callee_names(self):
        c = self.func.const if self.func is not None else None
        if c is None or 'fn' not in c:
            return ()
        return tuple(norm_path(x) for x in (c.get('fn'), c.get('res')) if x)

    def gargs(self):
        c = self.func.const if self.func is not None else None
        if c is None:
            return []
        return c.get('gargs', [])

    def successors(self):
        k = self.kind
        if k == 'goto':
            return [self.raw['target']]
        if k == 'switch':
            return [t for _, t in self.arms] + [self.otherwise]
        if k in ('drop', 'assert'):
            return [self.raw['target']]
        if k == 'call':
            return [self.target] if self.target is not None else []
        return []

    def __repr__(self):
        k = self.kind
        if k == 'call':
            return '%r = %s(%s) -> %s' % (self.dest, self.callee_res() or repr(self.func),
                                          ', '.join(map(repr, self.args)), self.target)
        if k == 'switch':
            return 'switch(%r) [%s, otherwise->%s]' % (
                self.discr, ', '.join('%d->%d' % a for a in self.arms), self.otherwise)
        if k == 'goto':
            return 'goto %d' % self.raw['target']
        if k == 'drop':
            return 'drop(%r: %s) -> %d' % (self.place, self.raw['ty'], self.raw['target'])
        if k == 'assert':
            return 'assert(%r == %s, %s) -> %d' % (self.cond, self.raw['expected'], self.msg['k'] +
                                                   (':' + self.msg.get('op', '') if 'op' in self.msg else ''),
                                                   self.raw['target'])
        return k


class Block:
    __slots__ = ('idx', 'cleanup', 'stmts', 'term')

    def __init__(self, j, idx):
        self.idx = idx
        self.cleanup = j['cleanup']
        self.stmts = [Stmt(s, idx, i) for i, s in enumerate(j['stmts'])]
        self.term = Term(j['term'], idx)


DIVERGING = re.compile(
    r'^(core::panicking::|std::rt::begin_panic|std::process::exit|std::process::abort|'
    r'core::option::unwrap_failed|core::option::expect_failed|core::result::unwrap_failed|'
    r'core::slice::index::slice_|core::str::slice_error_fail|alloc::raw_vec::handle_error|'
    r'alloc::alloc::handle_alloc_error|std::panicking::begin_panic)')


class Body:
    def __init__(self, j, facts):
        self.raw = j
        self.facts = facts
        self.path = j['path']
        self.kind = j['kind']
        self.span = j['span']
        self.root = j.get('root', self.path)
        self.parent = j.get('parent')
        self.preds_decl = j.get('preds', [])
        self.arg_count = j['arg_count']
        self.locals = j['locals']
        self.blocks = [Block(b, i) for i, b in enumerate(j['blocks'])]
        self.vars = j['vars']
        self.impl_self = j.get('impl_self')
        self.impl_trait = j.get('impl_trait')
        self._cfg()

    # ---- CFG ------------------------------------------------------------
    def _cfg(self):
        n = len(self.blocks)
        self.succ = [[] for _ in range(n)]
        self.pred = [[] for _ in range(n)]
        for b in self.blocks:
            if b.cleanup:
                continue
            t = b.term
            ss = t.successors()
            if t.kind == 'call':
                c = t.callee_res()
                if c and DIVERGING.match(c):
                    ss = []
            seen = []
            for s in ss:
                if s is None or self.blocks[s].cleanup:
                    continue
                if s not in seen:
                    seen.append(s)
            self.succ[b.idx] = seen
            for s in seen:
                self.pred[s].append(b.idx)
        # reachable
        seen = {0}
        st = [0]
        while st:
            x = st.pop()
            for y in self.succ[x]:
                if y not in seen:
                    seen.add(y)
                    st.append(y)
        self.reachable = seen
        self.returns = [b.idx for b in self.blocks if b.idx in seen and b.term.kind == 'return']

    def file(self):
        return self.span['file']

    def line(self):
        return self.span['line']

    def loc(self, span=None):
        sp = span or self.span
        return '%s:%d' % (sp['file'], sp['line'])

    def local_ty(self, l):
        return self.locals[l]['ty']

    def var_name(self, local):
        for v in self.vars:
            if 'pl' in v and v['pl']['l'] == local and not v['pl']['p']:
                return v['name']
        return None

    def var_locals(self, name):
        out = []
        for v in self.vars:
            if v['name'] == name and 'pl' in v:
                out.append(Place(v['pl']))
        return out

    def terms(self, kind=None):
        for b in self.blocks:
            if b.idx in self.reachable and not b.cleanup:
                if kind is None or b.term.kind == kind:
                    yield b.term

    def calls(self, pattern=None):
        """call terminators on normal paths whose declared or resolved callee matches the regex"""
        rx = re.compile(pattern) if isinstance(pattern, str) else pattern
        for t in self.terms('call'):
            if rx is None:
                yield t
                continue
            for nm in t.callee_names():
                if rx.search(nm):
                    yield t
                    break

    def stmts(self):
        for b in self.blocks:
            if b.idx in self.reachable and not b.cleanup:
                for s in b.stmts:
                    yield s

    def closures_created(self):
        """def paths of closures built in this body"""
        out = []
        for s in self.stmts():
            if s.kind == 'assign' and s.rv.kind == 'agg' and s.rv.agg == 'closure':
                out.append((s, s.rv.raw['def']))
        return out

    def pretty(self):
        out = ['fn %s  [%s]  args=%d' % (self.path, self.loc(), self.arg_count)]
        if self.preds_decl:
            out.append('  where ' + '; '.join(self.preds_decl))
        for v in self.vars:
            if 'pl' in v:
                out.append('  debug %s => %r' % (v['name'], Place(v['pl'])))
        for i, l in enumerate(self.locals):
            out.append('  let _%d: %s' % (i, l['ty']))
        for b in self.blocks:
            if b.cleanup:
                continue
            out.append('  bb%d:%s' % (b.idx, '' if b.idx in self.reachable else ' (unreachable)'))
            for s in b.stmts:
                out.append('      %r    // L%d%s' % (s, s.span['line'], ' <' + s.span['mac'] + '>' if s.span['exp'] else ''))
            out.append('      %r    // L%d%s' % (b.term, b.term.span['line'], ' <' + b.term.span['mac'] + '>' if b.term.span['exp'] else ''))
        return '\n'.join(out)


class Facts:
    def __init__(self, path):
        with open(path) as f:
            self.raw = json.load(f)
        from . import inline
        self.n_inlined = inline.inline_all(self.raw)
        # content hashes of the analysed sources, taken at load time (scratch copies are removed soon after)
        import hashlib, glob, os
        self.cwd = self.raw.get('cwd') or '/repo'
        self.source_sha = {}
        for fpath in glob.glob(os.path.join(self.cwd, 'src', '**', '*.rs'), recursive=True):
            try:
                self.source_sha[os.path.relpath(fpath, self.cwd)] = hashlib.sha256(open(fpath, 'rb').read()).hexdigest()
            except OSError:
                pass
        self.bodies = []
        self.by_path = {}
        for j in self.raw['bodies']:
            b = Body(j, self)
            self.bodies.append(b)
            self.by_path.setdefault(b.path, []).append(b)
        self.adts = {a['path']: a for a in self.raw['adts']}
        self.impls = self.raw['impls']
        self.statics = {s['path']: s for s in self.raw['statics']}
        self.children = {}
        for b in self.bodies:
            if b.kind == 'Closure' and b.parent:
                self.children.setdefault(b.parent, []).append(b)
        # helper functions (absent from the baseline) whose body was inlined into their callers: their standalone body has no
        # calling context; rules that sweep whole files skip them (the inlined copies are analysed in context)
        self.inlined_paths = {cp for b in self.bodies for cp in b.raw.get('inlined', [])}
        # closures created by an inlined helper now belong to the body it was inlined into
        for b in self.bodies:
            for cp in b.raw.get('inlined', []):
                for c in list(self.children.get(cp, [])):
                    if c not in self.children.setdefault(b.path, []):
                        self.children[b.path].append(c)

    def body(self, path):
        """exactly one body with this def path, else None"""
        l = self.by_path.get(path, [])
        return l[0] if len(l) == 1 else None

    def find(self, pattern):
        rx = re.compile(pattern)
        return [b for b in self.bodies if rx.search(b.path)]

    def closures_of(self, path, recursive=True):
        out = []
        for c in self.children.get(path, []):
            out.append(c)
            if recursive:
                out.extend(self.closures_of(c.path, True))
        return out

    def in_files(self, *files):
        return [b for b in self.bodies if b.file() in files]
