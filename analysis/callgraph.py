"""Whole-crate call graph over resolved direct calls; closures belong to the body that creates them."""
from .facts import norm_path


def build(facts):
    if hasattr(facts, '_cg'):
        return facts._cg
    by_norm = {}
    for b in facts.bodies:
        by_norm.setdefault(norm_path(b.path), []).append(b)
    edges = {}
    for b in facts.bodies:
        out = set()
        for t in b.terms('call'):
            c = t.func.const if t.func is not None else None
            if c is None or 'fn' not in c:
                continue
            for key in ('res', 'fn'):
                if key in c:
                    for tb in facts.by_path.get(c[key], []):
                        out.add(tb.path)
            # unresolved trait method calls on local traits: every local impl method with that name
            if c.get('trait') and not c.get('res_local', False) and c.get('local'):
                meth = c['fn'].rsplit('::', 1)[-1]
                for tb in facts.bodies:
                    if tb.impl_trait and tb.impl_trait == c['trait'] and tb.path.endswith('::' + meth):
                        out.add(tb.path)
        for s, d in b.closures_created():
            out.add(d)
        # function items passed as values (e.g. `.map(train_data_generator_from_jsonl)`)
        for s in b.stmts():
            if s.kind == 'assign':
                for o in s.rv.ops:
                    if o.const is not None and 'fn' in o.const and o.const.get('local'):
                        for tb in facts.by_path.get(o.const.get('res', o.const['fn']), []):
                            out.add(tb.path)
        for t in b.terms('call'):
            for o in t.args:
                if o.const is not None and 'fn' in o.const and o.const.get('local'):
                    for tb in facts.by_path.get(o.const.get('res', o.const['fn']), []):
                        out.add(tb.path)
        edges[b.path] = out
    facts._cg = edges
    return edges


def reachable(facts, entries):
    """bodies reachable from the bodies whose raw paths are in `entries`"""
    edges = build(facts)
    seen = set()
    st = list(entries)
    while st:
        x = st.pop()
        if x in seen:
            continue
        seen.add(x)
        st.extend(edges.get(x, ()))
    return [b for b in facts.bodies if b.path in seen]
