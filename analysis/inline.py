"""MIR-level inlining of helper functions that do not exist in the baseline tree.

Extracting a private helper (`fn run_worker(..)`, `fn push_remainder(..)`) is the most common behaviour-preserving
refactoring; the rules are written against the un-extracted shape. Before the facts are turned into Body objects, every
call to a crate-local function whose def path is NOT in analysis/baseline_functions.json (i.e. a function that is new
relative to the tree the rules were written for) is spliced into its caller: callee locals/blocks are renumbered, arguments
are assigned, `return` becomes an assignment to the call's destination followed by a jump to the call's target.
Functions that exist in the baseline are never inlined (rules refer to them by name)."""
import copy
import json
import os

HERE = os.path.dirname(os.path.abspath(__file__))
MAX_DEPTH = 3
MAX_CALLEE_BLOCKS = 400


def baseline():
    p = os.path.join(HERE, 'baseline_functions.json')
    try:
        return set(json.load(open(p)))
    except OSError:
        return None


def _remap(x, loff, boff):
    """deep copy of a JSON fragment with locals shifted by loff and block numbers by boff"""
    if isinstance(x, dict):
        if 'l' in x and 'p' in x and isinstance(x['l'], int):
            return {'l': x['l'] + loff, 'p': [_remap_proj(e, loff) for e in x['p']]}
        out = {}
        for k, v in x.items():
            if k in ('target', 'unwind', 'otherwise') and isinstance(v, int):
                out[k] = v + boff
            elif k == 'arms' and isinstance(v, list):
                out[k] = [[a[0], a[1] + boff] for a in v]
            else:
                out[k] = _remap(v, loff, boff)
        return out
    if isinstance(x, list):
        return [_remap(e, loff, boff) for e in x]
    return x


def _remap_proj(e, loff):
    if isinstance(e, dict) and 'idx' in e and isinstance(e['idx'], int):
        d = dict(e)
        d['idx'] = e['idx'] + loff
        return d
    return copy.deepcopy(e)


def _callee_path(term):
    f = term.get('func')
    if not f or f.get('k') != 'const':
        return None
    c = f.get('c', {})
    if 'fn' not in c:
        return None
    if not c.get('res_local', c.get('local', False)):
        return None
    if c.get('inst') not in (None, 'item'):
        return None
    return c.get('res', c['fn'])


def inline_all(raw):
    """mutates raw['bodies'] in place; returns the number of call sites inlined"""
    base = baseline()
    if base is None:
        return 0
    by_path = {}
    for b in raw['bodies']:
        by_path.setdefault(b['path'], []).append(b)
    new_fns = {p for p, l in by_path.items() if len(l) == 1 and l[0]['kind'] in ('Fn', 'AssocFn') and p not in base}
    # local closures that are called directly (`let pull = || ..; pull()`): the call resolves to the closure body itself. They are spliced in
    # like helpers (the rules are written against the code without the indirection); closures handed to adaptors are not affected
    clos = {p for p, l in by_path.items() if len(l) == 1 and l[0]['kind'] == 'Closure'}
    originals = {p: copy.deepcopy(by_path[p][0]) for p in new_fns | clos}
    n = 0
    for body in raw['bodies']:
        if body['kind'] == 'Promoted':
            continue
        for depth in range(MAX_DEPTH):
            sites = []
            for bi, blk in enumerate(body['blocks']):
                t = blk['term']
                if t.get('k') != 'call':
                    continue
                cp = _callee_path(t)
                if cp in new_fns and cp != body['path'] and len(originals[cp]['blocks']) <= MAX_CALLEE_BLOCKS:
                    sites.append((bi, cp))
                elif cp in clos and cp != body['path'] and cp.startswith(body['path'] + '::') and len(originals[cp]['blocks']) <= MAX_CALLEE_BLOCKS and \
                        str((t.get('func') or {}).get('c', {}).get('fn', '')).startswith(('std::ops::Fn::call', 'std::ops::FnMut::call_mut', 'std::ops::FnOnce::call_once')) and \
                        len(t.get('args', [])) == 2:
                    sites.append((bi, cp))
            if not sites:
                break
            for bi, cp in sites:
                _inline_site(body, bi, originals[cp])
                body.setdefault('inlined', []).append(cp)
                n += 1
    return n


def _inline_site(body, bi, callee):
    blk = body['blocks'][bi]
    t = blk['term']
    loff = len(body['locals'])
    boff = len(body['blocks'])
    span = t.get('span')
    body['locals'].extend(copy.deepcopy(callee['locals']))
    for v in callee.get('vars', []):
        # the parameters of the spliced function become unnamed temporaries (they are the argument values, not variables of the caller)
        if 'pl' in v and v.get('arg') is None:
            nv = dict(v)
            nv['pl'] = _remap(v['pl'], loff, 0)
            nv['arg'] = None
            body['vars'].append(nv)
    new_blocks = _remap(callee['blocks'], loff, boff)
    # argument passing at the callee entry
    entry = new_blocks[0]
    pre = []
    if callee['kind'] == 'Closure':
        # rust-call ABI: (closure, (a, b, ..)) at the call site, (_1 = closure, _2 = a, _3 = b, ..) in the body
        args = t.get('args', [])
        pre.append({'k': 'assign', 'lhs': {'l': loff + 1, 'p': []}, 'rv': {'k': 'use', 'op': copy.deepcopy(args[0])}, 'span': span})
        tup = args[1]
        for i in range(callee['arg_count'] - 1):
            if 'pl' in tup:
                op = {'k': tup.get('k', 'move'), 'pl': {'l': tup['pl']['l'], 'p': list(tup['pl']['p']) + [{'f': i}]}}
                pre.append({'k': 'assign', 'lhs': {'l': loff + 2 + i, 'p': []}, 'rv': {'k': 'use', 'op': op}, 'span': span})
    else:
        for i, a in enumerate(t.get('args', [])):
            if i >= callee['arg_count']:
                break
            pre.append({'k': 'assign', 'lhs': {'l': loff + 1 + i, 'p': []}, 'rv': {'k': 'use', 'op': copy.deepcopy(a)}, 'span': span})
    entry['stmts'] = pre + entry['stmts']
    # returns
    tgt = t.get('target')
    for nb in new_blocks:
        nt = nb['term']
        if nt.get('k') == 'return':
            nb['stmts'] = nb['stmts'] + [{'k': 'assign', 'lhs': copy.deepcopy(t['dest']),
                                          'rv': {'k': 'use', 'op': {'k': 'move', 'pl': {'l': loff, 'p': []}}}, 'span': nt.get('span', span)}]
            if tgt is None:
                nb['term'] = {'k': 'unreachable', 'span': nt.get('span', span)}
            else:
                nb['term'] = {'k': 'goto', 'target': tgt, 'span': nt.get('span', span)}
    body['blocks'].extend(new_blocks)
    blk['term'] = {'k': 'goto', 'target': boff, 'span': span}
