"""REDUCE normal form: a value accumulated over a sequence, independent of whether the code folds an iterator
(`it.map(f).sum()`, `.max().unwrap_or(0)`, `.fold(init, |a, x| a + f(x))`, `.count()`) or updates a mutable accumulator in a
loop (`let mut acc = init; for x in it { acc += f(x) }`).

reduce_of(facts, body, tree) -> Red or None
   Red.op     'add' | 'mul' | 'max' | 'min' | 'count' | 'and' | 'or'
   Red.init   tree of the start value (None for max/min of a possibly empty sequence without default)
   Red.segs   SEQ segments (analysis.seq) whose `elem` is the contributed term (for 'count': the counted item)
"""
import re
from . import cfg
from .sym import sym, core, nosite, simplify, last_seg, defs_of, symbolizer, peel
from .seq import Seg, seq_of_iter, apply_fn, subst, next_call_of, item_subst_fn, _conds_between, iter_init, item

ACC = ('acc',)
OPS = {'Add': 'add', 'Mul': 'mul', 'BitAnd': 'and', 'BitOr': 'or'}


class Red:
    def __init__(self, op, init, segs, body=None):
        self.op = op
        self.init = init
        self.segs = segs
        self.body = body

    def __repr__(self):
        from .sym import show
        return '%s(init=%s; %s)' % (self.op, show(self.init) if self.init is not None else '-', '; '.join(repr(s) for s in self.segs))


def _combine(expr, acc):
    """expr = acc (+) e  ->  (op, e) or None; acc is a predicate on (nosite) trees"""
    e = peel(expr)
    if e[0] == 'bin' and e[1] in OPS:
        a, b = e[2], e[3]
        if acc(nosite(peel(a))):
            return OPS[e[1]], b
        if acc(nosite(peel(b))) and e[1] in ('Add', 'Mul', 'BitAnd', 'BitOr'):
            return OPS[e[1]], a
    if e[0] == 'call' and len(e[2]) == 2:
        n = last_seg(e[1])
        if n in ('max', 'min') and ('Ord' in e[1] or 'cmp::' in e[1] or 'f64' in e[1] or 'f32' in e[1]):
            a, b = e[2]
            if acc(nosite(peel(a))):
                return n, b
            if acc(nosite(peel(b))):
                return n, a
        if n in ('add', 'add_assign', 'saturating_add', 'wrapping_add'):
            a, b = e[2]
            if acc(nosite(peel(a))):
                return 'add', b
            if acc(nosite(peel(b))):
                return 'add', a
    return None


def reduce_of(facts, body, tree, level=0):
    t = peel(tree)
    if not isinstance(t, tuple) or not t:
        return None
    if t[0] == 'call' and t[2]:
        n = last_seg(t[1])
        a = t[2]
        if n in ('unwrap_or', 'unwrap_or_default', 'unwrap') and ('Option' in t[1]):
            r = reduce_of(facts, body, a[0], level)
            if r is not None and r.op in ('max', 'min') and r.init is None and n != 'unwrap':
                r.init = nosite(a[1]) if n == 'unwrap_or' else ('default',)
                return r
            return r if n == 'unwrap' else None
        if n in ('sum', 'product', 'max', 'min', 'count') and re.search(r'Iterator::|Itertools::', t[1]) and len(a) == 1:
            segs = seq_of_iter(facts, body, a[0], level)
            if segs is None:
                return None
            op = {'sum': 'add', 'product': 'mul'}.get(n, n)
            init = {'sum': ('const', '0', 0), 'product': ('const', '1', 1), 'count': ('const', '0', 0)}.get(n)
            return Red(op, init, segs, body)
        if n == 'fold' and len(a) == 3:
            segs = seq_of_iter(facts, body, a[0], level)
            if segs is None:
                return None
            out = []
            op = None
            for s in segs:
                s = s.copy()
                for leaf in s.flat():
                    if leaf.elem is None:
                        return None
                    r = _combine(apply_fn(facts, a[2], (ACC, leaf.elem)), lambda u: u == ACC)
                    if r is None or (op is not None and op != r[0]):
                        return None
                    op = r[0]
                    leaf.elem = nosite(r[1])
                out.append(s)
            return Red(op, nosite(a[1]), out, body) if op else None
        if n == 'len' and len(a) == 1:
            return None
    if t[0] == 'var' and len(t) > 2:
        return reduce_of_var(facts, body, t[2])
    if t[0] == 'field' and isinstance(t[2], int):
        # component of a fold over a tuple accumulator: it.fold((i0, i1, ..), |(a0, a1, ..), x| (a0 + e0, a1 + e1, ..)).k
        f = peel(t[1])
        if isinstance(f, tuple) and f and f[0] == 'call' and last_seg(f[1]) == 'fold' and len(f[2]) == 3:
            init = peel(f[2][1])
            if init[0] == 'agg' and init[1] == 'tuple' and t[2] < len(init[3]):
                k = t[2]
                segs = seq_of_iter(facts, body, f[2][0], level)
                if segs is None:
                    return None
                out, op = [], None
                for s in segs:
                    s = s.copy()
                    for leaf in s.flat():
                        if leaf.elem is None:
                            return None
                        r = peel(apply_fn(facts, f[2][2], (ACC, leaf.elem)))
                        if not (r[0] == 'agg' and r[1] == 'tuple' and k < len(r[3])):
                            return None
                        c = _combine(r[3][k], lambda u, k=k: core(u) == ('field', ACC, k))
                        if c is None or (op is not None and op != c[0]):
                            return None
                        op = c[0]
                        leaf.elem = nosite(c[1])
                    out.append(s)
                return Red(op, nosite(init[3][k]), out, body) if op else None
    return None


def reduce_of_var(facts, body, local):
    """accumulator variable: one initial definition outside the loops, updates `acc = acc (+) e` inside loops"""
    from .alts import expand
    whole, partial = defs_of(body, local)
    if partial or len(whole) < 2:
        return None
    z = symbolizer(body)
    loops = cfg.loops(body)
    inits, updates = [], []
    for d in whole:
        v = nosite(simplify(z.rvalue(d.rv, 0, (local,)) if hasattr(d, 'rv') else z.call(d, 0, (local,))))
        if any(d.bb in l.blocks for l in loops if not all(x.bb in l.blocks for x in whole)):
            updates.append((d, v))
        else:
            inits.append((d, v))
    if len(inits) != 1 or not updates:
        return None
    init_bb = inits[0][0].bb
    isacc = lambda u: isinstance(u, tuple) and u and u[0] in ('var', 'phi') and (u[2] if u[0] == 'var' and len(u) > 2 else u[1]) == local
    op = None
    segs = []
    for d, v in updates:
        r = _combine(v, isacc)
        if r is None:
            # conditional replacement `if e < acc { acc = e }` is a running minimum (`>`: maximum)
            from .sym import atoms_at
            for tt, pol, g in atoms_at(body, d.bb):
                c = peel(nosite(tt))
                if pol is None or c[0] != 'bin' or c[1] not in ('Lt', 'Le', 'Gt', 'Ge'):
                    continue
                a_, b_ = nosite(peel(c[2])), nosite(peel(c[3]))
                opn = c[1] if pol else {'Lt': 'Ge', 'Le': 'Gt', 'Gt': 'Le', 'Ge': 'Lt'}[c[1]]
                if isacc(b_) and core(a_) == core(v):
                    r = ({'Lt': 'min', 'Le': 'min', 'Gt': 'max', 'Ge': 'max'}[opn], v)
                elif isacc(a_) and core(b_) == core(v):
                    r = ({'Lt': 'max', 'Le': 'max', 'Gt': 'min', 'Ge': 'min'}[opn], v)
        if r is None:
            # call form: AddAssign::add_assign(&mut acc, e) does not define acc; not handled here
            return None
        if op is not None and op != r[0]:
            return None
        op = r[0]
        e = r[1]
        # enclosing for-loops (not containing the init), outermost first
        ls = [l for l in loops if d.bb in l.blocks and init_bb not in l.blocks]
        ls.sort(key=lambda l: -len(l.blocks))
        nest = []
        for lv, l in enumerate(ls):
            nest.append((l, next_call_of(body, l), lv))
        val = expand(facts, body, nosite(e))
        conds = _conds_between(body, ls[-1].header if ls else init_bb, d.bb, [n_ for l_, n_, v_ in nest if n_ is not None])
        for l_, nx, lv in nest:
            if nx is not None:
                f = item_subst_fn(body, nx, lv)
                val = subst(val, f)
                conds = [(subst(c, f), p) for c, p in conds]
        seg = Seg('one', elem=val, conds=conds, term=None, body=body, level=len(nest))
        seg.stmt = d
        # wrap from the innermost loop outwards
        cur = [seg]
        for idx in range(len(nest) - 1, -1, -1):
            l_, nx, lv = nest[idx]
            outer = nest[:idx]

            def allitems(n, outer=outer):
                for lo, nxo, lvo in outer:
                    if nxo is not None:
                        r_ = item_subst_fn(body, nxo, lvo)(n)
                        if r_ is not None:
                            return r_
                return None
            if nx is not None:
                srcs = seq_of_iter(facts, body, iter_init(body, sym(body, nx.args[0]), allitems), lv)
            else:
                srcs = [Seg('each', src=('loop', l_.header), body=body, level=lv)]
            if srcs is None or len(srcs) != 1 or srcs[0].kind != 'each':
                return None
            s0 = srcs[0]
            e0 = s0.elem
            ins = [c.copy() for c in cur]
            if e0 != item(lv):
                for c in ins:
                    c.map(lambda m, e0=e0, lv=lv: e0 if m == item(lv) else None)
            if len(ins) == 1 and ins[0].kind == 'one':
                w = Seg('each', src=s0.src, elem=ins[0].elem, conds=s0.conds + ins[0].conds, body=body, level=lv)
            else:
                w = Seg('nest', src=s0.src, conds=s0.conds, inner=ins, body=body, level=lv)
            w.loop = l_
            cur = [w]
        segs += cur
    return Red(op, inits[0][1], segs, body)
