"""SEQ normal form: how an ordered collection (Vec / String) is built, independent of whether the code uses an
iterator chain (`a.iter().cloned().chain(b).collect()`), explicit loops that push, `extend`, or a mix.

seq_of(facts, body, tree) -> list of Seg or None (None: not a recognisable construction)

Each Seg describes a run of appended elements, in program order:
   kind   'each'    one element per item of `src` (elem is a tree over the item; conds filter items)
          'nest'    for every item of `src` (under conds) the segments `inner` are appended (nested loops, flat_map,
                    a loop body with several appends)
          'one'     a single element `elem` (conds: guards under which it is appended)
          'repeat'  `count` copies of `elem`
          'opaque'  something else touched the collection (`what` names the call): rules decide whether they care
   src    tree of the iterated source with the transparent adaptors (iter, into_iter, cloned, copied, by_ref,
          deref) removed; structural adaptors (enumerate, skip, rev, zip, windows, chars, ...) stay in the tree
   elem   tree over item(level): ('item', 0) is the item of the outermost loop of the construction, ('item', 1) the
          item of a loop nested in it, ...
   conds  [(tree, polarity)]: boolean guards; variant guards appear as (('is', tree, (names..)), True)
"""
import re
import functools
from . import cfg
from .sym import sym, core, nosite, simplify, walk, last_seg, ret_values, defs_of, symbolizer, init_value, \
    variant_edges, peel, atoms_at, variant_facts_at

ITEM = ('item', 0)


def item(level):
    return ('item', level)


TRANSPARENT = ('iter', 'into_iter', 'cloned', 'copied', 'by_ref', 'iter_mut', 'deref', 'deref_mut', 'as_slice',
               'as_mut_slice', 'as_ref', 'borrow', 'fuse', 'peekable', 'into_vec', 'to_vec', 'as_mut', 'into_boxed_slice',
               'collect', 'collect_vec', 'clone', 'to_owned')
EMPTY = re.compile(r'(Vec|String|VecDeque|HashSet|BTreeSet)::(new|with_capacity)$|Default>::default$|default::Default::default$')
APPEND = re.compile(r'(Vec|String|VecDeque)::(push|push_str|push_back|extend|extend_from_slice|append|resize|insert)$|(HashSet|BTreeSet)::insert$|'
                    r'Extend>::extend$|Extend<.*>::extend$')
MUTATE = re.compile(r'(Vec|String|VecDeque)::(clear|truncate|pop|remove|swap_remove|retain\w*|dedup\w*|drain|reverse|sort\w*|extract_if|'
                    r'split_off|rotate_\w+|fill|swap|set_len|pop_front|pop_back|push_front)$|slice::(sort\w*|reverse|swap|fill|rotate_\w+)$')


class Seg:
    def __init__(self, kind, src=None, elem=None, conds=(), count=None, what=None, term=None, body=None, inner=None, level=0):
        self.kind = kind
        self.src = src
        self.elem = elem if elem is not None else (item(level) if kind == 'each' else None)
        self.conds = list(conds)
        self.count = count
        self.what = what
        self.term = term
        self.body = body
        self.inner = inner
        self.level = level
        self.loop = None

    def copy(self):
        s = Seg(self.kind, self.src, self.elem, list(self.conds), self.count, self.what, self.term, self.body,
                [i.copy() for i in self.inner] if self.inner is not None else None, self.level)
        s.loop = self.loop
        return s

    def map(self, f, src=True):
        """apply the bottom-up rewriting f to every tree of the segment (and nested segments), in place"""
        if src and self.src is not None:
            self.src = subst(self.src, f)
        if self.elem is not None:
            self.elem = subst(self.elem, f)
        if self.count is not None:
            self.count = subst(self.count, f)
        self.conds = [(subst(c, f), p) for c, p in self.conds]
        for i in self.inner or ():
            i.map(f)
        return self

    def flat(self):
        """all leaf segments (nested ones included), in order"""
        if self.kind == 'nest':
            out = []
            for i in self.inner:
                out += i.flat()
            return out
        return [self]

    def leaves(self):
        """leaf segments including those inside a 'sorted' wrapper (for element-wise rewriting only)"""
        if self.kind in ('nest', 'sorted'):
            out = []
            for i in self.inner:
                out += i.leaves()
            return out
        return [self]

    def __repr__(self):
        from .sym import show
        if self.kind == 'sorted':
            return 'sorted(%s) [%s]' % (self.what, '; '.join(repr(i) for i in self.inner))
        if self.kind == 'each':
            s = 'each %s -> %s' % (show(self.src), show(self.elem))
        elif self.kind == 'nest':
            s = 'nest %s -> [%s]' % (show(self.src), '; '.join(repr(i) for i in self.inner))
        elif self.kind == 'one':
            s = 'one %s' % show(self.elem)
        elif self.kind == 'repeat':
            s = 'repeat %s x %s' % (show(self.elem), show(self.count))
        else:
            s = 'opaque %s' % self.what
        if self.conds:
            s += ' if ' + ' && '.join(('' if p else '!') + show(c) for c, p in self.conds)
        return s


def norm_cond(c, pol):
    """(tree, polarity) with leading negations folded into the polarity"""
    while isinstance(c, tuple) and c and c[0] == 'un' and c[1] == 'Not':
        c = peel(c[2])
        pol = not pol
    return c, pol


def subst(t, f):
    """bottom-up rewriting: f(node) returns a replacement or None"""
    if not isinstance(t, tuple) or not t:
        return t
    r = f(t)
    if r is not None:
        return r
    return tuple(subst(x, f) if isinstance(x, tuple) else x for x in t)


def _is_closure(t):
    return isinstance(t, tuple) and t and t[0] == 'agg' and t[1] == 'closure'


def resolve_upvars(facts, clo, t, depth=0):
    if depth > 4 or not isinstance(t, tuple) or not t:
        return t
    if t[0] == 'upvar':
        par = facts.by_path.get(clo.parent, [])
        if len(par) == 1:
            p = par[0]
            for s, d in p.closures_created():
                if d == clo.path:
                    ops = s.rv.ops
                    if t[1] < len(ops):
                        r = nosite(peel(sym(p, ops[t[1]])))
                        if p.kind == 'Closure':
                            return resolve_upvars(facts, p, r, depth + 1)
                        return r
        return t
    return tuple(resolve_upvars(facts, clo, x, depth) if isinstance(x, tuple) else x for x in t)


def apply_fn(facts, f, args):
    """value of calling closure / fn item `f` with argument trees `args` (closure parameters are args 2..): the
    closure's return value (multi-definition temporaries expanded into 'choice' nodes in the closure's own body) with
    its argument nodes replaced and upvars resolved into the creating body; unknown callables give ('apply', f, args)"""
    from .alts import ret_choice
    f = peel(f)
    if _is_closure(f):
        l = facts.by_path.get(f[2], [])
        if len(l) == 1:
            clo = l[0]

            def rep(n):
                if n[0] == 'arg' and isinstance(n[1], int) and n[1] >= 2 and n[1] - 2 < len(args):
                    return args[n[1] - 2]
                return None
            # closure parameters first, then captured variables (whose trees may mention the PARENT's parameters)
            r = subst(ret_choice(facts, clo), rep)

            def proj(n):
                # a component of a tuple the argument spells out (`|&(tp, _, _)| tp` applied to `(a, b, c)`)
                if n[0] == 'field' and isinstance(n[2], int):
                    tb = n[1]
                    while isinstance(tb, tuple) and tb and tb[0] in ('ref', 'deref', 'copy', 'move') and len(tb) > 1 and isinstance(tb[1], tuple):
                        tb = tb[1]
                    if isinstance(tb, tuple) and tb and tb[0] == 'agg' and tb[1] == 'tuple' and n[2] < len(tb[3]):
                        return tb[3][n[2]]
                return None
            r = subst(r, proj)
            caps = f[3] if len(f) > 3 and isinstance(f[3], tuple) else ()

            def cap(n):
                # the captures listed at the closure's creation site, as seen from the body the closure value was read in (for a helper
                # spliced into its caller these are the caller's values, not the helper's parameters)
                if n[0] == 'upvar' and isinstance(n[1], int) and n[1] < len(caps) and isinstance(caps[n[1]], tuple):
                    return nosite(peel(caps[n[1]]))
                return None
            if caps:
                r = subst(r, cap)
            return resolve_upvars(facts, clo, r)
    if isinstance(f, tuple) and f and f[0] == 'fn':
        from .facts import norm_path
        path = norm_path(f[1])
        if '::' in path:
            adt, v = path.rsplit('::', 1)
            if adt in facts.adts and any(x['name'] == v for x in facts.adts[adt]['variants']):
                return ('agg', 'adt', path, tuple(args))   # a tuple-variant constructor used as a function
        return ('call', f[1], tuple(args))
    return ('apply', f, tuple(args))


def _unzip_half(facts, body, t, level):
    """one half of `iter.unzip()` (`let (a, b) = it.unzip();`): the sequence of the iterator with that component of every element;
    False when t is not of that form"""
    if not (isinstance(t, tuple) and t and t[0] == 'field' and isinstance(t[2], int) and t[2] in (0, 1)):
        return False
    u = peel(nosite(t[1]))
    if isinstance(u, tuple) and u and u[0] == 'var' and len(u) > 2:
        u = peel(nosite(init_value(body, u)))
    if not (isinstance(u, tuple) and u and u[0] == 'call' and last_seg(u[1]) == 'unzip' and len(u[2]) == 1):
        return False
    x = seq_of_iter(facts, body, u[2][0], level)
    if x is None:
        return None
    out = []
    for sg in x:
        sg = sg.copy()
        for i in sg.leaves():
            if i.elem is not None and i.kind != 'opaque':
                e_ = peel(i.elem)
                i.elem = e_[3][t[2]] if (e_[0] == 'agg' and e_[1] == 'tuple' and len(e_[3]) == 2) else ('field', i.elem, t[2])
        out.append(sg)
    return out


HASH_ITER = re.compile(r'(HashMap|HashSet|hash_map|hash_set)\b.*::(iter|into_iter|iter_mut|drain|keys|values|into_keys|into_values|values_mut)$')


def unhash(src):
    """the source of a run without its `hash_order(..)` marker (for consumers that do not depend on the order: integer sums, sets)"""
    c = src
    if isinstance(c, tuple) and c and c[0] == 'call' and c[1] == 'hash_order' and len(c[2]) == 1:
        return c[2][0]
    return src


def seq_of_iter(facts, body, t, level=0):
    """segments produced by iterating the iterator expression `t`; iteration over a hash map / set yields its entries in hash
    order: the source of such a run is wrapped as `hash_order(src)` so that no rule mistakes it for the order of whatever the map was
    filled from"""
    hashed = False
    t0 = t
    for _ in range(8):
        if isinstance(t0, tuple) and t0 and t0[0] == 'call' and t0[2] and last_seg(t0[1]) in ('iter', 'into_iter', 'iter_mut', 'by_ref', 'cloned', 'copied', 'deref',
                                                                                           'deref_mut', 'as_ref', 'borrow', 'clone', 'drain', 'keys', 'values',
                                                                                           'into_keys', 'into_values', 'values_mut', 'peekable', 'fuse'):
            if HASH_ITER.search(t0[1]):
                hashed = True
                break
            t0 = t0[2][0]
            continue
        if isinstance(t0, tuple) and t0 and t0[0] in ('ref', 'deref', 'copy', 'move') and len(t0) > 1 and isinstance(t0[1], tuple):
            t0 = t0[1]
            continue
        break
    r = _seq_of_iter(facts, body, t, level)
    if hashed and r is not None:
        out = []
        for sg in r:
            sg = sg.copy()
            if sg.kind in ('each', 'nest') and not (isinstance(sg.src, tuple) and sg.src and sg.src[0] == 'call' and sg.src[1] == 'hash_order'):
                sg.src = ('call', 'hash_order', (sg.src,))
            out.append(sg)
        return out
    return r


def _seq_of_iter(facts, body, t, level=0):
    t = peel(t)
    if isinstance(t, tuple) and t and t[0] == 'var':
        # a named iterator variable (`let mut it = ..;`): use its initial value
        if len(t) > 2 and isinstance(t[2], int) and re.match(r'^(&(mut )?)?(std|alloc)::(vec::Vec|collections::VecDeque|collections::vec_deque::VecDeque|string::String)\b', body.local_ty(t[2]) or ''):
            # a named collection that is appended to or rearranged in place after its initialisation (`v.sort_by_key(..)`, `v.push(..)`):
            # its contents are not its initial value
            for u in body.terms('call'):
                if u.args and u.bb in body.reachable and (APPEND.search(u.callee_res() or '') or MUTATE.search(u.callee_res() or '')):
                    r0 = core(sym(body, u.args[0]))
                    if r0[0] == 'var' and len(r0) > 2 and r0[2] == t[2]:
                        return seq_of_var(facts, body, t[2])
        iv = init_value(body, t)
        if iv != t:
            return seq_of_iter(facts, body, iv, level)
    uz = _unzip_half(facts, body, t, level)
    if uz is not False:
        return uz
    r = _seq_of_choice(facts, body, t, level)
    if r is not None:
        return r
    if isinstance(t, tuple) and t and t[0] == 'call' and t[2]:
        n = last_seg(t[1])
        a = t[2]
        if n in TRANSPARENT or (n == 'bytes' and t[1].endswith('str::bytes')):
            return seq_of_iter(facts, body, a[0], level)
        if n == 'from_elem' and len(a) == 2:
            return [Seg('repeat', elem=nosite(a[0]), count=nosite(a[1]), body=body, level=level)]
        if n == 'chain' and len(a) == 2:
            x, y = seq_of_iter(facts, body, a[0], level), seq_of_iter(facts, body, a[1], level)
            return None if x is None or y is None else x + y
        if n == 'map' and len(a) == 2:
            x = seq_of_iter(facts, body, a[0], level)
            if x is None:
                return None
            out = []
            for s in x:
                s = s.copy()
                for i in s.leaves():
                    if i.elem is not None and i.kind != 'opaque':
                        i.elem = apply_fn(facts, a[1], (i.elem,))
                out.append(s)
            return out
        if n == 'filter' and len(a) == 2:
            x = seq_of_iter(facts, body, a[0], level)
            if x is None:
                return None
            out = []
            for s in x:
                s = s.copy()
                for i in s.flat():
                    if i.elem is not None and i.kind != 'opaque':
                        i.conds.append(norm_cond(peel(apply_fn(facts, a[1], (i.elem,))), True))
                out.append(s)
            return out
        if n == 'filter_map' and len(a) == 2:
            from .alts import value_alts
            x = seq_of_iter(facts, body, a[0], level)
            if x is None:
                return None
            out = []
            for s in x:
                if s.kind != 'each':
                    return [Seg('each', src=nosite(t), body=body, level=level)]
                for al in value_alts(facts, body, apply_fn(facts, a[1], (s.elem,)), expanded=True):
                    v = peel(al.value)
                    if v[0] == 'agg' and v[2].endswith('Option::None'):
                        continue
                    if v[0] == 'agg' and v[2].endswith('Option::Some'):
                        val = v[3][0]
                    elif v[0] == 'call' and last_seg(v[1]) in ('from_residual',):
                        continue   # `?` inside the closure: the None continuation
                    elif v[0] == 'call' and last_seg(v[1]) == 'then_some' and len(v[2]) == 2:
                        # cond.then_some(x): Some(x) exactly when cond holds
                        val = v[2][1]
                        extra = [norm_cond(peel(v[2][0]), True)]
                    elif v[0] == 'call' and last_seg(v[1]) == 'then' and len(v[2]) == 2 and 'bool' in v[1]:
                        val = apply_fn(facts, v[2][1], ())
                        extra = [norm_cond(peel(v[2][0]), True)]
                    else:
                        val = ('unwrap', al.value)
                    c = s.copy()
                    c.elem = val
                    if v[0] == 'call' and last_seg(v[1]) in ('then_some', 'then') and len(v[2]) == 2:
                        c.conds = c.conds + extra
                    c.conds = c.conds + [(('is', tt, tuple(sorted(nn))), True) for tt, nn in al.variants] + list(al.atoms)
                    out.append(c)
            return out
        if n == 'flat_map' and len(a) == 2:
            x = seq_of_iter(facts, body, a[0], level)
            if x is None:
                return None
            out = []
            for s in x:
                if s.kind != 'each':
                    return [Seg('each', src=nosite(t), body=body, level=level)]
                inner = seq_of_iter(facts, body, apply_fn(facts, a[1], (s.elem,)), level + 1)
                if inner is None:
                    return None
                out.append(Seg('nest', src=s.src, conds=s.conds, inner=inner, body=body, level=level))
            return out
        if n == 'once' and len(a) == 1:
            return [Seg('one', elem=nosite(a[0]), body=body, level=level)]
        if n == 'take' and len(a) == 2:
            inner = peel(a[0])
            if inner[0] == 'call' and last_seg(inner[1]) == 'repeat':
                return [Seg('repeat', elem=nosite(inner[2][0]), count=nosite(a[1]), body=body, level=level)]
            if inner[0] == 'call' and last_seg(inner[1]) == 'repeat_with' and len(inner[2]) == 1:
                # repeat_with(|| v.clone()).take(n): n values produced by the closure
                return [Seg('repeat', elem=nosite(apply_fn(facts, inner[2][0], ())), count=nosite(a[1]), body=body, level=level)]
        if n == 'repeat_n' and len(a) == 2:
            return [Seg('repeat', elem=nosite(a[0]), count=nosite(a[1]), body=body, level=level)]
    if isinstance(t, tuple) and t and t[0] == 'call' and not t[2] and last_seg(t[1]) == 'empty':
        return []
    return [Seg('each', src=nosite(peel(t)), body=body, level=level)]


def _seq_of_choice(facts, body, t, level):
    """a local that receives one of several collections on exclusive branches (`let v = match mode { A => a.collect(), B =>
    b.collect() }`, or the result of an inlined helper with that shape): the segments of every branch, each under its branch
    conditions -- since the branches exclude one another the concatenation of the guarded segments is the choice"""
    if not (isinstance(t, tuple) and t and ((t[0] == 'var' and len(t) > 2) or t[0] == 'phi')):
        return None
    local = t[2] if t[0] == 'var' else t[1]
    whole, partial = defs_of(body, local)
    if partial or len(whole) < 2:
        return None
    bbs = [d.bb for d in whole]
    if len(set(bbs)) != len(bbs) or any(a != b and cfg.dominates(body, a, b) for a in bbs for b in bbs):
        return None
    dom = cfg.dominators(body)
    common = None
    for x in sorted(set.intersection(*[set(dom[b]) for b in bbs]), key=lambda x: len(dom[x])):
        common = x   # the deepest common dominator
    if common is None or common in bbs:
        return None
    # exclusive: no definition can be followed by another one without passing the branch point again
    if any(b in cfg.reach_from_succ(body, a, removed_blocks=(common,)) for a in bbs for b in bbs if a != b):
        return None
    z = symbolizer(body)
    out = []
    for d in whole:
        v = nosite(simplify(z.rvalue(d.rv, 0, (local,)) if hasattr(d, 'rv') else z.call(d, 0, (local,))))
        segs = seq_of(facts, body, v, _novar=local, level=level) if level else seq_of(facts, body, v, _novar=local)
        if segs is None:
            return None
        conds = _conds_between(body, common, d.bb)
        for sg in segs:
            sg = sg.copy()
            sg.conds = conds + sg.conds
            out.append(sg)
    return out


def iter_init(body, t, f=None):
    """the iterator expression a loop pulls from: the mutable `iter` variable replaced by its initial value (one variable
    at a time, applying the rewriting f -- item substitution of the enclosing loops -- before going deeper)"""
    t = nosite(t)
    for _ in range(4):
        if f is not None:
            t = subst(t, f)
        p = peel(t)
        if not (isinstance(p, tuple) and p and p[0] == 'var' and len(p) > 2):
            break
        whole, partial = defs_of(body, p[2])
        if len(whole) != 1 or partial:
            break
        d = whole[0]
        z = symbolizer(body)
        t = nosite(simplify(z.rvalue(d.rv, 0, (p[2],)) if hasattr(d, 'rv') else z.call(d, 0, (p[2],))))
    return t


def _vec_macro_elems(body, t):
    """`vec![a, b]` lowers to box + array aggregate -> into_vec; returns the element trees or None"""
    for x in walk(nosite(t)):
        if isinstance(x, tuple) and x and x[0] == 'agg' and x[1] == 'array':
            return list(x[3])
    return None


def next_call_of(body, lp):
    """the `next()` call that drives the `for`/`while let` loop lp (its None arm leaves the loop), or None"""
    for t in body.terms('call'):
        if t.bb not in lp.blocks or not re.search(r'::next$', t.callee_res() or ''):
            continue
        il = cfg.innermost_loop(body, t.bb)
        if il is None or il.header != lp.header:
            continue
        none = variant_edges(body, sym(body, t.dest), 'None')
        some = variant_edges(body, sym(body, t.dest), 'Some')
        if some and none and all(e[1] not in lp.blocks for e in none) and cfg.dominates(body, lp.header, t.bb):
            # the pull sits at the loop head: every block of the loop other than the path header..pull is behind it
            return t
    return None


def item_subst_fn(body, next_term, level):
    it = nosite(sym(body, next_term.dest))

    def rep(n):
        if n[0] == 'unwrap' and n[1] == it:
            return item(level)
        if n[0] == 'field' and n[2] == 0 and isinstance(n[1], tuple) and n[1][0] == 'variant' and n[1][2] == 'Some' and n[1][1] == it:
            return item(level)
        return None
    return rep


def abort_guard(body, g):
    """every other way out of the guard's block ends in an error exit -- a return of Err(..) / None / the `?` residual, or a
    panic -- and never rejoins: on every completed construction the guard held, so it is a precondition of success, not a choice
    between sequences. (A branch that returns the value built so far is NOT an error exit: it stays a condition.)"""
    cache = body.__dict__.setdefault('_abort_cache', {})
    key = (g.block, g.target)
    if key in cache:
        return cache[key]
    others = [w for w in body.succ[g.block] if w != g.target and not body.blocks[w].cleanup]
    res = False
    if others:
        # path-sensitive in the constants and Result/Option variants assigned on the way (`r = Err(e); .. r?` only takes the residual arm)
        reach = set()
        for w in others:
            reach |= cfg.reach_const(body, w)
        if g.block not in reach and g.target not in reach:
            from .sym import ret_values
            rets = [(v, bb) for v, bb in ret_values(body) if bb in reach]
            has_return = any(body.blocks[x].term.kind == 'return' for x in reach)

            def errlike(v):
                v = peel(v)
                if not isinstance(v, tuple) or not v:
                    return False
                if v[0] == 'agg' and v[1] == 'adt' and (v[2].endswith('Result::Err') or v[2].endswith('Option::None')):
                    return True
                return v[0] == 'call' and last_seg(v[1]) == 'from_residual'
            res = (not has_return) or (bool(rets) and all(errlike(v) for v, bb in rets))
    cache[key] = res
    return res


def _conds_between(body, outer_bb, bb, skip_next=()):
    """guards that hold at bb but not at outer_bb, as cond pairs; variant guards become (('is', tree, names), True).
    Exit conditions of loops that were left before bb are facts, not choices, and are dropped."""
    from .sym import guards_at, guard_variants
    base = {(g.block, g.target) for g in guards_at(body, outer_bb)}
    skip = [nosite(sym(body, nt.dest)) for nt in skip_next]
    loops = cfg.loops(body)
    out = []
    for g in guards_at(body, bb):
        if (g.block, g.target) in base:
            continue
        if any(g.block in l.blocks and g.target not in l.blocks and bb not in l.blocks for l in loops):
            continue
        if abort_guard(body, g):
            continue
        r = guard_variants(body, g)
        if r is not None:
            if nosite(r[0]) in skip:
                continue
            out.append((('is', nosite(r[0]), tuple(sorted(r[1]))), True))
            continue
        t, p = g.atom()
        if p is None:
            continue
        out.append((nosite(t), p))
    return out


def seq_of_var(facts, body, local):
    from .alts import expand
    whole, partial = defs_of(body, local)
    if len(whole) != 1:
        return None
    d = whole[0]
    z = symbolizer(body)
    init = simplify(z.rvalue(d.rv, 0, (local,)) if hasattr(d, 'rv') else z.call(d, 0, (local,)))
    ic = peel(init)
    init_bb = d.bb
    segs = []
    if ic[0] == 'call' and EMPTY.search(ic[1]):
        pass
    else:
        el = _vec_macro_elems(body, init) if (d.span.get('mac') == 'vec' or 'vec' in (d.span.get('macs') or '')) else None
        if el is not None:
            segs += [Seg('one', elem=e, body=body) for e in el]
        else:
            s0 = seq_of(facts, body, init, _novar=local)
            if s0 is None:
                return None
            segs += s0
    writers = []
    for t in body.terms('call'):
        if not t.args or t.bb not in body.reachable:
            continue
        r = core(sym(body, t.args[0]))
        if not (r[0] == 'var' and len(r) > 2 and r[2] == local):
            continue
        n = t.callee_res() or ''
        if APPEND.search(n):
            writers.append((t, 'append'))
        elif MUTATE.search(n):
            writers.append((t, 'mutate'))
    all_loops = cfg.loops(body)

    def order(items, keyf):
        def cmpw(x, y):
            a, b = keyf(x), keyf(y)
            if a == b:
                return 0
            if cfg.dominates(body, a, b):
                return -1
            if cfg.dominates(body, b, a):
                return 1
            return -1 if a < b else 1
        return sorted(items, key=functools.cmp_to_key(cmpw))

    def apply_items(conds, nest):
        for lp, nx, lvl in nest:
            if nx is not None:
                f = item_subst_fn(body, nx, lvl)
                conds = [(subst(c, f), p) for c, p in conds]
        return conds

    def items(tree, nest):
        tree = nosite(tree)
        for lp, nx, lvl in nest:
            if nx is not None:
                tree = subst(tree, item_subst_fn(body, nx, lvl))
        return tree

    def direct(t, k, scope_entry, nest, level):
        n = last_seg(t.callee_res() or '')
        if k == 'mutate':
            return [Seg('opaque', what=n, term=t, body=body)]
        skip = [nx for lp, nx, lvl in nest if nx is not None]
        conds = apply_items(_conds_between(body, scope_entry, t.bb, skip), nest)
        args = [sym(body, a) for a in t.args[1:]]
        if n in ('push', 'push_back', 'push_str', 'insert'):
            val = items(expand(facts, body, nosite(args[-1])), nest)
            s = Seg('one', elem=val, conds=conds, term=t, body=body, level=level)
            if n == 'insert':
                s.what = 'insert'
            return [s]
        if n in ('extend', 'extend_from_slice', 'append'):
            x = seq_of_iter(facts, body, args[0], level)
            if x is None:
                return [Seg('opaque', what=n, term=t, body=body)]
            out = []
            for s in x:
                s = s.copy()
                for lp, nx, lvl in nest:
                    if nx is not None:
                        s.map(item_subst_fn(body, nx, lvl))
                s.conds = conds + s.conds
                s.term = t
                out.append(s)
            return out
        if n == 'resize':
            # v.resize(new_len, x) appends x (new_len - current_len) times when new_len is `v.len() + k` (growth): the length read
            # that feeds new_len is located (slice_calls) and the appends between that read and the resize are subtracted
            from .sym import slice_calls
            reads = [r for r in slice_calls(body, t.args[1], r'(Vec|String|VecDeque)::len$')
                     if core(sym(body, r.args[0]))[0] == 'var' and core(sym(body, r.args[0]))[2] == local]
            if len(reads) == 1:
                r = reads[0]
                between = [w for w, k2 in writers if k2 == 'append' and w is not t and cfg.dominates(body, r.bb, w.bb) and w.bb != r.bb and
                           cfg.dominates(body, w.bb, t.bb) and w.bb != t.bb]
                cnt = ('bin', 'Sub', items(args[0], nest), items(sym(body, r.dest), nest))
                ok = True
                for w in between:
                    wn = last_seg(w.callee_res() or '')
                    wa = [sym(body, a) for a in w.args[1:]]
                    if wn in ('push', 'push_back'):
                        c = ('const', '1_usize', 1)
                    elif wn == 'resize':
                        sub = direct(w, 'append', scope_entry, nest, level)
                        c = sub[0].count if sub and sub[0].kind == 'repeat' else None
                    elif wn in ('extend', 'extend_from_slice', 'append'):
                        xs = seq_of_iter(facts, body, wa[0], level)
                        c = None
                        if xs is not None and len(xs) == 1:
                            c = xs[0].count if xs[0].kind == 'repeat' else (('call', 'len', (items(xs[0].src, nest),)) if xs[0].kind == 'each' and not xs[0].conds else None)
                    else:
                        c = None
                    if c is None:
                        ok = False
                        break
                    cnt = ('bin', 'Sub', cnt, items(c, nest))
                if ok:
                    return [Seg('repeat', elem=items(args[1], nest), count=cnt, conds=conds, term=t, body=body, level=level)]
            # v.resize(n, x) on a vector that is still empty (created empty, this is the first writer and it is not in a loop): x repeated n times
            others = [w for w, k2 in writers if w is not t]
            if ic[0] == 'call' and EMPTY.search(ic[1]) and not nest and cfg.innermost_loop(body, t.bb) is None and \
                    all(cfg.dominates(body, t.bb, w.bb) and w.bb != t.bb for w in others):
                return [Seg('repeat', elem=items(args[1], nest), count=items(args[0], nest), conds=conds, term=t, body=body, level=level)]
            return [Seg('opaque', what='resize', term=t, body=body, count=items(args[0], nest), elem=items(args[1], nest), conds=conds)]
        return [Seg('opaque', what=n, term=t, body=body)]

    def build(ws, scope_entry, nest, level):
        """ws: writers inside the current scope; nest: [(loop, next_term, level)] of the enclosing loops"""
        groups = []   # (region block, loop or None, [writers])
        for t, k in ws:
            if nest:
                ls = [l for l in all_loops if t.bb in l.blocks and l.blocks < nest[-1][0].blocks]
            else:
                ls = [l for l in all_loops if t.bb in l.blocks and init_bb not in l.blocks]
            ls.sort(key=lambda l: -len(l.blocks))
            top = ls[0] if ls else None
            if top is not None:
                for g in groups:
                    if g[1] is not None and g[1].header == top.header:
                        g[2].append((t, k))
                        break
                else:
                    groups.append((top.header, top, [(t, k)]))
            else:
                groups.append((t.bb, None, [(t, k)]))
        out = []
        for reg, lp, members in order(groups, lambda g: g[0]):
            if lp is None:
                for t, k in members:
                    if k == 'mutate' and not nest and re.match(r'sort(_unstable)?(_by|_by_key|_by_cached_key)?$', last_seg(t.callee_res() or '')):
                        # everything written so far, rearranged by an in-place sort: one 'sorted' segment wrapping it (consumers that do
                        # not know the kind treat it as opaque)
                        out = [Seg('sorted', inner=list(segs) + out, what=last_seg(t.callee_res() or ''), term=t, body=body)]
                        segs[:] = []
                        continue
                    out += direct(t, k, scope_entry, nest, level)
                continue
            nx = next_call_of(body, lp)
            if nx is not None:
                def allitems(n, nest=nest):
                    for lp_, nx_, lvl_ in nest:
                        if nx_ is not None:
                            r = item_subst_fn(body, nx_, lvl_)(n)
                            if r is not None:
                                return r
                    return None
                srcs = seq_of_iter(facts, body, iter_init(body, sym(body, nx.args[0]), allitems), level)
            else:
                srcs = [Seg('each', src=('loop', lp.header), body=body, level=level)]
            inner = build(members, lp.header, nest + [(lp, nx, level)], level + 1)
            if srcs is None:
                out.append(Seg('opaque', what='loop over an unrecognised source', term=members[0][0], body=body))
                continue
            oc = apply_items(_conds_between(body, scope_entry, lp.header, [n_ for l_, n_, v_ in nest if n_ is not None]), nest)
            for s in srcs:
                if s.kind != 'each':
                    out.append(Seg('opaque', what='loop over a composite source', term=members[0][0], body=body))
                    continue
                e0 = s.elem
                ins = [i.copy() for i in inner]
                if e0 != item(level):
                    for i in ins:
                        i.map(lambda m, e0=e0, lv=level: e0 if m == item(lv) else None)
                src = s.src
                if len(ins) == 1 and ins[0].kind == 'one' and ins[0].what is None:
                    r = Seg('each', src=src, elem=ins[0].elem, conds=oc + s.conds + ins[0].conds, term=ins[0].term, body=body, level=level)
                else:
                    # conditions shared by every inner segment guard the whole iteration: hoist them
                    common = [c for c in (ins[0].conds if ins else []) if all(c in i.conds for i in ins)]
                    for i in ins:
                        i.conds = [c for c in i.conds if c not in common]
                    r = Seg('nest', src=src, conds=oc + s.conds + common, inner=ins, term=members[0][0], body=body, level=level)
                r.loop = lp
                out.append(r)
        return out

    return segs + build(writers, init_bb, [], 0)


def seq_of(facts, body, tree, _novar=None, level=0):
    """SEQ normal form of the collection denoted by `tree` in `body`"""
    t = peel(tree)
    uz = _unzip_half(facts, body, t, level)
    if uz is not False:
        return uz
    if isinstance(t, tuple) and t and t[0] == 'unwrap':
        # the success payload of a Result / Option: `x?`, `x.unwrap()`; when x is a local set to Ok(v) on one branch and to
        # errors on the others (the shape of a fallible helper), the collection is v
        x = peel(t[1])
        if isinstance(x, tuple) and x and x[0] == 'agg' and x[1] == 'adt' and (x[2].endswith('Result::Ok') or x[2].endswith('Option::Some')):
            return seq_of(facts, body, x[3][0], _novar, level)
        if isinstance(x, tuple) and x and ((x[0] == 'var' and len(x) > 2) or x[0] == 'phi'):
            local = x[2] if x[0] == 'var' else x[1]
            whole, partial = defs_of(body, local)
            z = symbolizer(body)
            ok = []
            for d in (whole if not partial else ()):
                v = peel(nosite(simplify(z.rvalue(d.rv, 0, (local,)) if hasattr(d, 'rv') else z.call(d, 0, (local,)))))
                if isinstance(v, tuple) and v and v[0] == 'agg' and v[1] == 'adt' and (v[2].endswith('Result::Ok') or v[2].endswith('Option::Some')):
                    ok.append(v[3][0])
                elif isinstance(v, tuple) and v and ((v[0] == 'agg' and v[1] == 'adt' and (v[2].endswith('Result::Err') or v[2].endswith('Option::None')))
                                                     or (v[0] == 'call' and last_seg(v[1]) == 'from_residual')):
                    continue
                else:
                    ok = None
                    break
            if ok is not None and len(ok) == 1:
                return seq_of(facts, body, ok[0], _novar, level)
        return seq_of(facts, body, t[1], _novar, level)
    if isinstance(t, tuple) and t and t[0] == 'var' and len(t) > 2 and t[2] != _novar:
        return seq_of_var(facts, body, t[2])
    if isinstance(t, tuple) and t and t[0] == 'call' and t[2]:
        n = last_seg(t[1])
        if n in ('collect', 'from_iter', 'collect_vec', 'join', 'concat'):
            return seq_of_iter(facts, body, t[2][0], level)
        if n in ('to_vec', 'to_owned', 'clone', 'into_vec', 'to_string', 'into', 'from'):
            return seq_of(facts, body, t[2][0], _novar, level)
        if n == 'from_elem':
            return seq_of_iter(facts, body, t, level)
    el = _vec_macro_elems(body, tree)
    if el is not None and isinstance(t, tuple) and t and t[0] == 'call' and last_seg(t[1]) in ('into_vec', 'box_assume_init_into_vec_unsafe'):
        return [Seg('one', elem=e, body=body) for e in el]
    return [Seg('each', src=nosite(peel(t)), body=body, level=level)]
