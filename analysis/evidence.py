"""Evidence writer: what this run analysed, measured on the run."""
import json
import os

EXPLANATION = (
    "Static analysis of rustc's MIR for crate text_utils, extracted from /repo's current working tree by a "
    "rustc_private driver under `cargo +nightly check` (no code of the repository is executed). Each rule instance "
    "is a statement over the resolved program -- dominance / must-pass-through in the unwind-free CFG, provenance "
    "(symbolic backward slice) of an operand, resolved callee identity, constants, type bounds -- that is a "
    "necessary condition of the property; it therefore holds for every input, schedule and history at once. "
    "Value-level clauses (round trips, numeric equalities) are NOT decided; see `not_decided`."
)


def write(here, prop, tier, seed, ctx, ran, facts, info, violations, known_hits, wall, selftest):
    from . import propinfo
    insts = ctx.results
    ok = [r for r in insts if r.ok]
    bad = [r for r in insts if not r.ok]
    sites = sorted({(r.rid, r.site) for r in insts})
    samples = []
    for r in insts[:60]:
        samples.append({'rule': r.rid, 'site': r.site, 'function': r.fn, 'verdict': 'ok' if r.ok else 'FAIL',
                        'what': r.msg})
    n_calls = sum(1 for b in facts.bodies for _ in b.terms('call'))
    # blind spots, stated: crate functions reachable (call graph, closures included) from the bodies the rules inspected that no rule inspected
    from .facts import norm_path as _np
    byp = {}
    for b in facts.bodies:
        byp.setdefault(_np(b.path), []).append(b)
    insp = {_np(x) for x in ctx.stats['bodies_inspected']}
    seen, st = set(insp), list(insp)
    while st:
        x = st.pop()
        for b in byp.get(x, []):
            cs = {t.callee_res() for t in b.terms('call')} | {_np(d) for s_, d in b.closures_created()}
            for c in cs:
                if c and c in byp and c not in seen:
                    seen.add(c)
                    st.append(c)
    uninspected = sorted(x for x in seen - insp if '{closure' not in x and byp[x][0].file().startswith('src/') and not byp[x][0].span['exp'])
    cov = {
        'explanation': EXPLANATION,
        'obligations': len(insts),
        'discharged': len(ok),
        'evaluations': len(insts),
        'distinct_nontrivial': len(sites),
        'rule': 'one evaluation per rule instance (rule x anchored construct); distinct = distinct (rule, file:line) '
                'sites; every instance is non-trivial in that it inspects a construct of the anchored code '
                '(a rule that finds no instance fails closed on the baseline sources; on rewritten sources it is listed under `undecided`)',
        'samples': samples,
        'rules': [{'id': rd.rid, 'template': rd.template, 'statement': rd.desc, 'tier': rd.tier,
                   'instances': sum(1 for r in insts if r.rid == rd.rid),
                   'failed': sum(1 for r in insts if r.rid == rd.rid and not r.ok)} for rd in ran],
        'analysed': {
            'crate': facts.raw.get('crate'),
            'mir_bodies_in_crate': len(facts.bodies),
            'call_sites_in_crate': n_calls,
            'bodies_inspected_by_rules': sorted(ctx.stats['bodies_inspected']),
            'n_bodies_inspected': len(ctx.stats['bodies_inspected']),
            'reachable_functions_not_inspected': uninspected,
            'source_hash': info.get('source_hash'),
            'facts_cached': info.get('cached'),
            'extract_s': info.get('extract_s'),
        },
        'known_findings_hit': known_hits,
        'undecided': [{'rule': r.rid, 'reason': r.msg, 'changed_sources': r.details.get('changed_sources', [])}
                      for r in getattr(ctx, 'undecided', [])],
        'not_decided': propinfo.NOT_DECIDED.get(prop, []),
        'notes': ctx.notes,
        'checker_cmd': './check %s --tier %s' % (prop, tier),
        'trusted_base': [
            'rustc 1.97.0-nightly front end, type checker and MIR construction (mir-opt-level=0, overflow checks on)',
            '/verif/driver (MIR -> JSON, callee resolution via Instance::try_resolve)',
            '/verif/analysis (CFG, dominators, symbolic slices) and the rule modules under /verif/rules',
            'documented semantics of std / itertools / rand items named by the rules',
        ],
        'exhaustive': False,
    }
    if selftest is not None:
        cov['selftest'] = {k: v for k, v in selftest.items() if k != 'lines'}
    ev = {
        'property_id': prop,
        'tier': 'thorough' if tier == 'thorough' else 'quick',
        'seed': seed,
        'level': 'other',
        'coverage': cov,
        'assumptions': propinfo.ASSUMPTIONS.get(prop, []) + [
            'the rules are necessary conditions of the property, not a proof of its value-level clauses',
            'cfg(test) code and benches are not analysed',
        ],
        'wall_s': round(wall, 2),
        'violations': violations,
    }
    os.makedirs(os.path.join(here, 'evidence'), exist_ok=True)
    tmp = os.path.join(here, 'evidence', '%s.json.tmp' % prop)
    with open(tmp, 'w') as f:
        json.dump(ev, f, indent=1, default=str)
    os.replace(tmp, os.path.join(here, 'evidence', '%s.json' % prop))
