"""Symbolic value trees over MIR facts.

sym(body, operand_or_place) resolves an operand backwards through single-definition
temporaries to a tree over parameters, captured variables, constants, fields, calls
and operators. References and dereferences are transparent (value view).

Node forms (tuples):
  ('const', disp, int|None)      ('arg', i, name)          ('upvar', i, name)
  ('var', name, local)           ('phi', local)            ('field', base, name|idx)
  ('index', base, idx)           ('variant', base, vname)  ('bin', op, a, b)
  ('un', op, a)                  ('cast', a, ty)           ('call', fname, (args..), bb)
  ('agg', kind, name, (ops..))   ('discr', base)           ('unwrap', x)
  ('fn', name)                   ('unknown', text)
"""
import re
from .facts import Place, Operand, norm_path
from . import cfg

MAXD = 48

CHECKED = {'AddWithOverflow': 'Add', 'SubWithOverflow': 'Sub', 'MulWithOverflow': 'Mul',
           'AddUnchecked': 'Add', 'SubUnchecked': 'Sub', 'MulUnchecked': 'Mul'}


def _defs(body):
    if hasattr(body, '_defs'):
        return body._defs
    whole = {}
    partial = {}
    for b in body.blocks:
        if b.cleanup or b.idx not in body.reachable:
            continue
        for s in b.stmts:
            if s.lhs is None:
                continue
            if s.lhs.is_local():
                whole.setdefault(s.lhs.local, []).append(s)
            elif s.lhs.proj[0] != '*':
                # a store through a pointer held in the local does not redefine the local
                partial.setdefault(s.lhs.local, []).append(s)
        t = b.term
        if t.kind == 'call' and t.dest is not None:
            if t.dest.is_local():
                whole.setdefault(t.dest.local, []).append(t)
            elif t.dest.proj[0] != '*':
                partial.setdefault(t.dest.local, []).append(t)
    # locals that are mutably borrowed as a whole (`&mut x`): their value changes behind the definition
    mutb = set()
    for b in body.blocks:
        if b.cleanup or b.idx not in body.reachable:
            continue
        for s in b.stmts:
            if s.kind == 'assign' and s.rv.kind in ('ref', 'rawptr') and s.rv.raw.get('mut', s.rv.kind == 'rawptr') \
                    and s.rv.place is not None and (not s.rv.place.proj or s.rv.place.proj[0] != '*'):
                mutb.add(s.rv.place.local)
    body._mutborrowed = mutb
    body._defs = (whole, partial)
    return body._defs


def defs_of(body, local):
    w, p = _defs(body)
    return w.get(local, []), p.get(local, [])


def _upvar_name(body, idx):
    """name of captured variable #idx of a closure body (from debug info)"""
    for v in body.vars:
        if 'pl' not in v:
            continue
        pl = v['pl']
        if pl['l'] != 1:
            continue
        projs = [p for p in pl['p'] if p != '*']
        if projs and isinstance(projs[0], dict) and projs[0].get('f') == idx and len(projs) == 1:
            return v['name']
    return ''


class Symbolizer:
    def __init__(self, body):
        self.body = body
        self.is_closure = body.kind == 'Closure'
        self.cache = {}
        self.cuts = 0

    # ------------------------------------------------------------------
    def local(self, l, depth=0, stack=()):
        body = self.body
        if l in stack or depth > MAXD:
            self.cuts += 1
            return ('phi', l)
        if 1 <= l <= body.arg_count:
            name = body.var_name(l) or ''
            if self.is_closure and l == 1:
                return ('env',)
            return ('arg', l, name)
        whole, partial = defs_of(body, l)
        name = body.var_name(l)
        if name and l in body._mutborrowed:
            # mutable state (Vec being pushed to, rng, ...): a name, not a value
            return ('var', name, l)
        if len(whole) == 1 and not partial:
            key = l
            if key in self.cache:
                return self.cache[key]
            d = whole[0]
            cuts0 = self.cuts
            if hasattr(d, 'rv'):
                r = self.rvalue(d.rv, depth + 1, stack + (l,), d)
            else:
                r = self.call(d, depth + 1, stack + (l,))
            if self.cuts == cuts0:
                # only context-independent expansions are cached
                self.cache[key] = r
            return r
        if name:
            return ('var', name, l)
        if not whole and not partial:
            return ('uninit', l)
        return ('phi', l)

    def place(self, pl, depth=0, stack=()):
        base = self.local(pl.local, depth, stack)
        for p in pl.fields():
            if p == '*':
                continue
            k = p[0]
            if k == 'f':
                if base == ('env',):
                    base = ('upvar', p[1], _upvar_name(self.body, p[1]))
                elif base[0] == 'agg' and base[1] in ('tuple', 'adt', 'closure') and p[1] < len(base[3]) and \
                        not (base[1] == 'adt' and False):
                    base = base[3][p[1]]
                else:
                    base = ('field', base, p[2] if (p[2] and not p[2].isdigit()) else p[1])
            elif k == 'idx':
                base = ('index', base, self.local(p[1], depth + 1, stack))
            elif k == 'dc':
                base = ('variant', base, p[2] if p[2] else p[1])
            elif k == 'cidx':
                base = ('index', base, ('const', str(p[1]), p[1]))
            else:
                base = ('field', base, '?')
        return base

    def operand(self, op, depth=0, stack=()):
        if isinstance(op, Place):
            return self.place(op, depth, stack)
        if op.kind == 'const':
            c = op.const
            if 'fn' in c:
                return ('fn', norm_path(c.get('res', c['fn'])))
            if 'static' in c:
                return ('static', c['static'])
            if c.get('promoted') is not None and depth < MAXD:
                pb = self.body.facts.by_path.get('%s::promoted[%d]' % (c['uneval'], c['promoted']))
                if pb and len(pb) == 1:
                    rv = ret_values(pb[0])
                    if len(rv) == 1 and not contains(rv[0][0], lambda x: isinstance(x, tuple) and x and x[0] in ('phi', 'var', 'arg')):
                        return rv[0][0]
            iv = int(c['int']) if 'int' in c else None
            return ('const', c['disp'], iv)
        if op.place is not None:
            return self.place(op.place, depth, stack)
        return ('unknown', op.raw.get('dbg', ''))

    def rvalue(self, rv, depth, stack, stmt=None):
        k = rv.kind
        if k == 'use' or k == 'repeat':
            return self.operand(rv.ops[0], depth, stack)
        if k in ('ref', 'rawptr', 'copy_for_deref'):
            return self.place(rv.place, depth, stack)
        if k == 'cast':
            inner = self.operand(rv.ops[0], depth, stack)
            kind = rv.raw['kind']
            if kind.startswith('PointerCoercion') or kind in ('PtrToPtr', 'Transmute'):
                return inner
            return ('cast', inner, rv.ty)
        if k == 'binop':
            op = CHECKED.get(rv.op, rv.op)
            return ('bin', op, self.operand(rv.ops[0], depth, stack), self.operand(rv.ops[1], depth, stack))
        if k == 'unop':
            return ('un', rv.op, self.operand(rv.ops[0], depth, stack))
        if k == 'discr':
            return ('discr', self.place(rv.place, depth, stack), rv.raw.get('of', ''))
        if k == 'agg':
            a = rv.agg
            ops = tuple(self.operand(o, depth, stack) for o in rv.ops)
            if a == 'adt':
                return ('agg', 'adt', rv.raw['adt'] + '::' + rv.raw['vname'], ops)
            if a == 'closure':
                return ('agg', 'closure', rv.raw['def'], ops)
            return ('agg', a, '', ops)
        return ('unknown', k)

    def call(self, t, depth=0, stack=()):
        name = t.callee_res()
        args = tuple(self.operand(a, depth, stack) for a in t.args)
        if name is not None and name.endswith('box_assume_init_into_vec_unsafe'):
            # `vec![a, b]` lowers to Box::new_uninit + a store of the array through the box pointer + this call: the elements are not
            # in the value flow of the argument, so the array written in the same block stands for it
            bb_, hops, found = t.bb, 0, False
            while not found and hops < 4:
                for s in reversed(self.body.blocks[bb_].stmts):
                    if s.kind == 'assign' and s.lhs.proj and isinstance(getattr(s.rv, 'raw', None), dict) and s.rv.raw.get('k') == 'agg' and s.rv.raw.get('agg') == 'array':
                        try:
                            args = (self.rvalue(s.rv, depth, stack),)
                        except Exception:
                            pass
                        found = True
                        break
                # the store may sit in the block before the call (an alignment assertion of the box pointer in between)
                pr = [p_ for p_ in self.body.pred[bb_] if not self.body.blocks[p_].cleanup]
                if found or len(pr) != 1:
                    break
                bb_, hops = pr[0], hops + 1
        if name is None:
            # indirect call through a value
            return ('call', '<indirect>', (self.operand(t.func, depth, stack),) + args, t.bb)
        return ('call', name, args, t.bb)

    def __call__(self, x):
        if isinstance(x, (Place, Operand)):
            return self.operand(x)
        raise TypeError(x)


def symbolizer(body):
    if not hasattr(body, '_symz'):
        body._symz = Symbolizer(body)
    return body._symz


def sym(body, x):
    r = symbolizer(body)(x)
    return simplify(r)


# ---------------------------------------------------------------------------
# normalisation helpers

IDENTITY_CALLS = (
    'clone', 'cloned', 'copied', 'deref', 'deref_mut', 'as_ref', 'as_mut', 'as_slice', 'as_str',
    'borrow', 'borrow_mut', 'into', 'to_owned', 'as_mut_slice', 'into_iter', 'iter', 'iter_mut', 'by_ref',
    'to_vec', 'as_bytes', 'to_string',
)

UNWRAP_CALLS = ('std::option::Option::unwrap', 'std::option::Option::expect', 'std::result::Result::unwrap',
                'std::result::Result::expect', 'std::option::Option::unwrap_unchecked')


ARITH_CALLS = {'add': 'Add', 'sub': 'Sub', 'mul': 'Mul', 'div': 'Div', 'rem': 'Rem'}
CMP_CALLS = {'eq': 'Eq', 'ne': 'Ne', 'lt': 'Lt', 'le': 'Le', 'gt': 'Gt', 'ge': 'Ge'}


def last_seg(name):
    return name.rsplit('::', 1)[-1]


_INT_BITS = {'u8': 8, 'u16': 16, 'u32': 32, 'u64': 64, 'u128': 128, 'usize': 64, 'i8': 8, 'i16': 16, 'i32': 32, 'i64': 64, 'i128': 128, 'isize': 64}
_NAMED_INT_CONST = re.compile(r'(?:core|std)::num::<impl (u8|u16|u32|u64|u128|usize|i8|i16|i32|i64|i128|isize)>::(MAX|MIN|BITS)$')
_INT_FROM = re.compile(r'<(u8|u16|u32|u64|u128|usize|i16|i32|i64|i128|isize) as std::convert::(From|Into)<(u8|u16|u32|u64|u128|usize|i8|i16|i32|i64|i128|isize)>>::(from|into)$|(?:core|std)::num::(?:<impl [^>]+>::)?from$|convert::num::(?:<impl [^>]+>::)?(from|into)$|^num::from$')


def _int_const(t):
    """integer value of a constant node, including the named limits of the primitive integer types (`u8::MAX`)"""
    if not (isinstance(t, tuple) and t and t[0] == 'const'):
        return None
    if len(t) > 2 and isinstance(t[2], int) and not isinstance(t[2], bool) and not ('true' in str(t[1]) or 'false' in str(t[1])):
        return t[2]
    m = _NAMED_INT_CONST.search(str(t[1]))
    if m:
        ty, what = m.group(1), m.group(2)
        bits = _INT_BITS[ty]
        signed = ty.startswith('i')
        if what == 'BITS':
            return bits
        if what == 'MAX':
            return (1 << (bits - 1)) - 1 if signed else (1 << bits) - 1
        return -(1 << (bits - 1)) if signed else 0
    return None


def _fold(t):
    """constant folding of integer arithmetic and lossless integer conversions over constants (`usize::from(u8::MAX) + 1` is 256)"""
    if not isinstance(t, tuple) or not t:
        return t
    if t[0] == 'const':
        v = _int_const(t)
        if v is not None and not (len(t) > 2 and t[2] == v):
            return ('const', str(v), v)
        return t
    if t[0] == 'bin' and t[1] in ('Add', 'Sub', 'Mul') and len(t) == 4:
        fa, fb = _fold(t[2]), _fold(t[3])
        a, b = _int_const(fa), _int_const(fb)
        if a is not None and b is not None:
            v = a + b if t[1] == 'Add' else (a - b if t[1] == 'Sub' else a * b)
            if v >= 0:
                return ('const', str(v), v)
        if fa is not t[2] or fb is not t[3]:
            return ('bin', t[1], fa, fb)
        return t
    if t[0] == 'call' and len(t[2]) == 1 and (_INT_FROM.search(t[1]) or (last_seg(t[1]) in ('from', 'into') and re.search(r'\b(u8|u16|u32|u64|usize)\b', t[1]) and 'convert' in t[1])):
        v = _int_const(_fold(t[2][0]))
        if v is not None:
            return ('const', str(v), v)
    if t[0] == 'cast' and len(t) > 2:
        v = _int_const(_fold(t[1]))
        if v is not None and isinstance(t[2], str) and t[2] in _INT_BITS and 0 <= v < (1 << _INT_BITS[t[2]]):
            return ('const', str(v), v)
    return t


def simplify(t):
    """structural normalisation: Index::index calls -> ('index'), checked-op tuple field 0 -> the op,
    Try::branch payload / Some / Ok downcasts and unwrap calls -> ('unwrap', x)"""
    return _fold(_simplify(t))


def _simplify(t):
    if not isinstance(t, tuple) or not t:
        return t
    k = t[0]
    if k == 'field':
        base = simplify(t[1])
        f = t[2]
        if base[0] == 'bin' and f in (0, '0'):
            return base
        if base[0] == 'const' and f in (0, '0') and isinstance(t[1], tuple) and t[1] and t[1][0] == 'bin':
            return base      # the value component of a checked operation that folded to a constant
        if isinstance(f, int):
            # a component of a tuple that is written out: `(a, b).0` is a (also through the reference a closure pattern `&(a, _)` adds)
            tb = base
            while isinstance(tb, tuple) and tb and tb[0] in ('ref', 'deref', 'copy', 'move') and len(tb) > 1 and isinstance(tb[1], tuple):
                tb = tb[1]
            if isinstance(tb, tuple) and tb and tb[0] == 'agg' and tb[1] == 'tuple' and f < len(tb[3]):
                return tb[3][f]
        if base[0] == 'variant':
            vb, vn = base[1], base[2]
            if vn in ('Some', 'Ok', 'Continue') and f in (0, '0'):
                if vb[0] == 'call' and vb[1].endswith('Try>::branch') or (vb[0] == 'call' and last_seg(vb[1]) == 'branch'):
                    return ('unwrap', vb[2][0])
                return ('unwrap', vb)
        return ('field', base, f)
    if k == 'call':
        name = t[1]
        args = tuple(simplify(a) for a in t[2])
        ls = last_seg(name)
        if ls in ('index', 'index_mut') and ('Index>' in name or 'IndexMut>' in name) and len(args) == 2:
            return ('index', args[0], args[1])
        if name in UNWRAP_CALLS and args:
            return ('unwrap', args[0])
        if ls in ARITH_CALLS and len(args) == 2 and 'std::ops::' in name and 'String' not in name:
            return ('bin', ARITH_CALLS[ls], args[0], args[1])
        if ls == 'not' and len(args) == 1 and 'std::ops::Not' in name:
            return ('un', 'Not', args[0])
        if ls in CMP_CALLS and len(args) == 2 and ('PartialEq' in name or 'PartialOrd' in name or 'cmp::' in name or 'partial_eq' in name):
            return ('bin', CMP_CALLS[ls], args[0], args[1])
        if name in ('std::cmp::max', 'core::cmp::max', 'std::cmp::min', 'core::cmp::min'):
            # the free functions are the Ord methods
            name = 'std::cmp::Ord::' + ls
        return ('call', name, args) + t[3:]
    if k == 'index':
        return ('index', simplify(t[1]), simplify(t[2]))
    if k == 'variant':
        return ('variant', simplify(t[1]), t[2])
    if k == 'bin':
        return ('bin', t[1], simplify(t[2]), simplify(t[3]))
    if k == 'un':
        return ('un', t[1], simplify(t[2]))
    if k == 'cast':
        return ('cast', simplify(t[1]), t[2])
    if k == 'agg':
        return ('agg', t[1], t[2], tuple(simplify(a) for a in t[3]))
    if k == 'discr':
        return ('discr', simplify(t[1])) + t[2:]
    if k == 'unwrap':
        return ('unwrap', simplify(t[1]))
    return t


def peel(t, casts=True, identity=True, unwrap=False):
    """strip casts / identity-like calls (clone, deref, into, ...) from the top of a tree"""
    while True:
        if casts and t[0] == 'cast':
            t = t[1]
            continue
        if identity and t[0] == 'call' and last_seg(t[1]) in IDENTITY_CALLS and len(t[2]) >= 1:
            t = t[2][0]
            continue
        if identity and t[0] == 'call' and last_seg(t[1]) in ('from', 'try_from') and len(t[2]) == 1:
            t = t[2][0]
            continue
        if unwrap and t[0] == 'unwrap':
            t = t[1]
            # payload of a literal Some(..) / Ok(..)
            if isinstance(t, tuple) and t and t[0] == 'agg' and t[1] == 'adt' and len(t[3]) == 1 and \
                    (t[2].endswith('Option::Some') or t[2].endswith('Result::Ok')):
                t = t[3][0]
            continue
        if unwrap and t[0] == 'call' and last_seg(t[1]) in ('ok', 'unwrap_or_default') and len(t[2]) == 1:
            t = t[2][0]
            continue
        return t


def deep_peel(t, **kw):
    t = peel(t, **kw)
    if not isinstance(t, tuple):
        return t
    k = t[0]
    if k in ('field',):
        return ('field', deep_peel(t[1], **kw), t[2])
    if k == 'index':
        return ('index', deep_peel(t[1], **kw), deep_peel(t[2], **kw))
    if k == 'variant':
        return ('variant', deep_peel(t[1], **kw), t[2])
    if k == 'bin':
        return ('bin', t[1], deep_peel(t[2], **kw), deep_peel(t[3], **kw))
    if k == 'un':
        return ('un', t[1], deep_peel(t[2], **kw))
    if k == 'call':
        return ('call', t[1], tuple(deep_peel(a, **kw) for a in t[2])) + t[3:]
    if k == 'agg':
        return ('agg', t[1], t[2], tuple(deep_peel(a, **kw) for a in t[3]))
    if k == 'discr':
        return ('discr', deep_peel(t[1], **kw)) + t[2:]
    if k == 'unwrap':
        return ('unwrap', deep_peel(t[1], **kw))
    if k == 'cast':
        return ('cast', deep_peel(t[1], **kw), t[2])
    return t


def nosite(t):
    """drop call-site block numbers so that two trees can be compared structurally"""
    if not isinstance(t, tuple):
        return t
    if t and t[0] == 'call':
        return ('call', t[1], tuple(nosite(a) for a in t[2]))
    if t and t[0] == 'var':
        return t
    return tuple(nosite(x) if isinstance(x, tuple) else x for x in t)


def walk(t):
    """all subtrees (untagged tuples -- argument lists, the alternatives of a 'choice' node -- are walked element-wise)"""
    yield t
    if isinstance(t, tuple):
        items = t[1:] if (t and isinstance(t[0], str)) else t
        for x in items:
            if isinstance(x, tuple):
                if x and isinstance(x[0], str):
                    yield from walk(x)
                else:
                    for y in x:
                        if isinstance(y, tuple):
                            yield from walk(y)


def contains(t, pred):
    for s in walk(t):
        if pred(s):
            return True
    return False


def calls_in(t):
    return [s for s in walk(t) if isinstance(s, tuple) and s and s[0] == 'call']


def show(t):
    if not isinstance(t, tuple) or not t:
        return str(t)
    k = t[0]
    if k == 'const':
        return t[1].replace('const ', '')
    if k == 'arg':
        return t[2] or 'arg%d' % t[1]
    if k == 'upvar':
        return t[2] or 'upvar%d' % t[1]
    if k == 'var':
        return t[1]
    if k == 'phi':
        return 'tmp%d' % t[1]
    if k == 'item':
        return '$item' + (str(t[1]) if len(t) > 1 and t[1] else '')
    if k == 'is':
        return '%s is %s' % (show(t[1]), '|'.join(t[2]))
    if k == 'choice':
        return 'choice(%s)' % ' | '.join(show(x[0]) for x in t[1])
    if k == 'field':
        return '%s.%s' % (show(t[1]), t[2])
    if k == 'index':
        return '%s[%s]' % (show(t[1]), show(t[2]))
    if k == 'variant':
        return '(%s as %s)' % (show(t[1]), t[2])
    if k == 'bin':
        return '%s(%s, %s)' % (t[1], show(t[2]), show(t[3]))
    if k == 'un':
        return '%s(%s)' % (t[1], show(t[2]))
    if k == 'cast':
        return '(%s as %s)' % (show(t[1]), t[2])
    if k == 'call':
        return '%s(%s)' % (short(t[1]), ', '.join(show(a) for a in t[2]))
    if k == 'agg':
        return '%s{%s}' % (short(norm_path(t[2])) if t[2] else t[1], ', '.join(show(a) for a in t[3]))
    if k == 'discr':
        return 'discr(%s)' % show(t[1])
    if k == 'unwrap':
        return 'unwrap(%s)' % show(t[1])
    if k == 'fn':
        return 'fn ' + short(t[1])
    if k == 'static':
        return 'static ' + t[1]
    if k == 'env':
        return 'env'
    return str(t)


def _names(body):
    if hasattr(body, '_names'):
        return body._names
    z = symbolizer(body)
    m = {}
    for v in body.vars:
        if 'pl' in v and not v['pl']['p']:
            l = v['pl']['l']
            if l <= body.arg_count:
                continue
            t = simplify(z.local(l))
            if t[0] in ('var', 'phi', 'const', 'arg', 'upvar'):
                continue
            m.setdefault(nosite(t), v['name'])
    body._names = m
    return m


def show_in(body, t, depth=0):
    """like show(), but sub-trees that are the value of a named local print as that name"""
    if not isinstance(t, tuple) or not t:
        return str(t)
    if depth > 0 or t[0] in ('call', 'index', 'unwrap', 'field', 'agg', 'bin'):
        nm = _names(body).get(nosite(t))
        if nm and depth > 0:
            return nm
    if depth > 6:
        return '..'
    k = t[0]
    r = lambda x: show_in(body, x, depth + 1)
    if k == 'field':
        return '%s.%s' % (r(t[1]), t[2])
    if k == 'index':
        return '%s[%s]' % (r(t[1]), r(t[2]))
    if k == 'variant':
        return '(%s as %s)' % (r(t[1]), t[2])
    if k == 'bin':
        return '%s(%s, %s)' % (t[1], r(t[2]), r(t[3]))
    if k == 'un':
        return '%s(%s)' % (t[1], r(t[2]))
    if k == 'cast':
        return '(%s as %s)' % (r(t[1]), t[2])
    if k == 'call':
        return '%s(%s)' % (short(t[1]), ', '.join(r(a) for a in t[2]))
    if k == 'agg':
        return '%s{%s}' % (short(norm_path(t[2])) if t[2] else t[1], ', '.join(r(a) for a in t[3]))
    if k == 'discr':
        return 'discr(%s)' % r(t[1])
    if k == 'unwrap':
        return 'unwrap(%s)' % r(t[1])
    return show(t)


def short(name):
    """last two path segments"""
    if name.startswith('<'):
        # <A as B>::m  ->  A::m via trait B
        try:
            inner, m = name[1:].rsplit('>::', 1)
            a, b = inner.split(' as ', 1)
            return '%s::%s' % (a.rsplit('::', 1)[-1], m)
        except ValueError:
            return name
    segs = name.split('::')
    return '::'.join(segs[-2:])


# ---------------------------------------------------------------------------
# guards


class Guard:
    """The condition attached to a CFG edge out of a SwitchInt: discriminant tree `t`
    takes one of `values` (or, for the otherwise edge, none of `excluded`)."""

    def __init__(self, block, target, t, values, excluded, dty):
        self.block = block
        self.target = target
        self.t = t
        self.values = values
        self.excluded = excluded
        self.dty = dty

    def truth(self):
        """for bool discriminants: True / False / None"""
        if self.dty != 'bool':
            return None
        if self.values is not None:
            if self.values == {0}:
                return False
            if self.values == {1}:
                return True
            return None
        if self.excluded == {0}:
            return True
        if self.excluded == {1}:
            return False
        return None

    def atom(self):
        """(tree, polarity) with Not() pushed into the polarity; polarity None when not boolean"""
        t = self.t
        pol = self.truth()
        while t[0] == 'un' and t[1] == 'Not' and pol is not None:
            t = t[2]
            pol = not pol
        return t, pol

    def __repr__(self):
        t, pol = self.atom()
        if pol is None:
            if self.values is not None:
                return '%s in %s' % (show(t), sorted(self.values))
            return '%s not in %s' % (show(t), sorted(self.excluded))
        return ('' if pol else '!') + show(t)


def edge_guards(body):
    """all guards of the body, one per (switch block, distinct target)"""
    if hasattr(body, '_eguards'):
        return body._eguards
    out = []
    for t in body.terms('switch'):
        st = sym(body, t.discr)
        by_target = {}
        for v, tgt in t.arms:
            by_target.setdefault(tgt, set()).add(v)
        allvals = {v for v, _ in t.arms}
        for tgt, vals in by_target.items():
            if tgt == t.otherwise:
                continue  # mixed: cannot express
            out.append(Guard(t.bb, tgt, st, vals, None, t.raw['dty']))
        if t.otherwise not in by_target and t.otherwise is not None:
            ob = body.blocks[t.otherwise]
            # an otherwise edge to `unreachable` carries no information
            if ob.term.kind != 'unreachable' or ob.stmts:
                out.append(Guard(t.bb, t.otherwise, st, None, allvals, t.raw['dty']))
            else:
                # enum switch with unreachable otherwise: nothing
                pass
    body._eguards = out
    return out


def guards_at(body, b):
    """guards whose edge dominates block b (they hold on every path reaching b)"""
    cache = body.__dict__.setdefault('_gat', {})
    if b in cache:
        return cache[b]
    res = []
    for g in edge_guards(body):
        if g.target not in body.reachable:
            continue
        if cfg.edge_dominates(body, (g.block, g.target), b):
            res.append(g)
    cache[b] = res
    return res


def path_guards(body, bb, limit=2000):
    """guards along every acyclic path entry -> bb: [[Guard, ...], ...] (None when there are more than `limit` paths).
    Unlike guards_at (dominating guards only) this keeps the conditions of arms that were merged by an or-pattern."""
    gmap = {}
    for g in edge_guards(body):
        gmap[(g.block, g.target)] = g
    can = {bb}
    work = [bb]
    while work:
        x = work.pop()
        for p_ in body.pred[x]:
            if p_ not in can and p_ in body.reachable:
                can.add(p_)
                work.append(p_)
    if 0 not in can:
        return []
    out = []
    count = [0]

    def dfs(u, seen, gs):
        if count[0] > limit:
            return
        if u == bb:
            out.append(list(gs))
            count[0] += 1
            return
        for v in body.succ[u]:
            if v in seen or v not in can:
                continue
            g = gmap.get((u, v))
            dfs(v, seen | {v}, gs + [g] if g is not None else gs)
    dfs(0, {0}, [])
    return None if count[0] > limit else out


def switch_enum_variant_names(body, g):
    """for a guard on discr(x): names of the variants selected, using the ADT table"""
    return None


def ret_values(body):
    """trees of every value assigned to the return place, with the defining block"""
    whole, partial = defs_of(body, 0)
    out = []
    z = symbolizer(body)
    for d in whole:
        if hasattr(d, 'rv'):
            out.append((simplify(z.rvalue(d.rv, 0, ())), d.bb))
        else:
            out.append((simplify(z.call(d)), d.bb))
    return out


def args_of(body, term):
    return [sym(body, a) for a in term.args]


_ATOMS_DEPTH = [0]


def atoms_at(body, b):
    """[(tree, polarity, guard)] for boolean guards dominating b, plus discriminant guards with polarity None. A guard on a
    named / temporary boolean that holds a short-circuit conjunction (`let ok = a == x && b == y; if !ok { continue }`) also
    contributes its conjuncts as true atoms."""
    out = []
    for g in guards_at(body, b):
        t, pol = g.atom()
        out.append((t, pol, g))
        if pol is True and isinstance(t, tuple) and t and t[0] in ('phi', 'var') and _ATOMS_DEPTH[0] < 3:
            _ATOMS_DEPTH[0] += 1
            try:
                terms = conj_terms(body, t)
            finally:
                _ATOMS_DEPTH[0] -= 1
            for c in terms or ():
                out.append((c, True, g))
        if pol is True and isinstance(t, tuple) and t and t[0] == 'call' and len(t[2]) == 2 and last_seg(t[1]) in ('is_some_and', 'is_ok_and') and \
                _ATOMS_DEPTH[0] < 3:
            # x.is_some_and(p)  ==>  x is Some  and  p(payload of x)
            _ATOMS_DEPTH[0] += 1
            try:
                from .seq import apply_fn
                x = t[2][0]
                out.append((('call', 'std::option::Option::is_some', (x,)), True, g))
                out.append((nosite(apply_fn(body.facts, t[2][1], (('unwrap', x),))), True, g))
            except Exception:
                pass
            finally:
                _ATOMS_DEPTH[0] -= 1
    return out


NEG = {'Eq': 'Ne', 'Ne': 'Eq', 'Lt': 'Ge', 'Ge': 'Lt', 'Gt': 'Le', 'Le': 'Gt'}
FLIP = {'Eq': 'Eq', 'Ne': 'Ne', 'Lt': 'Gt', 'Gt': 'Lt', 'Le': 'Ge', 'Ge': 'Le'}


def cmp_facts_at(body, b):
    """comparison facts known to hold at block b, normalised to positive form:
    list of (op, lhs, rhs) with op in Eq/Ne/Lt/Le/Gt/Ge"""
    out = []
    for t, pol, g in atoms_at(body, b):
        if pol is None:
            continue
        if t[0] == 'bin' and t[1] in NEG:
            op = t[1] if pol else NEG[t[1]]
            out.append((op, t[2], t[3]))
    return out


def core(t):
    """value core: casts, integer conversions (from/try_from/into), ok()/unwrap/`?` payloads, clones and
    derefs stripped everywhere in the tree -- two trees with equal cores denote the same number"""
    return nosite(deep_peel(t, casts=True, identity=True, unwrap=True))


STD_VARIANTS = {
    'std::option::Option': ['None', 'Some'],
    'std::result::Result': ['Ok', 'Err'],
    'std::ops::ControlFlow': ['Continue', 'Break'],
    'core::ops::ControlFlow': ['Continue', 'Break'],
}


def variant_names(facts, ty):
    """variant name list of an enum type string (local ADT table or the std enums the rules need)"""
    base = norm_path(ty.lstrip('&').replace('mut ', '').strip())
    if base in facts.adts:
        return [v['name'] for v in facts.adts[base]['variants']]
    for k, v in STD_VARIANTS.items():
        if base.startswith(k):
            return v
    return None


def guard_variants(body, g):
    """for a guard on discriminant(x): (tree of x, set of variant names the edge selects) or None"""
    t = g.t
    if t[0] != 'discr' or len(t) < 3:
        return None
    names = variant_names(body.facts, t[2])
    if names is None:
        return None
    if g.values is not None:
        sel = {names[v] for v in g.values if v < len(names)}
    else:
        sel = {n for i, n in enumerate(names) if i not in g.excluded}
    return t[1], sel


def success_of(tree, names):
    """normalise a variant fact about a Result/Option through the wrappers that only rename the variants: `Try::branch(x)` (Continue =
    success), `Result::ok(x)` (Some = Ok), `Result::err(x)`, `Option::ok_or(x, e)`: returns (innermost tree, True for success / False
    for failure) or None when `names` is not a single success/failure variant"""
    names = set(names)
    if names <= {'Ok', 'Some', 'Continue'} and names:
        pol = True
    elif names <= {'Err', 'None', 'Break'} and names:
        pol = False
    else:
        return None
    t = tree
    while True:
        c = nosite(t)
        while isinstance(c, tuple) and c and c[0] in ('ref', 'deref', 'copy', 'move') and len(c) > 1 and isinstance(c[1], tuple):
            c = c[1]
        if isinstance(c, tuple) and c and c[0] == 'call' and c[2]:
            n = c[1].rsplit('::', 1)[-1]
            if n in ('branch', 'ok', 'ok_or', 'ok_or_else', 'as_ref', 'as_mut', 'map_err', 'into_iter') and ('Result' in c[1] or 'Option' in c[1] or 'Try' in c[1]):
                t = c[2][0]
                continue
            if n == 'err' and 'Result' in c[1]:
                t = c[2][0]
                pol = not pol
                continue
        return c, pol


def variant_facts_at(body, b):
    """[(tree, {variant names})] for discriminant guards dominating block b"""
    out = []
    for g in guards_at(body, b):
        r = guard_variants(body, g)
        if r is not None:
            out.append(r)
    return out


def agg_field(facts, t, field):
    """operand tree of the named field of an ADT aggregate literal, or None"""
    if not (isinstance(t, tuple) and t and t[0] == 'agg' and t[1] == 'adt'):
        return None
    path, vname = t[2].rsplit('::', 1)
    adt = facts.adts.get(path)
    if adt is None:
        return None
    for v in adt['variants']:
        if v['name'] == vname:
            for i, f in enumerate(v['fields']):
                if f['name'] == field and i < len(t[3]):
                    return t[3][i]
    return None


def memory_reads(body, x, _seen=None):
    """Statements at which the backward slice of operand/place x reads memory through a projection
    (e.g. `(*_1).idx`): [(stmt_or_term, Place)]. The symbolic tree forgets *when* a mutable field was read;
    rules that depend on the timing of such a read use this."""
    if _seen is None:
        _seen = set()
    out = []
    pl = x if isinstance(x, Place) else x.place
    if pl is None:
        return out
    l = pl.local
    if pl.proj and (1 <= l <= body.arg_count):
        return out  # direct read at the use site itself: caller knows the site
    if l in _seen:
        return out
    _seen.add(l)
    whole, partial = defs_of(body, l)
    for d in whole:
        if hasattr(d, 'rv'):
            rv = d.rv
            if rv.place is not None:
                if rv.place.proj and 1 <= rv.place.local <= body.arg_count:
                    out.append((d, rv.place))
                else:
                    out.extend(memory_reads(body, rv.place, _seen))
            for o in rv.ops:
                if o.place is not None:
                    if o.place.proj and 1 <= o.place.local <= body.arg_count:
                        out.append((d, o.place))
                    else:
                        out.extend(memory_reads(body, o, _seen))
        else:
            for o in d.args:
                if o.place is not None:
                    if o.place.proj and 1 <= o.place.local <= body.arg_count:
                        out.append((d, o.place))
                    else:
                        out.extend(memory_reads(body, o, _seen))
    return out


def slice_calls(body, x, regex, _seen=None):
    """call terminators matching `regex` in the backward slice of operand/place x (through every definition of the locals
    involved): the calls whose results actually flow into x. Unlike the symbolic tree this keeps the identity (block) of the
    call, so rules can reason about WHEN a mutable container was read."""
    import re as _re
    if _seen is None:
        _seen = set()
    out = []
    pl = x if isinstance(x, Place) else getattr(x, 'place', None)
    if pl is None:
        return out
    l = pl.local
    if l in _seen or (1 <= l <= body.arg_count):
        return out
    _seen.add(l)
    whole, partial = defs_of(body, l)
    for d in list(whole) + list(partial):
        if hasattr(d, 'rv'):
            rv = d.rv
            if rv.place is not None:
                out.extend(slice_calls(body, rv.place, regex, _seen))
            for o in rv.ops:
                out.extend(slice_calls(body, o, regex, _seen))
        else:
            if _re.search(regex, d.callee_res() or ''):
                out.append(d)
            for o in d.args:
                out.extend(slice_calls(body, o, regex, _seen))
    return out


def init_value(body, t, _depth=0, names=None):
    """replace ('var', name, local) nodes of mutable locals by the tree of their (single) initial definition:
    the value the variable was created with (e.g. the iterator a `for` loop pulls from)"""
    if not isinstance(t, tuple) or not t or _depth > 8:
        return t
    if t[0] == 'var' and len(t) >= 3:
        if names is not None and t[1] not in names:
            return t
        whole, partial = defs_of(body, t[2])
        if len(whole) == 1 and not partial:
            z = symbolizer(body)
            d = whole[0]
            r = simplify(z.rvalue(d.rv, 0, (t[2],)) if hasattr(d, 'rv') else z.call(d, 0, (t[2],)))
            return init_value(body, r, _depth + 1, names)
        return t
    if t[0] == 'call':
        return ('call', t[1], tuple(init_value(body, a, _depth, names) for a in t[2])) + t[3:]
    if t[0] in ('field', 'variant', 'unwrap', 'discr', 'cast'):
        return (t[0], init_value(body, t[1], _depth, names)) + t[2:]
    if t[0] == 'index':
        return ('index', init_value(body, t[1], _depth, names), init_value(body, t[2], _depth, names))
    if t[0] == 'bin':
        return ('bin', t[1], init_value(body, t[2], _depth, names), init_value(body, t[3], _depth, names))
    if t[0] == 'agg':
        return ('agg', t[1], t[2], tuple(init_value(body, a, _depth, names) for a in t[3]))
    return t


def loop_source(body, next_call):
    """tree of the iterator a `next()` call pulls from, with loop iterator variables expanded to their source"""
    return init_value(body, sym(body, next_call.args[0]), 0, ('iter',))


def const_str(t):
    """string value of a &str literal node (or of `String::new()`), else None"""
    import re as _re
    if isinstance(t, tuple) and t and t[0] == 'call' and not t[2] and t[1].endswith('String::new'):
        return ''
    if isinstance(t, tuple) and t and t[0] == 'const':
        m = _re.match(r'^(?:const )?"(.*)"$', t[1], _re.S)
        if m:
            return m.group(1).encode().decode('unicode_escape') if '\\' in m.group(1) else m.group(1)
    return None


def var_defs(body, name):
    """[(site, value tree)] of every whole definition (assignment or call result) of the named local(s)"""
    out = []
    z = symbolizer(body)
    for v in body.vars:
        if v['name'] != name or 'pl' not in v or v['pl']['p']:
            continue
        whole, partial = defs_of(body, v['pl']['l'])
        for d in whole:
            out.append((d, simplify(z.rvalue(d.rv, 0, ())) if hasattr(d, 'rv') else simplify(z.call(d))))
    return out


def conj_terms(body, t):
    """terms of a short-circuit conjunction held in a multi-definition bool temporary: for `a && b` MIR assigns
    `false` on the !a edge and `b` on the a edge. Returns a list of core trees (a, b, ...) or None."""
    if not (isinstance(t, tuple) and t and t[0] in ('phi', 'var')):
        return None
    loc = t[1] if t[0] == 'phi' else t[2]
    whole, partial = defs_of(body, loc)
    if partial or len(whole) < 2:
        return None
    z = symbolizer(body)
    terms = []
    saw_false = False
    for d in whole:
        v = simplify(z.rvalue(d.rv, 0, ())) if hasattr(d, 'rv') else simplify(z.call(d))
        if v[0] == 'const' and v[2] == 0:
            saw_false = True
            continue
        for tt, pol, g in atoms_at(body, d.bb):
            if pol is True:
                c = core(tt)
                if c not in terms:
                    terms.append(c)
        sub = conj_terms(body, v)
        if sub:
            for c in sub:
                if c not in terms:
                    terms.append(c)
        else:
            c = core(v)
            if c not in terms:
                terms.append(c)
    if not saw_false:
        return None
    return terms


def variant_edges(body, value_tree, variant):
    """CFG edges (block, target) taken exactly when `value_tree` (an Option/Result/enum value) is the given variant"""
    out = []
    want = nosite(value_tree)
    for g in edge_guards(body):
        if g.t[0] != 'discr' or nosite(g.t[1]) != want:
            continue
        r = guard_variants(body, g)
        if r is not None and r[1] == {variant}:
            out.append((g.block, g.target))
    return out


def agg_sites(body, name_suffix):
    """[(stmt, tree)] of aggregate statements constructing an ADT variant whose path ends with name_suffix"""
    out = []
    z = symbolizer(body)
    for s in body.stmts():
        if s.kind == 'assign' and s.rv.kind == 'agg' and s.rv.agg == 'adt' and (s.rv.raw['adt'] + '::' + s.rv.raw['vname']).endswith(name_suffix):
            out.append((s, simplify(z.rvalue(s.rv, 0, ()))))
    return out
