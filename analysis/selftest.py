"""Checker self-test (thorough tier): every registered mutant of the property is applied to a scratch
copy of the CURRENT /repo/src (outside /repo and /verif), the driver is run on the copy with the rustc
argv recorded in the fact file (no cargo), and the rules are re-evaluated: the expected rule must fire.

A mutant that no longer applies to the tree under test is skipped; a mutant that applies but is not
detected marks the checker broken. Nothing here contributes to the verdict on /repo itself.
"""
import json
import os
import shutil
import subprocess
import tempfile
import time
from concurrent.futures import ThreadPoolExecutor

from . import engine, extract
from .facts import Facts

VERIF = os.path.dirname(os.path.dirname(os.path.abspath(__file__)))


def mutants_for(prop):
    idx = json.load(open(os.path.join(VERIF, 'mutants', 'index.json')))
    return [(k, v) for k, v in sorted(idx.items()) if v['property'] == prop]


def facts_for_tree(src_repo, patch, workdir, argv):
    """copy src_repo/src into workdir, apply patch (or None), run the driver; returns (facts_path|None, msg)"""
    os.makedirs(workdir, exist_ok=True)
    shutil.copytree(os.path.join(src_repo, 'src'), os.path.join(workdir, 'src'))
    for f in ('Cargo.toml', 'Cargo.lock'):
        shutil.copy(os.path.join(src_repo, f), os.path.join(workdir, f))
    if patch is not None:
        r = subprocess.run(['patch', '-p1', '--no-backup-if-mismatch', '-s', '-i', patch], cwd=workdir,
                           stdout=subprocess.PIPE, stderr=subprocess.STDOUT, text=True)
        if r.returncode != 0:
            return None, 'patch does not apply: ' + r.stdout.strip()[:200]
    out = os.path.join(workdir, 'facts.json')
    os.makedirs(os.path.join(workdir, 'out'), exist_ok=True)
    args = [extract.DRIVER_BIN]
    skip = False
    a = argv[1:]
    i = 0
    while i < len(a):
        x = a[i]
        if x == '--out-dir':
            args += ['--out-dir', os.path.join(workdir, 'out')]
            i += 2
            continue
        if x == '-C' and i + 1 < len(a) and a[i + 1].startswith('incremental='):
            i += 2
            continue
        if x.startswith('--error-format') or x.startswith('--json'):
            i += 1
            continue
        args.append(x)
        i += 1
    env = dict(os.environ)
    env['LD_LIBRARY_PATH'] = os.path.join(extract.sysroot(), 'lib') + ':' + env.get('LD_LIBRARY_PATH', '')
    env['TU_FACTS_OUT'] = out
    env.setdefault('CARGO_PKG_NAME', 'text-utils')
    env.setdefault('CARGO_PKG_VERSION', '0.6.3')
    env.setdefault('CARGO_MANIFEST_DIR', workdir)
    env.setdefault('CARGO_CRATE_NAME', 'text_utils')
    r = subprocess.run(args, cwd=workdir, env=env, stdout=subprocess.PIPE, stderr=subprocess.STDOUT, text=True)
    if r.returncode != 0 or not os.path.exists(out):
        return None, 'does not compile: ' + r.stdout.strip()[-400:]
    return out, ''


def eval_mutant(prop, name, meta, repo, argv, tier='quick'):
    wd = tempfile.mkdtemp(prefix='tu-selftest-')
    try:
        fp, msg = facts_for_tree(repo, os.path.join(VERIF, name) if '/' in name else os.path.join(VERIF, 'mutants', name), os.path.join(wd, 'w'), argv)
        if fp is None:
            return {'mutant': name, 'status': 'skipped', 'why': msg}
        facts = Facts(fp)
        ctx, ran = engine.run_rules(facts, prop, tier)
        fired = sorted({r.rid for r in ctx.results if not r.ok})
        exp = meta.get('expect_rules', [])
        hit = [e for e in exp if e in fired]
        status = 'detected' if (hit if exp else fired) else 'MISSED'
        return {'mutant': name, 'status': status, 'fired': fired, 'expected': exp,
                'messages': [r.msg[:300] for r in ctx.results if not r.ok][:6]}
    finally:
        shutil.rmtree(wd, ignore_errors=True)


def benign_for(prop):
    """behaviour-preserving changes written for this property (benign/<prop>-*/patch.diff and benign/<prop>-rename.diff)"""
    import glob
    out = sorted(glob.glob(os.path.join(VERIF, 'benign', prop + '-*', 'patch.diff'))) + sorted(glob.glob(os.path.join(VERIF, 'benign', prop + '-*.diff')))
    return [os.path.relpath(x, VERIF) for x in out]


def known_false_alarms():
    f = os.path.join(VERIF, 'benign', 'KNOWN_FALSE_ALARMS.json')
    return json.load(open(f)) if os.path.exists(f) else {}


def eval_benign(prop, name, repo, argv, tier='quick'):
    """precision self-test: the rules of the property must stay silent (OK or UNDECIDED) on a behaviour-preserving change"""
    wd = tempfile.mkdtemp(prefix='tu-selftest-')
    try:
        fp, msg = facts_for_tree(repo, os.path.join(VERIF, name), os.path.join(wd, 'w'), argv)
        if fp is None:
            return {'benign': name, 'status': 'skipped', 'why': msg}
        facts = Facts(fp)
        ctx, ran = engine.run_rules(facts, prop, tier)
        known, _ = engine.load_known(os.path.join(VERIF, 'known_findings.txt'))
        bad = [r for r in ctx.results if not r.ok and (prop, r.key.replace(' ', '_')) not in known]
        return {'benign': name, 'status': 'ALARM' if bad else 'silent', 'fired': sorted({r.rid for r in bad}),
                'undecided': len(getattr(ctx, 'undecided', [])), 'messages': [r.msg[:200] for r in bad][:4]}
    finally:
        shutil.rmtree(wd, ignore_errors=True)


def run(prop, repo, facts_path, tier='quick'):
    t0 = time.time()
    argv = json.load(open(facts_path))['argv']
    muts = mutants_for(prop)
    bens = benign_for(prop)
    res = []
    bres = []
    with ThreadPoolExecutor(max_workers=8) as ex:
        futs = [ex.submit(eval_mutant, prop, n, m, repo, argv, tier) for n, m in muts]
        bfuts = [ex.submit(eval_benign, prop, n, repo, argv, tier) for n in bens]
        for f in futs:
            res.append(f.result())
        for f in bfuts:
            bres.append(f.result())
    lines = []
    broken = False
    for r in res:
        if r['status'] == 'MISSED':
            broken = True
        lines.append('SELFTEST mutant=%s status=%s fired=%s' % (r['mutant'], r['status'], ','.join(r.get('fired', []))
                                                                 or r.get('why', '')))
    kfa = known_false_alarms()
    imprecise = 0
    for r in bres:
        st = r['status']
        if st == 'ALARM':
            if os.path.dirname(r['benign']).split('/')[-1] in kfa or r['benign'] in kfa:
                st = 'known-false-alarm'
                imprecise += 1
            else:
                broken = True
        lines.append('SELFTEST benign=%s status=%s fired=%s undecided=%s' % (r['benign'], st, ','.join(r.get('fired', [])) or r.get('why', ''), r.get('undecided', 0)))
    return {'mutants': len(muts), 'detected': sum(1 for r in res if r['status'] == 'detected'),
            'skipped': sum(1 for r in res if r['status'] == 'skipped'),
            'missed': sum(1 for r in res if r['status'] == 'MISSED'),
            'benign': len(bens), 'benign_silent': sum(1 for r in bres if r['status'] == 'silent'),
            'benign_known_false_alarms': imprecise,
            'benign_new_false_alarms': sum(1 for r in bres if r['status'] == 'ALARM') - imprecise,
            'results': res, 'benign_results': bres, 'broken': broken, 'lines': lines, 'wall_s': round(time.time() - t0, 1)}
