"""QUANT normal form of a boolean over a collection: `x.iter().all(p)`, `!x.iter().any(|e| !p(e))`, `!x.contains(&false)` ...
quant_nf(facts, body, tree) -> (kind, src, pred) with kind in ('all', 'any'), src the iterated source (core tree) and pred a tree
over ITEM with negations pushed inwards; None when the tree is not such a quantifier."""
from .sym import core, nosite, peel, last_seg
from .seq import seq_of_iter, apply_fn, ITEM


def _not(p):
    p = peel(p)
    if isinstance(p, tuple) and p and p[0] == 'un' and p[1] == 'Not':
        return peel(p[2])
    if isinstance(p, tuple) and p and p[0] == 'bin' and p[1] in ('Eq', 'Ne'):
        return ('bin', {'Eq': 'Ne', 'Ne': 'Eq'}[p[1]], p[2], p[3])
    return ('un', 'Not', p)


def _bool_const(t):
    c = core(t)
    if c[0] == 'const' and len(c) > 2 and c[2] in (0, 1) and ('true' in c[1] or 'false' in c[1]):
        return bool(c[2])
    return None


def quant_nf(facts, body, tree):
    t = peel(tree)
    neg = False
    while isinstance(t, tuple) and t and t[0] == 'un' and t[1] == 'Not':
        neg = not neg
        t = peel(t[2])
    if not (isinstance(t, tuple) and t and t[0] == 'call' and t[2]):
        return None
    n = last_seg(t[1])
    a = t[2]
    kind = src = pred = None
    if n in ('all', 'any') and len(a) == 2:
        segs = seq_of_iter(facts, body, a[0])
        if segs is None or len(segs) != 1 or segs[0].kind != 'each' or segs[0].conds:
            return None
        kind, src = n, core(segs[0].src)
        pred = nosite(apply_fn(facts, a[1], (segs[0].elem,)))
    elif n == 'contains' and len(a) == 2 and ('slice' in t[1] or 'Vec' in t[1]):
        kind, src = 'any', core(a[0])
        b = _bool_const(a[1])
        pred = ITEM if b is True else (('un', 'Not', ITEM) if b is False else ('bin', 'Eq', ITEM, nosite(a[1])))
    else:
        return None
    if neg:
        kind = 'all' if kind == 'any' else 'any'
        pred = _not(pred)
    p = peel(pred)
    while isinstance(p, tuple) and p and p[0] == 'un' and p[1] == 'Not' and isinstance(peel(p[2]), tuple) and peel(p[2])[0] == 'un' and peel(p[2])[1] == 'Not':
        p = peel(peel(p[2])[2])
    return kind, src, p


def quant_of_body(facts, body):
    """the same normal form for a function that decides by an explicit loop with early returns:
    `for x in src { if !p(x) { return false } } true`  ->  ('all', src, p)      (and the dual -> 'any'), in any loop spelling
    (`loop { match it.next() { Some(x) if p(x) => continue, Some(_) => return false, None => return true } }`)"""
    from . import cfg, pathx
    from .seq import next_call_of, iter_init, item_subst_fn, subst
    from .sym import sym, variant_edges
    loops = cfg.loops(body)
    if len(loops) != 1:
        return None
    lp = loops[0]
    nx = next_call_of(body, lp)
    if nx is None:
        return None
    segs = seq_of_iter(facts, body, iter_init(body, sym(body, nx.args[0])))
    if segs is None or len(segs) != 1 or segs[0].kind != 'each' or segs[0].conds:
        return None
    f = item_subst_fn(body, nx, 0)
    res = nosite(sym(body, nx.dest))
    rows = []
    for p, end in pathx.paths_from(body, lp.header) or ():
        pe = pathx.eval_versioned(body, p, {}, lambda e, pe_: ())
        if pe is None or end[0] == 'exit':
            continue
        arm = None
        for t, names in pe.variants:
            if nosite(peel(t)) == res and len(names) == 1:
                arm = list(names)[0]
        atoms = [(subst(nosite(t), f), pol) for t, pol in pe.atoms]
        rv = _bool_const(pe.env.get(0)) if end[0] == 'return' and pe.env.get(0) is not None else None
        rows.append((arm, end[0], rv, atoms))
    done = [r for r in rows if r[0] == 'None']
    if len(done) != 1 or done[0][1] != 'return' or done[0][2] is None or done[0][3]:
        return None
    at_end = done[0][2]                      # all: true at exhaustion; any: false
    early = [r for r in rows if r[0] == 'Some' and r[1] == 'return']
    cont = [r for r in rows if r[0] == 'Some' and r[1] == 'back']
    if not early or not cont or any(r[2] is None or r[2] == at_end for r in early):
        return None
    # one predicate: every early return is taken under (p, pol_e), every continuation under (p, not pol_e)
    preds = set()
    for r in early + cont:
        if len(r[3]) != 1:
            return None
        t, pol = r[3][0]
        preds.add((nosite(core(t)), pol if r in early else (not pol)))
    if len(preds) != 1:
        return None
    t, pol_e = list(preds)[0]
    # all(p): leaves early (false) when !p  -> p = t if pol_e is False else !t ;  any(p): leaves early (true) when p
    if at_end is True:
        pred = t if pol_e is False else ('un', 'Not', t)
        return 'all', core(segs[0].src), pred
    pred = t if pol_e is True else ('un', 'Not', t)
    return 'any', core(segs[0].src), pred
