"""QUANT normal form of a boolean over a collection: `x.iter().all(p)`, `!x.iter().any(|e| !p(e))`, `!x.contains(&false)` ...
quant_nf(facts, body, tree) -> (kind, src, pred) with kind in ('all', 'any'), src the iterated source (core tree) and pred a tree
over ITEM with negations pushed inwards; None when the tree is not such a quantifier."""
from .sym import core, nosite, peel, last_seg
from .seq import seq_of_iter, apply_fn, ITEM


def _not(p):
    p = peel(p)
    if isinstance(p, tuple) and p and p[0] == 'un' and p[1] == 'Not':
        return peel(p[2])
    if isinstance(p, tuple) and p and p[0] == 'bin' and p[1] in ('Eq', 'Ne'):
        return ('bin', {'Eq': 'Ne', 'Ne': 'Eq'}[p[1]], p[2], p[3])
    return ('un', 'Not', p)


def _bool_const(t):
    c = core(t)
    if c[0] == 'const' and len(c) > 2 and c[2] in (0, 1) and ('true' in c[1] or 'false' in c[1]):
        return bool(c[2])
    return None


def quant_nf(facts, body, tree):
    t = peel(tree)
    neg = False
    while isinstance(t, tuple) and t and t[0] == 'un' and t[1] == 'Not':
        neg = not neg
        t = peel(t[2])
    if not (isinstance(t, tuple) and t and t[0] == 'call' and t[2]):
        return None
    n = last_seg(t[1])
    a = t[2]
    kind = src = pred = None
    if n in ('all', 'any') and len(a) == 2:
        segs = seq_of_iter(facts, body, a[0])
        if segs is None or len(segs) != 1 or segs[0].kind != 'each' or segs[0].conds:
            return None
        kind, src = n, core(segs[0].src)
        pred = nosite(apply_fn(facts, a[1], (segs[0].elem,)))
    elif n == 'contains' and len(a) == 2 and ('slice' in t[1] or 'Vec' in t[1]):
        kind, src = 'any', core(a[0])
        b = _bool_const(a[1])
        pred = ITEM if b is True else (('un', 'Not', ITEM) if b is False else ('bin', 'Eq', ITEM, nosite(a[1])))
    else:
        return None
    if neg:
        kind = 'all' if kind == 'any' else 'any'
        pred = _not(pred)
    p = peel(pred)
    while isinstance(p, tuple) and p and p[0] == 'un' and p[1] == 'Not' and isinstance(peel(p[2]), tuple) and peel(p[2])[0] == 'un' and peel(p[2])[1] == 'Not':
        p = peel(peel(p[2])[2])
    return kind, src, p
