"""Path-sensitive evaluation of one loop iteration (or any acyclic region): the CFG paths are enumerated and, along each path,
multi-definition locals (loop state such as `i`, `j`, match results that are later used as data) are tracked symbolically --
a path-sensitive constant/copy propagation. No code is run and no solver is involved: values stay symbolic trees over the values
the state had at the start of the region.

iteration_paths(body, loop)      -> [[block, ...]] from the loop header to a latch, inside the loop
eval_path(body, path)            -> PathEffect: final environment, ordered events (stores / calls with substituted operands) and
                                    the guards taken
"""
from . import cfg
from .sym import sym, symbolizer, simplify, nosite, guard_variants, edge_guards, Symbolizer
from .seq import subst


def iteration_paths(body, loop, limit=400):
    out = []
    count = [0]

    def dfs(u, path, seen):
        if count[0] > limit:
            return
        for v in body.succ[u]:
            if v == loop.header and u in loop.latches:
                out.append(list(path))
                count[0] += 1
                continue
            if v not in loop.blocks or v in seen:
                continue
            # inner loops: their back edges are skipped by the `seen` test (each inner block at most once per path)
            dfs(v, path + [v], seen | {v})
    dfs(loop.header, [loop.header], {loop.header})
    return None if count[0] > limit else out


class PathEffect:
    def __init__(self):
        self.env = {}
        self.events = []      # ('store', local, tree, stmt) | ('call', term, [arg trees], result tree)
        self.variants = []    # (tree, {names})
        self.atoms = []       # (tree, polarity)

    def value(self, local):
        return self.env.get(local)


def _leaf_subst(env):
    def rep(n):
        if n[0] == 'phi' and n[1] in env:
            return env[n[1]]
        if n[0] == 'var' and len(n) > 2 and n[2] in env:
            return env[n[2]]
        return None
    return rep


class _PathSym(Symbolizer):
    """symbolizer whose locals assigned earlier on the path evaluate to their path value; everything else (defined before the
    region) evaluates as usual -- its multi-definition leaves denote the values at the start of the region"""
    def __init__(self, body, env):
        Symbolizer.__init__(self, body)
        self.penv = env

    def local(self, l, depth=0, stack=()):
        if l in self.penv:
            return self.penv[l]
        return Symbolizer.local(self, l, depth, stack)


def eval_path(body, path):
    pe = PathEffect()
    z = _PathSym(body, pe.env)
    gmap = {(g.block, g.target): g for g in edge_guards(body)}
    for k, bidx in enumerate(path):
        blk = body.blocks[bidx]
        for s in blk.stmts:
            if s.kind != 'assign':
                continue
            z.cache = {}
            try:
                v = nosite(simplify(z.rvalue(s.rv, 0, ())))
            except Exception:
                continue
            if s.lhs.proj:
                try:
                    tgt = nosite(simplify(z.place(s.lhs)))
                except Exception:
                    continue
                pe.events.append(('store-place', tgt, v, s))
                continue
            pe.env[s.lhs.local] = v
            pe.events.append(('store', s.lhs.local, v, s))
        t = blk.term
        z.cache = {}
        if t.kind == 'call':
            args = []
            for a in t.args:
                try:
                    args.append(nosite(simplify(z.operand(a))))
                except Exception:
                    args.append(('unknown',))
            res = ('call', t.callee_res() or '?', tuple(args))
            pe.events.append(('call', t, args, res))
            # compound assignment through the operator traits (`total += *count` with a reference operand is a call, not a binary operation)
            _cn = (t.callee_res() or '').rsplit('::', 1)[-1]
            if _cn in ('add_assign', 'sub_assign', 'mul_assign') and len(args) == 2:
                from .sym import core as _core
                _r = _core(args[0])
                if _r[0] == 'var' and len(_r) > 2 and isinstance(_r[2], int):
                    _cur = pe.env.get(_r[2], ('var', _r[1], _r[2]))
                    pe.env[_r[2]] = ('bin', {'add_assign': 'Add', 'sub_assign': 'Sub', 'mul_assign': 'Mul'}[_cn], _cur, args[1])
            if t.dest is not None and not t.dest.proj:
                pe.env[t.dest.local] = res
        if k + 1 < len(path):
            g = gmap.get((bidx, path[k + 1]))
            if g is not None and t.kind == 'switch':
                try:
                    d = nosite(simplify(z.operand(t.discr)))
                except Exception:
                    d = None
                r = guard_variants(body, g)
                if r is not None and d is not None and d[0] == 'discr':
                    pe.variants.append((d[1], set(r[1])))
                elif d is not None:
                    from .sym import Guard
                    g2 = Guard(g.block, g.target, d, g.values, g.excluded, g.dty)
                    tt, pol = g2.atom()
                    if pol is not None:
                        pe.atoms.append((nosite(tt), pol))
    return pe
