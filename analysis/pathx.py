"""Path tables with versioned memory cells: every acyclic path from a start block to a `return` or to a back edge is evaluated
symbolically (analysis.paths), and reads of designated memory cells (e.g. `self.idx`) are stamped with the number of writes
to the cell that happened earlier on the path -- so `let i = self.idx; self.next_idx(); (x, i)` and
`self.next_idx(); (x, self.idx)` are told apart, while `(x, self.idx)` built before the call and `let i = self.idx` read before
it are recognised as the same value. Nothing is executed; infeasible paths (a branch on a value that is constant on the path,
`is_some()` of a literal, a match on a known variant) are pruned.

paths_from(body, start, limit)                 -> [([blocks], end)] with end = ('return', bb) | ('back', header) | ('exit', bb)
eval_versioned(body, path, cells, bumps)       -> PathEffect or None (infeasible)
    cells: {name: predicate on nosite trees}   reads matching a predicate become ('at', name, version, tree)
    bumps(event, pe) -> iterable of cell names the event writes
"""
from . import cfg
from .paths import PathEffect, _PathSym
from .sym import simplify, nosite, guard_variants, edge_guards, Symbolizer, peel, core, Guard


def paths_from(body, start, limit=600):
    out = []
    n = [0]

    def dfs(u, path, seen):
        if n[0] > limit:
            return
        t = body.blocks[u].term
        if t.kind == 'return':
            out.append((list(path), ('return', u)))
            n[0] += 1
            return
        succ = [v for v in body.succ[u] if not body.blocks[v].cleanup]
        if not succ:
            out.append((list(path), ('exit', u)))
            n[0] += 1
            return
        for v in succ:
            if v in seen:
                out.append((list(path), ('back', v)))
                n[0] += 1
                continue
            dfs(v, path + [v], seen | {v})
    dfs(start, [start], {start})
    return None if n[0] > limit else out


def _stamp(t, cells, versions, tag=None):
    """wrap every read of a cell that is not stamped yet"""
    if not isinstance(t, tuple) or not t:
        return t
    if t[0] == 'at':
        return t
    for name, pred in cells.items():
        try:
            hit = pred(t)
        except (IndexError, TypeError):
            hit = False
        if hit:
            return ('at', name, versions[name] if tag is None else tag, t)
    return tuple(_stamp(x, cells, versions, tag) if isinstance(x, tuple) else x for x in t)


def unstamp(t):
    if not isinstance(t, tuple) or not t:
        return t
    if t[0] == 'at':
        return unstamp(t[3])
    return tuple(unstamp(x) if isinstance(x, tuple) else x for x in t)


class _VSym(_PathSym):
    def __init__(self, body, env, cells, versions):
        _PathSym.__init__(self, body, env)
        self.cells = cells
        self.versions = versions

    def local(self, l, depth=0, stack=()):
        if l in self.penv:
            return self.penv[l]
        # defined before the path: whatever it read, it read before the first write on the path
        return _stamp(nosite(Symbolizer.local(self, l, depth, stack)), self.cells, self.versions, 'pre')


def _const_truth(t):
    c = core(t)
    if c[0] == 'const' and len(c) > 2 and c[2] in (0, 1):
        return bool(c[2])
    r = peel(t)
    if isinstance(r, tuple) and r and r[0] == 'call' and len(r[2]) == 1 and r[1].rsplit('::', 1)[-1] in ('is_some', 'is_none', 'is_ok', 'is_err'):
        x = peel(r[2][0])
        if isinstance(x, tuple) and x and x[0] == 'agg' and x[1] == 'adt':
            return {'is_some': 'Some', 'is_none': 'None', 'is_ok': 'Ok', 'is_err': 'Err'}[r[1].rsplit('::', 1)[-1]] == x[2].rsplit('::', 1)[-1]
    return None


def eval_versioned(body, path, cells, bumps):
    pe = PathEffect()
    versions = {k: 0 for k in cells}
    pe.versions = versions
    z = _VSym(body, pe.env, cells, versions)
    gmap = {(g.block, g.target): g for g in edge_guards(body)}

    def bump(ev):
        for name in bumps(ev, pe) or ():
            versions[name] += 1

    for k, bidx in enumerate(path):
        blk = body.blocks[bidx]
        for s in blk.stmts:
            if s.kind != 'assign':
                continue
            z.cache = {}
            try:
                v = _stamp(nosite(simplify(z.rvalue(s.rv, 0, ()))), cells, versions)
            except Exception:
                continue
            if s.lhs.proj:
                try:
                    tgt = nosite(simplify(z.place(s.lhs)))
                except Exception:
                    continue
                ev = ('store-place', tgt, v, s, dict(versions))
                pe.events.append(ev)
                bump(ev)
                continue
            pe.env[s.lhs.local] = v
            pe.events.append(('store', s.lhs.local, v, s, dict(versions)))
        t = blk.term
        z.cache = {}
        if t.kind == 'call':
            args = []
            for a in t.args:
                try:
                    args.append(_stamp(nosite(simplify(z.operand(a))), cells, versions))
                except Exception:
                    args.append(('unknown',))
            res = ('call', t.callee_res() or '?', tuple(args))
            ev = ('call', t, args, res, dict(versions))
            # compound assignment through the operator traits (`total += *count` with a reference operand is a call, not a binary operation)
            _cn = (t.callee_res() or '').rsplit('::', 1)[-1]
            if _cn in ('add_assign', 'sub_assign', 'mul_assign') and len(args) == 2:
                from .sym import core as _core
                _r = _core(args[0])
                if _r[0] == 'var' and len(_r) > 2 and isinstance(_r[2], int):
                    _cur = pe.env.get(_r[2], ('var', _r[1], _r[2]))
                    pe.env[_r[2]] = ('bin', {'add_assign': 'Add', 'sub_assign': 'Sub', 'mul_assign': 'Mul'}[_cn], _cur, args[1])
            pe.events.append(ev)
            bump(ev)
            if t.dest is not None and not t.dest.proj:
                pe.env[t.dest.local] = res
        if k + 1 < len(path):
            g = gmap.get((bidx, path[k + 1]))
            if g is not None and t.kind == 'switch':
                try:
                    d = nosite(simplify(z.operand(t.discr)))
                except Exception:
                    d = None
                r = guard_variants(body, g)
                if r is not None and d is not None and d[0] == 'discr':
                    names = set(r[1])
                    x = peel(d[1])
                    if isinstance(x, tuple) and x and x[0] == 'agg' and x[1] == 'adt' and x[2].rsplit('::', 1)[-1] not in names:
                        return None
                    pe.variants.append((d[1], names))
                elif d is not None:
                    g2 = Guard(g.block, g.target, d, g.values, g.excluded, g.dty)
                    tt, pol = g2.atom()
                    if pol is not None:
                        ct = _const_truth(tt)
                        if ct is not None and ct != pol:
                            return None
                        pe.atoms.append((nosite(tt), pol))
                    else:
                        c = core(d)
                        if c[0] == 'const' and len(c) > 2 and isinstance(c[2], int):
                            if (g.values is not None and c[2] not in g.values) or (g.excluded is not None and c[2] in g.excluded):
                                return None
    return pe
