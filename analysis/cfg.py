"""Control-flow primitives over a facts.Body (unwind edges already removed)."""


def reach(body, start, removed_blocks=(), removed_edges=()):
    """blocks reachable from `start` (a block or iterable of blocks); `start` itself is
    included unless removed. removed_edges: set of (u, v)."""
    rb = set(removed_blocks)
    re_ = set(removed_edges)
    if isinstance(start, int):
        start = [start]
    seen = set()
    st = []
    for s in start:
        if s not in rb and s not in seen:
            seen.add(s)
            st.append(s)
    while st:
        x = st.pop()
        for y in body.succ[x]:
            if y in rb or (x, y) in re_ or y in seen:
                continue
            seen.add(y)
            st.append(y)
    return seen


def reach_from_succ(body, b, removed_blocks=(), removed_edges=()):
    """blocks reachable from b by at least one edge"""
    rb = set(removed_blocks)
    re_ = set(removed_edges)
    starts = [y for y in body.succ[b] if y not in rb and (b, y) not in re_]
    return reach(body, starts, rb, re_)


def dominators(body):
    """dom[b] = set of blocks dominating b (including b), for reachable blocks"""
    if hasattr(body, '_dom'):
        return body._dom
    nodes = sorted(body.reachable)
    allset = set(nodes)
    dom = {n: set(allset) for n in nodes}
    dom[0] = {0}
    changed = True
    # reverse post order would be faster; bodies are small
    while changed:
        changed = False
        for n in nodes:
            if n == 0:
                continue
            ps = [p for p in body.pred[n] if p in allset]
            if not ps:
                new = {n}
            else:
                new = set.intersection(*(dom[p] for p in ps)) | {n}
            if new != dom[n]:
                dom[n] = new
                changed = True
    body._dom = dom
    return dom


def dominates(body, a, b):
    return a in dominators(body).get(b, ())


def back_edges(body):
    dom = dominators(body)
    out = []
    for u in body.reachable:
        for v in body.succ[u]:
            if v in dom[u]:
                out.append((u, v))
    return out


class Loop:
    def __init__(self, header, blocks, latches):
        self.header = header
        self.blocks = blocks
        self.latches = latches

    def exits(self, body):
        """edges (u, v) leaving the loop"""
        out = []
        for u in self.blocks:
            for v in body.succ[u]:
                if v not in self.blocks:
                    out.append((u, v))
        return out


def loops(body):
    """natural loops, merged per header"""
    if hasattr(body, '_loops'):
        return body._loops
    by_header = {}
    for (u, h) in back_edges(body):
        blocks = {h, u}
        st = [u]
        while st:
            x = st.pop()
            if x == h:
                continue
            for p in body.pred[x]:
                if p not in blocks and p in body.reachable:
                    blocks.add(p)
                    st.append(p)
        if h in by_header:
            by_header[h].blocks |= blocks
            by_header[h].latches.append(u)
        else:
            by_header[h] = Loop(h, blocks, [u])
    body._loops = list(by_header.values())
    return body._loops


def innermost_loop(body, b):
    best = None
    for l in loops(body):
        if b in l.blocks and (best is None or len(l.blocks) < len(best.blocks)):
            best = l
    return best


def edge_dominates(body, edge, b):
    """every path entry -> b uses edge (u, v)"""
    if b not in body.reachable:
        return False
    return b not in reach(body, 0, removed_edges=[edge])


def must_pass(body, src, dst, via_blocks=(), via_edges=(), from_succ=False):
    """every path src -> dst meets one of via_blocks / via_edges.
    Vacuously true if dst is not reachable from src at all."""
    if from_succ:
        r = reach_from_succ(body, src, via_blocks, via_edges)
    else:
        r = reach(body, src, via_blocks, via_edges)
    return dst not in r


def reachable_between(body, src, dst):
    """dst reachable from src by >= 1 edge"""
    return dst in reach_from_succ(body, src)


def iteration_paths_avoid(body, loop, src, avoid_blocks=(), avoid_edges=()):
    """can the back edge (any latch -> header) be reached from src inside the loop without
    touching avoid_blocks/avoid_edges and without crossing the header again?"""
    rb = set(avoid_blocks)
    # forbid re-entering header: treat edges into header as the goal
    seen = set()
    st = [src]
    if src in rb:
        return False
    seen.add(src)
    while st:
        x = st.pop()
        for y in body.succ[x]:
            if (x, y) in avoid_edges:
                continue
            if y == loop.header and x in loop.blocks:
                return True
            if y in rb or y in seen or y not in loop.blocks:
                continue
            seen.add(y)
            st.append(y)
    return False
