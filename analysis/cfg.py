import re
"""Control-flow primitives over a facts.Body (unwind edges already removed)."""


def reach(body, start, removed_blocks=(), removed_edges=()):
    """blocks reachable from `start` (a block or iterable of blocks); `start` itself is
    included unless removed. removed_edges: set of (u, v)."""
    rb = set(removed_blocks)
    re_ = set(removed_edges)
    if isinstance(start, int):
        start = [start]
    seen = set()
    st = []
    for s in start:
        if s not in rb and s not in seen:
            seen.add(s)
            st.append(s)
    while st:
        x = st.pop()
        for y in body.succ[x]:
            if y in rb or (x, y) in re_ or y in seen:
                continue
            seen.add(y)
            st.append(y)
    return seen


def reach_from_succ(body, b, removed_blocks=(), removed_edges=()):
    """blocks reachable from b by at least one edge"""
    rb = set(removed_blocks)
    re_ = set(removed_edges)
    starts = [y for y in body.succ[b] if y not in rb and (b, y) not in re_]
    return reach(body, starts, rb, re_)


def dominators(body):
    """dom[b] = set of blocks dominating b (including b), for reachable blocks"""
    if hasattr(body, '_dom'):
        return body._dom
    nodes = sorted(body.reachable)
    allset = set(nodes)
    dom = {n: set(allset) for n in nodes}
    dom[0] = {0}
    changed = True
    # reverse post order would be faster; bodies are small
    while changed:
        changed = False
        for n in nodes:
            if n == 0:
                continue
            ps = [p for p in body.pred[n] if p in allset]
            if not ps:
                new = {n}
            else:
                new = set.intersection(*(dom[p] for p in ps)) | {n}
            if new != dom[n]:
                dom[n] = new
                changed = True
    body._dom = dom
    return dom


def dominates(body, a, b):
    return a in dominators(body).get(b, ())


def back_edges(body):
    dom = dominators(body)
    out = []
    for u in body.reachable:
        for v in body.succ[u]:
            if v in dom[u]:
                out.append((u, v))
    return out


class Loop:
    def __init__(self, header, blocks, latches):
        self.header = header
        self.blocks = blocks
        self.latches = latches

    def exits(self, body):
        """edges (u, v) leaving the loop"""
        out = []
        for u in self.blocks:
            for v in body.succ[u]:
                if v not in self.blocks:
                    vb = body.blocks[v]
                    if vb.term.kind == 'unreachable' and not vb.stmts:
                        continue   # the `otherwise` arm of an exhaustive enum switch
                    if v in diverging(body):
                        continue   # an assertion / panic arm: the loop is not left, the thread aborts (panic inventories cover it)
                    out.append((u, v))
        return out


def diverging(body):
    """blocks from which no `return` is reachable (panic / abort arms)"""
    if hasattr(body, '_diverging'):
        return body._diverging
    can = set()
    work = [b.idx for b in body.blocks if b.term.kind == 'return' and b.idx in body.reachable]
    while work:
        x = work.pop()
        if x in can:
            continue
        can.add(x)
        work.extend(p for p in body.pred[x] if p not in can)
    body._diverging = {b for b in body.reachable if b not in can}
    return body._diverging


def loops(body):
    """natural loops, merged per header"""
    if hasattr(body, '_loops'):
        return body._loops
    by_header = {}
    for (u, h) in back_edges(body):
        blocks = {h, u}
        st = [u]
        while st:
            x = st.pop()
            if x == h:
                continue
            for p in body.pred[x]:
                if p not in blocks and p in body.reachable:
                    blocks.add(p)
                    st.append(p)
        if h in by_header:
            by_header[h].blocks |= blocks
            by_header[h].latches.append(u)
        else:
            by_header[h] = Loop(h, blocks, [u])
    body._loops = list(by_header.values())
    return body._loops


def innermost_loop(body, b):
    best = None
    for l in loops(body):
        if b in l.blocks and (best is None or len(l.blocks) < len(best.blocks)):
            best = l
    return best


def edge_dominates(body, edge, b):
    """every path entry -> b uses edge (u, v)"""
    if b not in body.reachable:
        return False
    return b not in reach(body, 0, removed_edges=[edge])


def must_pass(body, src, dst, via_blocks=(), via_edges=(), from_succ=False):
    """every path src -> dst meets one of via_blocks / via_edges.
    Vacuously true if dst is not reachable from src at all."""
    if from_succ:
        r = reach_from_succ(body, src, via_blocks, via_edges)
    else:
        r = reach(body, src, via_blocks, via_edges)
    return dst not in r


def reachable_between(body, src, dst):
    """dst reachable from src by >= 1 edge"""
    return dst in reach_from_succ(body, src)


def iteration_paths_avoid(body, loop, src, avoid_blocks=(), avoid_edges=()):
    """can the back edge (any latch -> header) be reached from src inside the loop without
    touching avoid_blocks/avoid_edges and without crossing the header again?"""
    rb = set(avoid_blocks)
    # forbid re-entering header: treat edges into header as the goal
    seen = set()
    st = [src]
    if src in rb:
        return False
    seen.add(src)
    while st:
        x = st.pop()
        for y in body.succ[x]:
            if (x, y) in avoid_edges:
                continue
            if y == loop.header and x in loop.blocks:
                return True
            if y in rb or y in seen or y not in loop.blocks:
                continue
            seen.add(y)
            st.append(y)
    return False


def threaded_succ(body):
    """successor map with trivial jump threading: a block that assigns a constant to a local and jumps (through empty
    blocks) to a SwitchInt on that local continues only at the selected arm. Makes `a || b` / `a && b` temporaries
    path sensitive."""
    if hasattr(body, '_tsucc'):
        return body._tsucc
    ts = {b: list(s) for b, s in enumerate(body.succ)}
    for blk in body.blocks:
        if blk.cleanup or blk.idx not in body.reachable or blk.term.kind != 'goto':
            continue
        consts = {}
        for s in blk.stmts:
            if s.kind == 'assign' and s.lhs is not None and not s.lhs.proj:
                if s.rv.kind == 'use' and s.rv.ops[0].is_const() and s.rv.ops[0].int_value() is not None:
                    consts[s.lhs.local] = s.rv.ops[0].int_value()
                else:
                    consts.pop(s.lhs.local, None)
        if not consts:
            continue
        j = blk.term.raw['target']
        hops = 0
        while hops < 4 and not body.blocks[j].stmts and body.blocks[j].term.kind == 'goto':
            j = body.blocks[j].term.raw['target']
            hops += 1
        jb = body.blocks[j]
        if jb.term.kind != 'switch':
            continue
        d = jb.term.discr
        if d.place is None or d.place.proj:
            continue
        dl = d.place.local
        if jb.stmts:
            # allow a single copy `_y = _x` that feeds the switch
            if len(jb.stmts) == 1 and jb.stmts[0].kind == 'assign' and not jb.stmts[0].lhs.proj and jb.stmts[0].lhs.local == dl and \
                    jb.stmts[0].rv.kind == 'use' and jb.stmts[0].rv.ops[0].place is not None and not jb.stmts[0].rv.ops[0].place.proj:
                dl = jb.stmts[0].rv.ops[0].place.local
            else:
                continue
        if dl not in consts:
            continue
        v = consts[dl]
        tgt = jb.term.otherwise
        for val, t in jb.term.arms:
            if val == v:
                tgt = t
        ts[blk.idx] = [tgt]
    body._tsucc = ts
    return ts


def reach_threaded(body, start, removed_blocks=()):
    rb = set(removed_blocks)
    ts = threaded_succ(body)
    if isinstance(start, int):
        start = [start]
    seen = set()
    st = []
    for s in start:
        if s not in rb and s not in seen:
            seen.add(s)
            st.append(s)
    while st:
        x = st.pop()
        for y in ts.get(x, []):
            if y in rb or y in seen or body.blocks[y].cleanup:
                continue
            seen.add(y)
            st.append(y)
    return seen


_STDENUM = re.compile(r"(?:^|::)(Result|Option|ControlFlow)$")


def reach_const(body, start, known=None, limit=20000):
    """blocks reachable from `start` under forward propagation of integer/bool constants held in whole locals:
    a SwitchInt on a local whose value is known on the path follows only the selected arm (path sensitive for the
    temporaries of `a || b`, `!x && y`, flags, ...)."""
    start_state = (start, frozenset((known or {}).items()))
    seen_states = {start_state}
    blocks = {start}
    st = [start_state]
    n = 0
    while st and n < limit:
        n += 1
        blk_i, kn = st.pop()
        k = dict(kn)
        blk = body.blocks[blk_i]
        for s in blk.stmts:
            if s.kind != 'assign' or s.lhs is None:
                continue
            if s.lhs.proj:
                continue
            l = s.lhs.local
            v = None
            if s.rv.kind == 'use':
                o = s.rv.ops[0]
                if o.is_const() and o.int_value() is not None:
                    v = o.int_value()
                elif o.place is not None and not o.place.proj and o.place.local in k:
                    v = k[o.place.local]
            elif s.rv.kind == 'unop' and s.rv.op == 'Not':
                o = s.rv.ops[0]
                if o.place is not None and not o.place.proj and o.place.local in k and k[o.place.local] in (0, 1):
                    v = 1 - k[o.place.local]
            # variants of Result / Option / ControlFlow values held in whole locals (`x = Err(e)` ... `match x`, `x?`)
            vv = None
            if s.rv.kind == 'agg' and s.rv.agg == 'adt' and _STDENUM.search(s.rv.raw.get('adt') or ''):
                vv = (_STDENUM.search(s.rv.raw['adt']).group(1), s.rv.raw.get('variant', 0))
            elif s.rv.kind == 'use' and s.rv.ops[0].place is not None and not s.rv.ops[0].place.proj and ('v', s.rv.ops[0].place.local) in k:
                vv = k[('v', s.rv.ops[0].place.local)]
            elif s.rv.kind == 'discr' and s.rv.place is not None and not s.rv.place.proj and ('v', s.rv.place.local) in k:
                v = k[('v', s.rv.place.local)][1]
            if vv is None:
                k.pop(('v', l), None)
            else:
                k[('v', l)] = vv
            if v is None:
                k.pop(l, None)
            else:
                k[l] = v
        t = blk.term
        succ = list(body.succ[blk_i])
        if t.kind == 'call' and t.dest is not None and not t.dest.proj:
            k.pop(t.dest.local, None)
            k.pop(('v', t.dest.local), None)
            if re.search(r'Try>::branch$', t.callee_res() or '') and t.args and t.args[0].place is not None and not t.args[0].place.proj and \
                    ('v', t.args[0].place.local) in k:
                kind, idx = k[('v', t.args[0].place.local)]
                # Result: Ok(0) -> Continue(0), Err(1) -> Break(1); Option: None(0) -> Break(1), Some(1) -> Continue(0)
                k[('v', t.dest.local)] = ('ControlFlow', idx if kind == 'Result' else 1 - idx)
        if t.kind == 'switch' and t.discr.place is not None and not t.discr.place.proj and t.discr.place.local in k:
            v = k[t.discr.place.local]
            tgt = t.otherwise
            for val, tg in t.arms:
                if val == v:
                    tgt = tg
            succ = [tgt] if tgt in body.succ[blk_i] else []
        elif t.kind == 'switch' and t.discr.is_const() and t.discr.int_value() is not None:
            v = t.discr.int_value()
            tgt = t.otherwise
            for val, tg in t.arms:
                if val == v:
                    tgt = tg
            succ = [tgt]
        fk = frozenset(k.items())
        for y in succ:
            if body.blocks[y].cleanup:
                continue
            stt = (y, fk)
            if stt not in seen_states:
                seen_states.add(stt)
                blocks.add(y)
                st.append(stt)
    return blocks
