#!/usr/bin/env python3
"""debug helper: pretty-print the MIR facts of bodies whose path matches a regex"""
import sys
sys.path.insert(0, '/verif')
from analysis.facts import Facts
import glob, os
latest = max(glob.glob('/verif/.cache/facts-*.json'), key=os.path.getmtime)
f = Facts(sys.argv[2] if len(sys.argv) > 2 else latest)
import re
from analysis.facts import norm_path
for b in [b for b in f.bodies if re.search(sys.argv[1], norm_path(b.path)+' @'+str(b.impl_self))]:
    print('impl_self:', b.impl_self)
    print(b.pretty())
    print()
