#!/bin/bash
# usage: confirm_round3.sh <Cxx>   confirms /tmp/w3-Cxx/out/{1,2} as Cxx-5, Cxx-6
P=$1
for n in 1 2; do bash /verif/tools/confirm_seed.sh /tmp/w3-$P $n $P-$((n+4)) > /tmp/confirm-$P-$((n+4)).log 2>&1; done
