#!/usr/bin/env python3
"""(Re)generate /verif/MANIFEST.json from the registered rules and analysis/propinfo.py"""
import json, os, sys, importlib
sys.path.insert(0, '/verif')
from analysis import engine, propinfo
props = [json.loads(l) for l in open('/verif/properties.jsonl')]
for p in props:
    f = '/verif/rules/%s.py' % p['id'].lower()
    if os.path.exists(f):
        importlib.import_module('rules.%s' % p['id'].lower())
byprop = {}
for r in engine.RULES:
    byprop.setdefault(r.prop, []).append(r)
NA = json.load(open('/verif/tools/not_applicable.json')) if os.path.exists('/verif/tools/not_applicable.json') else {}
checks = []
na = []
for p in props:
    pid = p['id']
    if pid in byprop and pid not in NA:
        info = propinfo.INFO.get(pid, {})
        templates = sorted({r.template.split(' ')[0] for r in byprop[pid]})
        checks.append({
            'property_id': pid,
            'quick_cmd': './check %s --tier quick' % pid,
            'thorough_cmd': './check %s --tier thorough' % pid,
            'evidence_file': '/verif/evidence/%s.json' % pid,
            'replay_cmd_template': './check --replay {path}',
            'engine': 'mir-rules',
            'level_claimed': {
                'category': 'other',
                'text': 'Static analysis over rustc MIR of the current tree: %d rule(s) (%s) that are necessary structural conditions '
                        'of the property, each holding on every path / for every input and schedule at once. Decides: %s. '
                        'Does not decide the value-level clauses (listed in the evidence under not_decided).' % (
                            len(byprop[pid]), ', '.join(r.rid for r in byprop[pid]), info.get('decides', '')),
                'design_ref': 'DESIGN.md section 4, %s' % pid,
            },
            'level_note': propinfo.COMMON_NOTE,
            'technique': 'static analysis: custom MIR dataflow/dominance rules (templates %s) via a rustc_private driver' % ', '.join(templates),
        })
    else:
        na.append({'property_id': pid, 'reason': NA.get(pid, 'check not implemented yet (machinery under construction)')})
m = {
    'version': 1,
    'setup_cmd': './setup.sh',
    'hooks': {
        'guard': 'text_utils_verif',
        'enable': 'none needed: the analysis reads rustc\'s MIR of the unmodified source (no hook commits)',
        'baseline_off_cmd': 'cd /repo && cargo test --workspace --no-fail-fast --offline',
        'source_commits': [],
        'add_only': True,
    },
    'engines': [{
        'name': 'mir-rules', 'path': '/verif/check',
        'serves_properties': [c['property_id'] for c in checks],
        'kind_free_text': 'rustc_private driver dumping MIR facts of crate text_utils + python rule engine (CFG, dominators, '
                          'must-pass-through, symbolic provenance, call-site inventories); thorough tier adds a mutant self-test',
    }],
    'checks': checks,
    'notes': 'Static analysis only. Genuine defects found and repaired in /repo: see known_findings.txt and DESIGN.md section 5.',
    'not_applicable': na,
}
json.dump(m, open('/verif/MANIFEST.json', 'w'), indent=1)
print('checks:', [c['property_id'] for c in checks], 'n/a:', [x['property_id'] for x in na])
