#!/usr/bin/env python3
"""dev helper: write the fact file of /repo/src + <patch> to <out.json> (scratch dir removed afterwards)
usage: facts_for_patch.py <patch.diff> <out.json>"""
import sys, os, json, shutil, tempfile
sys.path.insert(0, '/verif')
from analysis import extract, selftest
patch = os.path.abspath(sys.argv[1])
fp, info = extract.ensure_facts('/repo')
argv = json.load(open(fp))['argv']
wd = tempfile.mkdtemp(prefix='tu-ffp-')
try:
    f, msg = selftest.facts_for_tree('/repo', patch, os.path.join(wd, 'w'), argv)
    if f is None:
        print('SKIP', msg); sys.exit(2)
    shutil.copy(f, sys.argv[2])
finally:
    shutil.rmtree(wd, ignore_errors=True)
