#!/usr/bin/env python3
"""Evaluate every kept seeded change (/verif/seeded/<id>/patch.diff) against the rules of its property on a scratch copy of
/repo (never touching /repo) and print / store the detection matrix (/verif/seeded/RESULTS.json)."""
import sys, os, json, glob, shutil, tempfile, importlib
sys.path.insert(0, '/verif')
from concurrent.futures import ThreadPoolExecutor
from analysis import engine, extract, selftest
from analysis.facts import Facts

fp, info = extract.ensure_facts('/repo')
argv = json.load(open(fp))['argv']
for p in ['C%02d' % i for i in range(1, 21)]:
    importlib.import_module('rules.%s' % p.lower())
only = sys.argv[1:]


def one(d):
    sid = os.path.basename(d)
    prop = sid.split('-')[0]
    wd = tempfile.mkdtemp(prefix='tu-seed-')
    try:
        f, msg = selftest.facts_for_tree('/repo', os.path.join(d, 'patch.diff'), os.path.join(wd, 'w'), argv)
        if f is None:
            return sid, {'status': 'skipped', 'why': msg}
        facts = Facts(f)
        ctx, ran = engine.run_rules(facts, prop, 'quick')
        known, _ = engine.load_known('/verif/known_findings.txt')
        bad = [r for r in ctx.results if not r.ok and (prop, r.key.replace(' ', '_')) not in known]
        return sid, {'status': 'detected' if bad else 'MISSED', 'rules': sorted({r.rid for r in bad}),
                     'messages': [r.msg[:220] for r in bad][:3]}
    finally:
        shutil.rmtree(wd, ignore_errors=True)


dirs = sorted(d for d in glob.glob('/verif/seeded/C*') if os.path.isdir(d) and (not only or os.path.basename(d) in only or os.path.basename(d).split('-')[0] in only))
with ThreadPoolExecutor(max_workers=8) as ex:
    res = dict(ex.map(one, dirs))
for k in sorted(res):
    print(k, res[k]['status'], ','.join(res[k].get('rules', [])) or res[k].get('why', ''))
if not only:
    json.dump(res, open('/verif/seeded/RESULTS.json', 'w'), indent=1)
elif os.environ.get('TU_MERGE_RESULTS'):
    # partial run (only the named seeds / properties): merge into the stored matrix
    old = json.load(open('/verif/seeded/RESULTS.json'))
    old.update(res)
    json.dump(old, open('/verif/seeded/RESULTS.json', 'w'), indent=1, sort_keys=True)
miss = [k for k, v in res.items() if v['status'] == 'MISSED']
print('detected %d / %d, missed: %s' % (sum(1 for v in res.values() if v['status'] == 'detected'), len(res), miss))
sys.exit(1 if miss else 0)
