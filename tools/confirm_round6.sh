#!/bin/bash
# usage: confirm_round3.sh <Cxx>   confirms /tmp/w6-Cxx/out/{1,2} as Cxx-11, Cxx-12
P=$1
for n in 1 2; do bash /verif/tools/confirm_seed.sh /tmp/w6-$P $n $P-$((n+10)) > /tmp/confirm-$P-$((n+10)).log 2>&1; done
