#!/bin/bash
# usage: confirm_one8.sh <Cxx> <n>   confirms /tmp/w8-Cxx/out/<n> as Cxx-(n+14); each (Cxx, n) is taken once
P=$1; N=$2
[ -f /tmp/w8-$P/out/$N/patch.diff ] || exit 0
mkdir /tmp/lock8-$P-$N 2>/dev/null || exit 0
rm -rf /tmp/w8-$P/scratch* 2>/dev/null
bash /verif/tools/confirm_seed.sh /tmp/w8-$P $N $P-$((N+14)) > /tmp/confirm-$P-$((N+14)).log 2>&1
