#!/bin/bash
# usage: ingest_benign3.sh Cxx ...   copies /tmp/wd-Cxx/out/{1,2} to /verif/benign/Cxx-c{1,2} and removes the worktree
for P in "$@"; do
  for n in 1 2; do d=/tmp/wd-$P/out/$n; if [ -f $d/patch.diff ]; then mkdir -p /verif/benign/$P-c$n; cp $d/patch.diff /verif/benign/$P-c$n/; cp $d/meta.json /verif/benign/$P-c$n/ 2>/dev/null; fi; done
  git -C /repo worktree remove --force /tmp/wd-$P 2>/dev/null
done
git -C /repo worktree prune
