#!/usr/bin/env python3
"""Evaluate the rules of one or more properties on a scratch copy of /repo/src with a patch applied
(scratch dir under /tmp, removed afterwards; /repo is not touched).  usage: try_patch.py <patch.diff> C03 [C02 ...]"""
import sys, os, json, glob, shutil, tempfile, importlib
sys.path.insert(0, '/verif')
from analysis import engine, extract, selftest
from analysis.facts import Facts

patch = os.path.abspath(sys.argv[1])
props = sys.argv[2:]
fp, info = extract.ensure_facts('/repo')
argv = json.load(open(fp))['argv']
wd = tempfile.mkdtemp(prefix='tu-try-')
try:
    f, msg = selftest.facts_for_tree('/repo', patch, os.path.join(wd, 'w'), argv)
    if f is None:
        print('SKIP', msg)
        sys.exit(2)
    facts = Facts(f)
    for p in ['C%02d' % i for i in range(1, 21)]:
        if os.path.exists('/verif/rules/%s.py' % p.lower()):
            importlib.import_module('rules.%s' % p.lower())
    if not props:
        props = sorted({r.prop for r in engine.RULES})
    tot = 0
    for p in props:
        ctx, ran = engine.run_rules(facts, p, 'quick')
        known, _ = engine.load_known('/verif/known_findings.txt')
        bad = [r for r in ctx.results if not r.ok and (p, r.key.replace(' ', '_')) not in known]
        tot += len(bad)
        print('%s: %d instances, %d failing' % (p, len(ctx.results), len(bad)))
        for r in bad:
            print('   FAIL %s %s %s' % (r.rid, r.site, r.msg[:300]))
        for r in getattr(ctx, 'undecided', []):
            print('   UNDECIDED %s %s' % (r.rid, r.msg[:300]))
    sys.exit(1 if tot else 0)
finally:
    shutil.rmtree(wd, ignore_errors=True)
