#!/bin/bash
# usage: ingest_benign3.sh Cxx ...   copies /tmp/we-Cxx/out/{1,2} to /verif/benign/Cxx-c{1,2} and removes the worktree
for P in "$@"; do
  for n in 1 2; do d=/tmp/we-$P/out/$n; if [ -f $d/patch.diff ]; then mkdir -p /verif/benign/$P-d$n; cp $d/patch.diff /verif/benign/$P-d$n/; cp $d/meta.json /verif/benign/$P-d$n/ 2>/dev/null; fi; done
  git -C /repo worktree remove --force /tmp/we-$P 2>/dev/null
done
git -C /repo worktree prune
