#!/bin/bash
# usage: confirm_round3.sh <Cxx>   confirms /tmp/w5-Cxx/out/{1,2} as Cxx-7, Cxx-8
P=$1
for n in 1 2; do bash /verif/tools/confirm_seed.sh /tmp/w5-$P $n $P-$((n+8)) > /tmp/confirm-$P-$((n+8)).log 2>&1; done
