#!/bin/bash
# usage: ingest_benign3.sh Cxx ...   copies /tmp/wf-Cxx/out/{1,2} to /verif/benign/Cxx-c{1,2} and removes the worktree
for P in "$@"; do
  for n in 1 2; do d=/tmp/wf-$P/out/$n; if [ -f $d/patch.diff ]; then mkdir -p /verif/benign/$P-e$n; cp $d/patch.diff /verif/benign/$P-e$n/; cp $d/meta.json /verif/benign/$P-e$n/ 2>/dev/null; fi; done
  git -C /repo worktree remove --force /tmp/wf-$P 2>/dev/null
done
git -C /repo worktree prune
