#!/usr/bin/env python3
"""Record the FIRST evaluation of newly ingested round-2 benign changes (before any rule is adjusted to them):
benign/ROUND6_FIRST.json {id: {'status':..., 'alarms':[...]}}; existing entries are never overwritten."""
import json, os, subprocess, sys
f = '/verif/benign/ROUND6_FIRST.json'
first = json.load(open(f)) if os.path.exists(f) else {}
ids = sys.argv[1:]
subprocess.run(['python3', '/verif/tools/run_benign.py'] + ids, stdout=subprocess.DEVNULL, stderr=subprocess.DEVNULL)
res = json.load(open('/verif/.cache/benign_last_partial.json'))
for k, v in res.items():
    d = os.path.dirname(k)
    if '-f' in d and d not in first and any(d.startswith(i) for i in ids):
        first[d] = {'status': v['status'], 'alarms': [a['rule'] + ' ' + a['message'][:120] for a in v.get('alarms', [])]}
json.dump(first, open(f, 'w'), indent=1, sort_keys=True)
n = len(first); a = sum(1 for v in first.values() if v['status'] != 'silent')
print('round-3 first-run: %d changes, %d alarms' % (n, a))
