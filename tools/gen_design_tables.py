#!/usr/bin/env python3
"""Regenerate the machine-derived parts of DESIGN.md (between <!-- BEGIN:x --> / <!-- END:x --> markers):
rule tables per property (from the rule registry + propinfo), mutant list, seeded detection matrix."""
import json, os, sys, importlib, glob, re
sys.path.insert(0, '/verif')
from analysis import engine, propinfo
props = [json.loads(l) for l in open('/verif/properties.jsonl')]
for p in props:
    importlib.import_module('rules.%s' % p['id'].lower())
by = {}
for r in engine.RULES:
    by.setdefault(r.prop, []).append(r)


def rules_md():
    out = []
    for p in props:
        pid = p['id']
        info = propinfo.INFO.get(pid, {})
        out.append('### %s %s\n' % (pid, p['title']))
        out.append('| rule | template | statement checked on every path |\n|---|---|---|')
        for r in by.get(pid, []):
            out.append('| %s | %s | %s |' % (r.rid, r.template, r.desc.replace('|', '\\|')))
        out.append('\n**Decides:** %s.\n' % info.get('decides', ''))
        nd = info.get('not_decided', [])
        if nd:
            out.append('**Not decided (left to other techniques):** ' + '; '.join(nd) + '.\n')
    return '\n'.join(out)


def mutants_md():
    idx = json.load(open('/verif/mutants/index.json'))
    out = ['| mutant diff | property | rule(s) that must fire | what it does |\n|---|---|---|---|']
    for k, v in sorted(idx.items()):
        out.append('| %s | %s | %s | %s |' % (k, v['property'], ', '.join(v.get('expect_rules', [])) or 'any', v.get('description', '')))
    return '\n'.join(out)


def seeded_md():
    f = '/verif/seeded/RESULTS.json'
    if not os.path.exists(f):
        return '(no results yet)'
    res = json.load(open(f))
    out = ['| seeded change | what it does | needs to manifest | caught by | rule existed before the change was seen |\n|---|---|---|---|---|']
    for k in sorted(res):
        m = json.load(open('/verif/seeded/%s/meta.json' % k))
        s = (m.get('summary') or '')[:160].replace('|', '/').replace('\n', ' ')
        nd = str(m.get('needs_to_manifest') or '')[:140].replace('|', '/').replace('\n', ' ')
        blind = m.get('static_check_result', {}).get('rule_existed_before_this_change_was_seen')
        out.append('| %s | %s | %s | %s | %s |' % (k, s, nd, ', '.join(res[k].get('rules', [])) or res[k]['status'], 'yes' if blind else 'no'))
    n = sum(1 for v in res.values() if v['status'] == 'detected')
    out.append('\nDetected %d of %d.' % (n, len(res)))
    return '\n'.join(out)


doc = open('/verif/DESIGN.md').read()
for name, fn in (('rules', rules_md), ('mutants', mutants_md), ('seeded', seeded_md)):
    b, e = '<!-- BEGIN:%s -->' % name, '<!-- END:%s -->' % name
    if b in doc and e in doc:
        doc = doc[:doc.index(b) + len(b)] + '\n' + fn() + '\n' + doc[doc.index(e):]
open('/verif/DESIGN.md', 'w').write(doc)
print('ok')
