#!/usr/bin/env python3
"""Regenerate the machine-derived parts of DESIGN.md (between <!-- BEGIN:x --> / <!-- END:x --> markers):
rule tables per property (from the rule registry + propinfo), mutant list, seeded detection matrix."""
import json, os, sys, importlib, glob, re
sys.path.insert(0, '/verif')
from analysis import engine, propinfo
props = [json.loads(l) for l in open('/verif/properties.jsonl')]
for p in props:
    importlib.import_module('rules.%s' % p['id'].lower())
by = {}
for r in engine.RULES:
    by.setdefault(r.prop, []).append(r)


def rules_md():
    out = []
    for p in props:
        pid = p['id']
        info = propinfo.INFO.get(pid, {})
        out.append('### %s %s\n' % (pid, p['title']))
        out.append('| rule | template | statement checked on every path |\n|---|---|---|')
        for r in by.get(pid, []):
            out.append('| %s | %s | %s |' % (r.rid, r.template, r.desc.replace('|', '\\|')))
        out.append('\n**Decides:** %s.\n' % info.get('decides', ''))
        nd = info.get('not_decided', [])
        if nd:
            out.append('**Not decided (left to other techniques):** ' + '; '.join(nd) + '.\n')
    return '\n'.join(out)


def mutants_md():
    idx = json.load(open('/verif/mutants/index.json'))
    out = ['| mutant diff | property | rule(s) that must fire | what it does |\n|---|---|---|---|']
    for k, v in sorted(idx.items()):
        out.append('| %s | %s | %s | %s |' % (k, v['property'], ', '.join(v.get('expect_rules', [])) or 'any', v.get('description', '')))
    return '\n'.join(out)


def seeded_md():
    f = '/verif/seeded/RESULTS.json'
    if not os.path.exists(f):
        return '(no results yet)'
    res = json.load(open(f))
    r2 = json.load(open('/verif/seeded/ROUND2_BLIND.json')) if os.path.exists('/verif/seeded/ROUND2_BLIND.json') else {'blind_detected': {}, 'notes': {}}
    r3 = json.load(open('/verif/seeded/ROUND3_BLIND.json')) if os.path.exists('/verif/seeded/ROUND3_BLIND.json') else {'blind_detected': {}, 'notes': {}}
    r4 = json.load(open('/verif/seeded/ROUND4_BLIND.json')) if os.path.exists('/verif/seeded/ROUND4_BLIND.json') else {'blind_detected': {}, 'notes': {}}
    r5 = json.load(open('/verif/seeded/ROUND5_BLIND.json')) if os.path.exists('/verif/seeded/ROUND5_BLIND.json') else {'blind_detected': {}, 'notes': {}}
    r6 = json.load(open('/verif/seeded/ROUND6_BLIND.json')) if os.path.exists('/verif/seeded/ROUND6_BLIND.json') else {'blind_detected': {}, 'notes': {}}
    r7 = json.load(open('/verif/seeded/ROUND7_BLIND.json')) if os.path.exists('/verif/seeded/ROUND7_BLIND.json') else {'blind_detected': {}, 'notes': {}}
    r8 = json.load(open('/verif/seeded/ROUND8_BLIND.json')) if os.path.exists('/verif/seeded/ROUND8_BLIND.json') else {'blind_detected': {}, 'notes': {}}
    out = ['| seeded change | round | what it does | needs to manifest | caught by (now) | detected blind (rule existed before the change was seen) |\n|---|---|---|---|---|---|']
    nb = [0] * 16
    for k in sorted(res):
        m = json.load(open('/verif/seeded/%s/meta.json' % k))
        s = (m.get('summary') or '')[:160].replace('|', '/').replace('\n', ' ')
        nd = str(m.get('needs_to_manifest') or '')[:140].replace('|', '/').replace('\n', ' ')
        if k in r8['blind_detected']:
            rnd, blind = 8, r8['blind_detected'][k]
        elif k in r7['blind_detected']:
            rnd, blind = 7, r7['blind_detected'][k]
        elif k in r6['blind_detected']:
            rnd, blind = 6, r6['blind_detected'][k]
        elif k in r5['blind_detected']:
            rnd, blind = 5, r5['blind_detected'][k]
        elif k in r4['blind_detected']:
            rnd, blind = 4, r4['blind_detected'][k]
        elif k in r3['blind_detected']:
            rnd, blind = 3, r3['blind_detected'][k]
        elif k in r2['blind_detected']:
            rnd, blind = 2, r2['blind_detected'][k]
        else:
            rnd, blind = 1, bool(m.get('static_check_result', {}).get('rule_existed_before_this_change_was_seen'))
        nb[(rnd - 1) * 2] += 1
        nb[(rnd - 1) * 2 + 1] += 1 if blind else 0
        note = r2['notes'].get(k, '') or r3.get('notes', {}).get(k, '') or r4.get('notes', {}).get(k, '') or r5.get('notes', {}).get(k, '') or r6.get('notes', {}).get(k, '') or r7.get('notes', {}).get(k, '') or r8.get('notes', {}).get(k, '')
        out.append('| %s | %d | %s | %s | %s | %s |' % (k, rnd, s, nd, ', '.join(res[k].get('rules', [])) or res[k]['status'],
                                                         ('yes' if blind else 'no') + ((' -- ' + note) if note else '')))
    n = sum(1 for v in res.values() if v['status'] == 'detected')
    out.append('\nDetected now: %d of %d. Blind: round 1 %d of %d (most round-1 rules were written after reading the change), round 2 %d of %d, round 3 %d of %d, round 4 %d of %d, round 5 %d of %d, round 6 %d of %d, round 7 %d of %d, round 8 %d of %d.' % (
        n, len(res), nb[1], nb[0], nb[3], nb[2], nb[5], nb[4], nb[7], nb[6], nb[9], nb[8], nb[11], nb[10], nb[13], nb[12], nb[15], nb[14]))
    return '\n'.join(out)


def benign_md():
    f = '/verif/benign/RESULTS.json'
    if not os.path.exists(f):
        return '(no results yet)'
    res = json.load(open(f))
    out = ['| refactoring | kind | result | alarms |\n|---|---|---|---|']
    n = a = 0
    for k in sorted(res):
        d = os.path.dirname(k)
        kind = ''
        mp = '/verif/benign/%s/meta.json' % d
        if d and os.path.exists(mp):
            try:
                kind = str(json.load(open(mp)).get('kind', ''))[:90].replace('|', '/')
            except Exception:
                kind = ''
        elif k.endswith('-rename.diff'):
            kind = 'rename of local variables (written by the main session)'
        v = res[k]
        n += 1
        if v['status'] != 'silent':
            a += 1
        al = '; '.join('%s %s' % (x['rule'], x['message'][:70].replace('|', '/')) for x in v.get('alarms', [])[:2])
        out.append('| %s | %s | %s | %s |' % (d or k, kind, v['status'], al))
    out.append('\n%d behaviour-preserving changes, %d silent, %d false alarms (current rules).' % (n, n - a, a))
    f2 = '/verif/benign/ROUND2_FIRST.json'
    if os.path.exists(f2):
        fr = json.load(open(f2))
        n2 = len(fr)
        a2 = sum(1 for v in fr.values() if v['status'] != 'silent')
        out.append('\nRound 2 (`Cxx-b1` small, `-b2` medium, `-b3` larger), FIRST run before any rule was adjusted to it: %d changes, %d silent, %d false alarms '
                   '(%d%%). By size: %s.' % (n2, n2 - a2, a2, round(100.0 * a2 / max(n2, 1)),
                                           ', '.join('%s %d/%d' % (lab, sum(1 for k, v in fr.items() if k.endswith(suf) and v['status'] != 'silent'),
                                                                    sum(1 for k in fr if k.endswith(suf))) for lab, suf in (('small', '-b1'), ('medium', '-b2'), ('larger', '-b3')))))
        out.append('\nFirst-run alarms of round 2: ' + '; '.join('%s (%s)' % (k, v['alarms'][0][:60].replace('|', '/')) for k, v in sorted(fr.items()) if v['status'] != 'silent') + '.')
    f3 = '/verif/benign/ROUND3_FIRST.json'
    if os.path.exists(f3):
        fr = json.load(open(f3))
        n3 = len(fr)
        a3 = sum(1 for v in fr.values() if v['status'] != 'silent')
        half = lambda lo, hi: '%d/%d' % (sum(1 for k, v in fr.items() if lo <= k[:3] <= hi and v['status'] != 'silent'), sum(1 for k in fr if lo <= k[:3] <= hi))
        out.append('\nRound 3 (`Cxx-c1` medium 10-30 lines, `-c2` larger 25-60 lines with extracted helpers / changed data representation / changed loop shape), FIRST run '
                   'before any rule was adjusted to it: %d changes, %d silent, %d false alarms (%d%%). By size: %s. By property group: C01-C10 %s, C11-C20 %s '
                   '(the rules of C11-C20 had been rewritten on the normal forms to a larger extent).' % (
                       n3, n3 - a3, a3, round(100.0 * a3 / max(n3, 1)),
                       ', '.join('%s %d/%d' % (lab, sum(1 for k, v in fr.items() if k.endswith(suf) and v['status'] != 'silent'),
                                               sum(1 for k in fr if k.endswith(suf))) for lab, suf in (('medium', '-c1'), ('larger', '-c2'))),
                       half('C01', 'C10'), half('C11', 'C20')))
        out.append('\nFirst-run alarms of round 3: ' + '; '.join('%s (%s)' % (k, v['alarms'][0][:60].replace('|', '/')) for k, v in sorted(fr.items()) if v['status'] != 'silent') + '.')
    f4 = '/verif/benign/ROUND4_FIRST.json'
    if os.path.exists(f4):
        fr = json.load(open(f4))
        n4 = len(fr)
        a4 = sum(1 for v in fr.values() if v['status'] != 'silent')
        out.append('\nRound 4 (`Cxx-d1`, `-d2`: two medium refactorings per property, REQUIRED to touch the functions that the rules added after seed round 4 inspect -- '
                   'the youngest and least generalised rules), FIRST run: %d changes, %d silent, %d false alarms (%d%%).' % (n4, n4 - a4, a4, round(100.0 * a4 / max(n4, 1))))
        out.append('\nFirst-run alarms of round 4: ' + '; '.join('%s (%s)' % (k, v['alarms'][0][:60].replace('|', '/')) for k, v in sorted(fr.items()) if v['status'] != 'silent') + '.')
    f5 = '/verif/benign/ROUND5_FIRST.json'
    if os.path.exists(f5):
        fr = json.load(open(f5))
        n5 = len(fr)
        a5 = sum(1 for v in fr.values() if v['status'] != 'silent')
        out.append('\nRound 5 (`Cxx-e1` medium, `-e2` larger: restructurings of the mechanism itself -- a different loop shape, a different but equivalent '
                   'data representation of a local, a fused or split pass, an extracted or removed helper), FIRST run: %d changes, %d silent, %d false alarms (%d%%). '
                   'By size: %s.' % (n5, n5 - a5, a5, round(100.0 * a5 / max(n5, 1)),
                                     ', '.join('%s %d/%d' % (lab, sum(1 for k, v in fr.items() if k.endswith(suf) and v['status'] != 'silent'),
                                                              sum(1 for k in fr if k.endswith(suf))) for lab, suf in (('medium', '-e1'), ('larger', '-e2')))))
        out.append('\nFirst-run alarms of round 5: ' + '; '.join('%s (%s)' % (k, v['alarms'][0][:60].replace('|', '/')) for k, v in sorted(fr.items()) if v['status'] != 'silent') + '.')
    f6 = '/verif/benign/ROUND6_FIRST.json'
    if os.path.exists(f6):
        fr = json.load(open(f6))
        n6 = len(fr)
        a6 = sum(1 for v in fr.values() if v['status'] != 'silent')
        out.append('\nRound 6 (`Cxx-f1`, `-f2`: ten medium refactorings aimed at the functions inspected by the rules written during benign round 5 and seed round 6 -- '
                   'accumulate_with, split_words, str_match_fn / match_words, BatchLimit, the last lines of CharString::new, run_length_decode), FIRST run: %d changes, '
                   '%d silent, %d false alarms. First-run alarms: %s.' % (n6, n6 - a6, a6, '; '.join('%s (%s)' % (k, v['alarms'][0][:70].replace('|', '/')) for k, v in sorted(fr.items()) if v['status'] != 'silent') or 'none'))
    f7 = '/verif/benign/ROUND7_FIRST.json'
    if os.path.exists(f7):
        fr = json.load(open(f7))
        n7 = len(fr)
        a7 = sum(1 for v in fr.values() if v['status'] != 'silent')
        out.append('\nRound 7 (`Cxx-g1`, `-g2`: twenty medium refactorings REQUIRED to change the functions inspected by the rules written after seed round 6 and by the handmade '
                   'probes), FIRST run: %d changes, %d silent, %d false alarms. First-run alarms: %s.' % (
                       n7, n7 - a7, a7, '; '.join('%s (%s)' % (k, v['alarms'][0][:70].replace('|', '/')) for k, v in sorted(fr.items()) if v['status'] != 'silent') or 'none'))
    f8 = '/verif/benign/ROUND8_FIRST.json'
    if os.path.exists(f8):
        fr = json.load(open(f8))
        n8 = len(fr)
        a8 = sum(1 for v in fr.values() if v['status'] != 'silent')
        out.append('\nRound 8 (`Cxx-h1`, `-h2`: twenty medium refactorings of the functions inspected by the rules written after seed round 7), FIRST run: %d changes, '
                   '%d silent, %d false alarms. First-run alarms: %s.' % (
                       n8, n8 - a8, a8, '; '.join('%s (%s)' % (k, v['alarms'][0][:70].replace('|', '/')) for k, v in sorted(fr.items()) if v['status'] != 'silent') or 'none'))
    return '\n'.join(out)


doc = open('/verif/DESIGN.md').read()
for name, fn in (('rules', rules_md), ('mutants', mutants_md), ('seeded', seeded_md), ('benign', benign_md)):
    b, e = '<!-- BEGIN:%s -->' % name, '<!-- END:%s -->' % name
    if b in doc and e in doc:
        doc = doc[:doc.index(b) + len(b)] + '\n' + fn() + '\n' + doc[doc.index(e):]
open('/verif/DESIGN.md', 'w').write(doc)
print('ok')
