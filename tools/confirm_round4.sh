#!/bin/bash
# usage: confirm_round3.sh <Cxx>   confirms /tmp/w4-Cxx/out/{1,2} as Cxx-7, Cxx-8
P=$1
for n in 1 2; do bash /verif/tools/confirm_seed.sh /tmp/w4-$P $n $P-$((n+6)) > /tmp/confirm-$P-$((n+6)).log 2>&1; done
