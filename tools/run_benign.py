#!/usr/bin/env python3
"""False-alarm measurement: evaluate ALL properties' rules on scratch copies of /repo with behaviour-preserving
refactorings applied (/verif/benign/**/*.diff). Any failing instance (other than a listed known finding) is a false alarm.
Writes /verif/benign/RESULTS.json."""
import sys, os, json, glob, shutil, tempfile, importlib
sys.path.insert(0, '/verif')
from concurrent.futures import ThreadPoolExecutor
from analysis import engine, extract, selftest
from analysis.facts import Facts

fp, info = extract.ensure_facts('/repo')
argv = json.load(open(fp))['argv']
PROPS = ['C%02d' % i for i in range(1, 21)]
for p in PROPS:
    importlib.import_module('rules.%s' % p.lower())
known, _ = engine.load_known('/verif/known_findings.txt')
only = sys.argv[1:]


def one(path):
    name = os.path.relpath(path, '/verif/benign')
    wd = tempfile.mkdtemp(prefix='tu-benign-')
    try:
        f, msg = selftest.facts_for_tree('/repo', path, os.path.join(wd, 'w'), argv)
        if f is None:
            return name, {'status': 'skipped', 'why': msg[:300]}
        facts = Facts(f)
        alarms = []
        for p in PROPS:
            ctx, ran = engine.run_rules(facts, p, 'quick')
            for r in ctx.results:
                if not r.ok and (p, r.key.replace(' ', '_')) not in known:
                    alarms.append({'property': p, 'rule': r.rid, 'site': r.site, 'message': r.msg[:260]})
        return name, {'status': 'ALARM' if alarms else 'silent', 'alarms': alarms}
    finally:
        shutil.rmtree(wd, ignore_errors=True)


paths = sorted(glob.glob('/verif/benign/**/*.diff', recursive=True))
if only:
    paths = [p for p in paths if any(o in p for o in only)]
with ThreadPoolExecutor(max_workers=6) as ex:
    res = dict(ex.map(one, paths))
for k in sorted(res):
    v = res[k]
    print(k, v['status'], v.get('why', ''))
    for a in v.get('alarms', []):
        print('    %s %s %s %s' % (a['property'], a['rule'], a['site'], a['message'][:200]))
if not only:
    json.dump(res, open('/verif/benign/RESULTS.json', 'w'), indent=1)
else:
    json.dump(res, open('/verif/.cache/benign_last_partial.json', 'w'), indent=1)
n_al = sum(1 for v in res.values() if v['status'] == 'ALARM')
print('silent %d, alarms %d, skipped %d of %d' % (sum(1 for v in res.values() if v['status'] == 'silent'), n_al,
                                                  sum(1 for v in res.values() if v['status'] == 'skipped'), len(res)))
