#!/bin/bash
# usage: confirm_seed.sh <worktree> <n> <seed-id>
# Re-verifies a seeded change produced by a sub-agent in its scratch worktree:
#  (a) patch only: the 41 existing tests pass; (b) patch + demo: the demo fails; (c) demo only: everything passes.
# On success copies patch.diff, demo.diff, meta.json (+ confirmation record) to /verif/seeded/<seed-id>/
set -u
WT=$1; N=$2; ID=$3
OUT=$WT/out/$N
LOG=$(mktemp)
cd $WT || exit 2
clean() { git checkout -q -- . ; git clean -fdq -e out -e target ; }
run() { CARGO_NET_OFFLINE=true cargo test --workspace --no-fail-fast --offline 2>&1 | grep -E "^test result|^test .* FAILED|panicked" ; }
clean
git apply $OUT/patch.diff || { echo "patch does not apply"; exit 1; }
A=$(run); echo "(a) $A" | tee -a $LOG
PA=$(echo "$A" | grep -E "^test result" | head -1)
if [ -f $OUT/demo.diff ]; then git apply $OUT/demo.diff || { echo "demo does not apply on patch"; clean; exit 1; }; else cp -r $OUT/demo/* . 2>/dev/null; fi
B=$(run); echo "(b) $B" | tee -a $LOG
git apply -R $OUT/patch.diff || { echo "cannot revert patch"; clean; exit 1; }
C=$(run); echo "(c) $C" | tee -a $LOG
clean
okA=$(echo "$A" | grep -c "test result: ok. 41 passed; 0 failed")
okB=$(echo "$B" | grep -c "test result: FAILED")
# a test binary that dies (abort, stack overflow, process::exit from a panic hook) prints no result line for the lib tests
nB=$(echo "$B" | grep -c "^test result")
if [ "$okB" -eq 0 ] && [ "$nB" -lt 2 ]; then okB=1; echo "(b) lib test binary died without a result line: counted as failing"; fi
okC=$(echo "$C" | grep "^test result" | head -1 | grep -c "test result: ok")
echo "okA=$okA okB=$okB okC=$okC"
if [ "$okA" -ge 1 ] && [ "$okB" -ge 1 ] && [ "$okC" -ge 1 ]; then
  D=/verif/seeded/$ID; mkdir -p $D
  cp $OUT/patch.diff $D/; [ -f $OUT/demo.diff ] && cp $OUT/demo.diff $D/
  python3 - "$OUT/meta.json" "$D/meta.json" "$LOG" <<'PY'
import json,sys
try: m=json.load(open(sys.argv[1]))
except Exception as e: m={'note':'agent meta.json unreadable: %s'%e}
m['confirmed_by_main_session']={'procedure':'tools/confirm_seed.sh: (a) patch only -> 41 pass; (b) patch+demo -> failure; (c) demo only -> pass','log':open(sys.argv[3]).read()}
json.dump(m,open(sys.argv[2],'w'),indent=1)
PY
  echo CONFIRMED $ID
else
  echo NOT-CONFIRMED $ID
fi
rm -f $LOG
