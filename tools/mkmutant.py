#!/usr/bin/env python3
"""Create a mutant diff against /repo's current tree.
usage: mkmutant.py <name> <relative file> < python code transforming the string `s` (must change it)
writes /verif/mutants/<name>.diff (git-apply compatible)"""
import sys, os, subprocess, tempfile, shutil
name, rel = sys.argv[1], sys.argv[2]
code = sys.stdin.read()
src = open(os.path.join('/repo', rel)).read()
env = {'s': src}
exec(code, env)
new = env['s']
assert new != src, 'mutant does not change the file'
d = tempfile.mkdtemp(prefix='tu-mk-')
try:
    os.makedirs(os.path.join(d, 'a', os.path.dirname(rel)))
    os.makedirs(os.path.join(d, 'b', os.path.dirname(rel)))
    open(os.path.join(d, 'a', rel), 'w').write(src)
    open(os.path.join(d, 'b', rel), 'w').write(new)
    r = subprocess.run(['diff', '-u', os.path.join('a', rel), os.path.join('b', rel)], cwd=d, stdout=subprocess.PIPE, text=True)
    out = os.path.join('/verif/mutants', name + '.diff')
    open(out, 'w').write(r.stdout)
    print('wrote', out)
finally:
    shutil.rmtree(d, ignore_errors=True)
