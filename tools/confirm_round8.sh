#!/bin/bash
# usage: confirm_round3.sh <Cxx>   confirms /tmp/w8-Cxx/out/{1,2} as Cxx-15, Cxx-16
P=$1
for n in 1 2; do bash /verif/tools/confirm_seed.sh /tmp/w8-$P $n $P-$((n+14)) > /tmp/confirm-$P-$((n+14)).log 2>&1; done
