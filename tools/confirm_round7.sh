#!/bin/bash
# usage: confirm_round3.sh <Cxx>   confirms /tmp/w7-Cxx/out/{1,2} as Cxx-13, Cxx-14
P=$1
for n in 1 2; do bash /verif/tools/confirm_seed.sh /tmp/w7-$P $n $P-$((n+12)) > /tmp/confirm-$P-$((n+12)).log 2>&1; done
