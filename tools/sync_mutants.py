#!/usr/bin/env python3
"""add the detected seeded changes of seeded/RESULTS.json that are not yet self-test mutants to mutants/index.json
(expected rules = the rules of the seed's own property that fire now); existing entries are left alone"""
import json, os
idx_f = '/verif/mutants/index.json'
idx = json.load(open(idx_f))
res = json.load(open('/verif/seeded/RESULTS.json'))
n = 0
for k, v in sorted(res.items()):
    key = 'seeded/%s/patch.diff' % k
    prop = k.split('-')[0]
    rules = [r for r in v.get('rules', []) if r.startswith('R-%s-' % prop)]
    if key in idx and v['status'] == 'detected' and rules and not (set(idx[key].get('expect_rules', [])) & set(rules)):
        # the clause that catches this change moved to another rule id (rules were split / rewritten): follow it
        idx[key]['expect_rules'] = rules[:1]
        n += 1
        continue
    if key in idx or v['status'] != 'detected':
        continue
    if not rules:
        continue
    try:
        m = json.load(open('/verif/seeded/%s/meta.json' % k))
    except Exception:
        m = {}
    idx[key] = {'property': prop, 'expect_rules': rules[:1], 'description': 'sub-agent seeded change: ' + ' '.join(str(m.get('summary', '')).split())[:140]}
    n += 1
json.dump(idx, open(idx_f, 'w'), indent=1, sort_keys=True)
print('added', n, 'total', len(idx))
