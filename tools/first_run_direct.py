#!/usr/bin/env python3
"""first-run record of benign patches without going through run_benign's shared cache file:
usage: first_run_direct.py <ROUNDn> <benign ids...>"""
import json, os, subprocess, sys
rnd, ids = sys.argv[1], sys.argv[2:]
f = '/verif/benign/%s_FIRST.json' % rnd
first = json.load(open(f)) if os.path.exists(f) else {}
props = ['C%02d' % i for i in range(1, 21)]
for i in ids:
    if i in first:
        continue
    r = subprocess.run(['python3', '/verif/tools/try_patch.py', '/verif/benign/%s/patch.diff' % i] + props, stdout=subprocess.PIPE, stderr=subprocess.STDOUT, text=True)
    fails = [l.strip() for l in r.stdout.splitlines() if l.strip().startswith('FAIL')]
    first[i] = {'status': 'ALARM' if fails else 'silent', 'alarms': [l[5:200] for l in fails]}
    print(i, first[i]['status'])
    for a in first[i]['alarms'][:8]:
        print('    ', a[:230])
json.dump(first, open(f, 'w'), indent=1, sort_keys=True)
