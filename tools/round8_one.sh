#!/bin/bash
# usage: round8_one.sh <Cxx>  blind evaluation first, then confirmation of /tmp/w8-Cxx/out/{1,2}
P=$1
python3 /verif/tools/blind8.py $P 2>&1 | tail -2
bash /verif/tools/confirm_round8.sh $P
for n in 15 16; do tail -2 /tmp/confirm-$P-$n.log 2>/dev/null | tr '\n' ' '; echo; done
