#!/bin/bash
# usage: confirm_round.sh <Cxx> <offset>   confirms /tmp/wt-Cxx/out/{1,2} as Cxx-(1+offset), Cxx-(2+offset)
P=$1; OFF=${2:-2}
for n in 1 2; do bash /verif/tools/confirm_seed.sh /tmp/wt-$P $n $P-$((n+OFF)) > /tmp/confirm-$P-$((n+OFF)).log 2>&1; done
