#!/usr/bin/env python3
"""blind evaluation of a round-8 seeded change BEFORE it is looked at: appends to seeded/ROUND8_BLIND.json"""
import sys, json, os, subprocess
p = sys.argv[1]
f = '/verif/seeded/ROUND8_BLIND.json'
d = json.load(open(f)) if os.path.exists(f) else {"round": 8, 'blind_detected': {}, 'rules': {}, 'undecided': {}}
for n in (1, 2):
    sid = '%s-%d' % (p, n + 14)
    if sid in d['blind_detected'] or not os.path.exists('/tmp/w8-%s/out/%d/meta.json' % (p, n)):
        continue
    r = subprocess.run(['python3', '/verif/tools/try_patch.py', '/tmp/w8-%s/out/%d/patch.diff' % (p, n), p], stdout=subprocess.PIPE, stderr=subprocess.STDOUT, text=True)
    out = r.stdout
    fails = [l.strip() for l in out.splitlines() if l.strip().startswith('FAIL')]
    und = [l.strip() for l in out.splitlines() if l.strip().startswith('UNDECIDED')]
    d['blind_detected'][sid] = bool(fails)
    d['rules'][sid] = sorted({l.split()[1] for l in fails})
    d['undecided'][sid] = sorted({l.split()[1] for l in und})
    print(sid, 'DETECTED' if fails else 'missed', d['rules'][sid], 'undecided:', d['undecided'][sid])
json.dump(d, open(f, 'w'), indent=1, sort_keys=True)
