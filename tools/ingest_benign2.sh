#!/bin/bash
# usage: ingest_benign2.sh Cxx ...   copies /tmp/wc-Cxx/out/{1,2,3} to /verif/benign/Cxx-b{1,2,3} and removes the worktree
for P in "$@"; do
  for n in 1 2 3; do d=/tmp/wc-$P/out/$n; if [ -f $d/patch.diff ]; then mkdir -p /verif/benign/$P-b$n; cp $d/patch.diff /verif/benign/$P-b$n/; cp $d/meta.json /verif/benign/$P-b$n/ 2>/dev/null; fi; done
  git -C /repo worktree remove --force /tmp/wc-$P 2>/dev/null
done
git -C /repo worktree prune
