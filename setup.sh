#!/bin/bash
# Build the fact-extraction driver and warm the dependency check cache (offline).
set -e
cd "$(dirname "$0")"
export CARGO_NET_OFFLINE=true
(cd driver && cargo build --offline 2>&1 | tail -2)
./check --extract-only
