#!/usr/bin/env python3
"""debug helper: symbolic skeleton (calls, stores, returns, guards) of bodies matching a regex"""
import sys, glob, os, re
sys.path.insert(0, '/verif')
from analysis.facts import Facts, norm_path
from analysis.sym import *
from analysis import cfg
f = Facts(os.environ.get('TU_FACTS') or max(glob.glob('/verif/.cache/facts-*.json'), key=os.path.getmtime))
pat = sys.argv[1]
withg = '-g' in sys.argv
for b in f.bodies:
    if not re.search(pat, norm_path(b.path) + ' @' + str(b.impl_self)):
        continue
    print('==', norm_path(b.path), '|', b.impl_self, '|', b.loc(), '| preds:', b.preds_decl)
    for l in cfg.loops(b):
        print('   loop header bb%d blocks=%s exits=%s' % (l.header, sorted(l.blocks), l.exits(b)))
    for blk in b.blocks:
        if blk.cleanup or blk.idx not in b.reachable:
            continue
        g = ''
        for s in blk.stmts:
            if s.kind == 'assign' and (s.lhs.proj or b.var_name(s.lhs.local)) and not (s.span['exp'] and s.span['mac'] == 'vec'):
                rv = simplify(symbolizer(b).rvalue(s.rv, 0, ()))
                if s.lhs.is_local() and rv[0] in ('call',):
                    continue
                print('   bb%-3d L%-4d STORE %s := %s' % (blk.idx, s.span['line'], show_in(b, sym(b, s.lhs)) if s.lhs.proj else b.var_name(s.lhs.local), show_in(b, rv)))
        t = blk.term
        if t.kind == 'call':
            print('   bb%-3d L%-4d CALL %s(%s) -> %s' % (blk.idx, t.span['line'], short(t.callee_res() or '?'), ', '.join(show_in(b, a) for a in args_of(b, t)), b.var_name(t.dest.local) or repr(t.dest)))
        elif t.kind == 'switch':
            print('   bb%-3d L%-4d SWITCH %s %s else->%s' % (blk.idx, t.span['line'], show_in(b, sym(b, t.discr)), t.arms, t.otherwise))
        elif t.kind == 'drop':
            print('   bb%-3d L%-4d DROP %r : %s' % (blk.idx, t.span['line'], t.place, t.raw['ty']))
        elif t.kind == 'assert':
            print('   bb%-3d L%-4d ASSERT %s' % (blk.idx, t.span['line'], t.msg['k'] + ':' + t.msg.get('op', '')))
        elif t.kind == 'return':
            print('   bb%-3d L%-4d RETURN' % (blk.idx, t.span['line']))
        if withg and t.kind in ('call', 'return'):
            print('          guards: %s' % [repr(x) for x in guards_at(b, blk.idx)])
    for v, bb in ret_values(b):
        print('   RET bb%d %s' % (bb, show_in(b, v)))
