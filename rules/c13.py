"""C13 Correction metrics are total, bounded, calibrated and aggregate correctly."""
import re
from analysis.engine import rule, AnchorMissing
from analysis import cfg, callgraph
from analysis.facts import norm_path
from analysis.sym import sym, show_in, nosite, peel, core, walk, ret_values, args_of, guards_at, atoms_at, \
    variant_facts_at, cmp_facts_at, init_value, edge_guards, symbolizer, simplify, loop_source, defs_of, var_defs, conj_terms
from analysis.pat import match, Call, Cap, ANY, Pred, Const, has, chain_names
from rules.common import closure_of, panic_sites, local_defs

M = 'metrics::'
ENTRIES = ('metrics::spelling_correction_f1', 'metrics::whitespace_correction_f1', 'metrics::binary_f1', 'metrics::accuracy',
           'metrics::mean_edit_distance', 'metrics::mean_normalized_edit_distance')


def _var(name):
    return Pred(lambda t: t[0] == 'var' and t[1] == name)


def N(b, name):
    """matches a tree that denotes the named local: either the mutable-state node ('var', name, _) or, for an
    immutable let, the (expanded) value of its single definition"""
    d = [nosite(core(v)) for site, v in var_defs(b, name)]

    def f(t):
        if t[0] == 'var' and t[1] == name:
            return True
        ct = nosite(core(t))
        return any(ct == x for x in d)
    return Pred(f)


def _is_float(b, s):
    return s.lhs is not None and b.local_ty(s.lhs.local) in ('f64', 'f32') and not s.lhs.proj


def _clamped_count(t):
    """cast(max(count, k>=1))"""
    c = core(t)

    def pos_const(u):
        if u[0] != 'const':
            return False
        if u[2] is not None:
            return u[2] >= 1
        m = re.match(r'^(?:const )?([0-9.]+)f(32|64)$', u[1])
        return bool(m) and float(m.group(1)) >= 1.0
    return match(c, Call('::max', ANY, Pred(pos_const))) or match(c, Call('::max', Pred(pos_const), ANY))


@rule('C13', 'R-C13-1', 'T4b GUARD (divisions)',
      'every floating point division in metrics.rs divides by a count clamped with .max(k>=1), by a non-zero constant, or '
      '(the F-beta quotient) under the guard precision + recall > 0; F-beta has its defining shape')
def r1(ctx):
    bodies = [b for b in ctx.facts.bodies if b.file() == 'src/metrics.rs' and not b.span['exp'] and 'pyo3' not in b.path and '__pyfunction' not in b.path]
    n = 0
    for b in bodies:
        z = symbolizer(b)
        for s in b.stmts():
            if s.kind == 'assign' and s.rv.kind == 'binop' and s.rv.op == 'Div' and _is_float(b, s):
                n += 1
                ctx.stats['bodies_inspected'].add(b.path)
                den = sym(b, s.rv.ops[1])
                d = core(den)
                ok = False
                why = show_in(b, den)
                if d[0] == 'const':
                    ok = not d[1].replace('const ', '').startswith('0')
                elif _clamped_count(den):
                    ok = True
                elif d[0] in ('var', 'phi'):
                    loc = d[2] if d[0] == 'var' else d[1]
                    whole, partial = defs_of(b, loc)
                    vals = [simplify(z.rvalue(x.rv, 0, ())) if hasattr(x, 'rv') else simplify(z.call(x)) for x in whole]
                    ok = bool(vals) and all(_clamped_count(v) or (core(v)[0] == 'const' and not core(v)[1].replace('const ', '').startswith('0')) for v in vals)
                    why = '%s = %s' % (show_in(b, den), [show_in(b, v) for v in vals])
                else:
                    # guarded sum: precision + recall > 0 dominates
                    facts = cmp_facts_at(b, s.bb)
                    ok = any(op == 'Gt' and core(y)[0] == 'const' and core(x)[0] == 'bin' and core(x)[1] == 'Add' for op, x, y in facts)
                ctx.require(ok, b, 'division|' + norm_path(b.path).rsplit('::', 1)[-1], 'division at %s:%d has a non-zero divisor (%s)' % (b.file(), s.span['line'], why[:80]),
                            'division at line %d divides by %s, which can be 0: the metric is NaN/inf for empty input' % (s.span['line'], why), s.span)
    if n < 8:
        raise AnchorMissing('expected at least 8 float divisions in metrics.rs, found %d' % n)
    # F-beta shape
    f = ctx.body(M + '_f1')
    rv = ret_values(f)
    ok = len(rv) == 1 and rv[0][0][0] == 'agg' and len(rv[0][0][3]) == 3
    if not ok:
        raise AnchorMissing('_f1 returns (f1, precision, recall)')
    tup = rv[0][0][3]
    from rules.common import local_defs
    from analysis.sym import init_value

    def defs_of_comp(t):
        t = core(t)
        if t[0] in ('var', 'phi'):
            loc = t[2] if t[0] == 'var' else t[1]
            return [core(v) for site, v in local_defs(f, loc)]
        return [t]
    fs = defs_of_comp(tup[0])
    pr = defs_of_comp(tup[1])
    rc = defs_of_comp(tup[2])

    def ratio(other):
        return lambda t: t[0] == 'bin' and t[1] == 'Div' and match(t[2], ('arg', 1, ANY)) and \
            (match(t[3], Call('Ord::max', ('bin', 'Add', ('arg', 1, ANY), ('arg', other, ANY)), Const(1))))
    okp = len(pr) == 1 and ratio(2)(pr[0])
    okr = len(rc) == 1 and ratio(3)(rc[0])
    ctx.require(okp, f, 'precision', 'precision = tp / max(tp + fp, 1)', 'precision = %s' % [show_in(f, x) for x in pr])
    ctx.require(okr, f, 'recall', 'recall = tp / max(tp + fn, 1)', 'recall = %s' % [show_in(f, x) for x in rc])
    zero = [x for x in fs if x[0] == 'const' and x[1].replace('const ', '').startswith('0')]
    quo = [x for x in fs if x[0] == 'bin' and x[1] == 'Div']
    P = Pred(lambda t: len(pr) == 1 and nosite(core(t)) == nosite(pr[0]))
    R_ = Pred(lambda t: len(rc) == 1 and nosite(core(t)) == nosite(rc[0]))
    R = R_
    B2 = Pred(lambda t: match(core(t), Call('powi', ('arg', 4, ANY), Const(2))) or match(core(t), ('bin', 'Mul', ('arg', 4, ANY), ('arg', 4, ANY))))

    def comm(op, x, y):
        return Pred(lambda t: match(t, ('bin', op, x, y)) or match(t, ('bin', op, y, x)))
    one_b2 = comm('Add', Pred(lambda t: t[0] == 'const' and t[1].replace('const ', '').startswith('1')), B2)
    num_ok = len(quo) == 1 and (match(quo[0][2], ('bin', 'Mul', ('bin', 'Mul', one_b2, P), R)) or match(quo[0][2], ('bin', 'Mul', one_b2, comm('Mul', P, R))) or
                                match(quo[0][2], ('bin', 'Mul', ('bin', 'Mul', one_b2, R), P)))
    den_ok = len(quo) == 1 and match(quo[0][3], comm('Add', comm('Mul', B2, P), R))
    # equivalent form written over the counts: (1+b^2) tp / ((1+b^2) tp + b^2 fn + fp)
    counts_ok = False
    if len(quo) == 1 and not (num_ok and den_ok):
        TP, FP, FN = ('arg', 1, ANY), ('arg', 2, ANY), ('arg', 3, ANY)
        den = quo[0][3]
        if den[0] == 'call' and den[1].endswith('::max'):
            den = den[2][0]
        terms = []

        def flat(t):
            if t[0] == 'bin' and t[1] == 'Add':
                flat(t[2])
                flat(t[3])
            else:
                terms.append(t)
        flat(den)
        wtp = comm('Mul', one_b2, TP)
        counts_ok = match(quo[0][2], wtp) and len(terms) == 3 and any(match(t, wtp) for t in terms) and \
            any(match(t, comm('Mul', B2, FN)) for t in terms) and any(match(t, FP) for t in terms)
        if counts_ok:
            num_ok = den_ok = True
            zero = zero or [()]
    ctx.require(len(zero) == 1 and len(quo) == 1 and num_ok and den_ok, f, 'f-beta',
                'F-beta = (1 + b^2) * P * R / (b^2 * P + R), 0 when P + R == 0',
                'F-beta is %s: the beta weight must multiply the PRECISION term of the denominator (recall-weighted F-beta)' % [show_in(f, x) for x in fs])


PANIC_INVENTORY = {
    # (function, callee/kind) -> (allowed count, status, reason)
    ('edit::_calculate_edit_matrices', 'Option::expect'): (1, 'trusted', 'min over a candidate list that always holds Delete and Insert (R-C12-2 unconditional candidates)'),
    ('edit::operations', 'panic'): (1, 'trusted', 'EditOp::None is never stored in a cell reached by the backtrace (every cell is written by the DP, R-C12-2)'),
    ('text::match_words_with', 'Option::expect'): (1, 'trusted', 'max over a non-empty literal array of three candidates'),
    ('text::match_words_with', 'panic'): (1, 'trusted', 'MatchOp::None is overwritten in every cell (R-C18-1)'),
    ('unicode::CharString::byte_start_end', 'panic'): (1, 'trusted', 'index within 0..=len: callers pass indices derived from len() / enumerate'),
    ('unicode::CharString::chars::{closure#0}', 'Option::unwrap'): (1, 'trusted', 'get(idx) for idx < len()'),
    ('utils::run_length_encode', 'Option::unwrap'): (1, 'trusted', 'first() after the is_empty() early return'),
    ('whitespace::operations', 'Option::unwrap'): (2, 'guarded', 'to_char.unwrap() dominated by to_char.is_some() (R-C10-2)'),
    ('metrics::_group_words', 'Option::unwrap'): (2, 'trusted', 'get_char(idx) with idx taken from the edit script positions of the same strings'),
    ('metrics::_group_words', 'assert'): (1, 'finding', 'closing assertion assumes words = inserted spaces + 1 per group'),
}


def _site_kind(t, d):
    n = t.callee_res() or ''
    if d.startswith('assert'):
        return None
    if n.startswith('core::panicking::') or n.startswith('std::rt::begin_panic') or n.startswith('core::panicking::assert_failed'):
        mac = t.span.get('mac', '')
        if mac in ('assert', 'assert_eq', 'assert_ne', 'debug_assert'):
            return 'assert'
        return 'panic'
    m = re.search(r'(Option|Result)::(unwrap|expect|unwrap_err|expect_err)$', n)
    if m:
        return '%s::%s' % (m.group(1), m.group(2))
    return None


@rule('C13', 'R-C13-2', 'T9 PANIC-SITES',
      'the explicit panic sites (panic!/assert!/unwrap/expect) reachable from the metric entry points are exactly the '
      'reviewed inventory; each is guard-discharged, precondition-trusted with a reason, or a known finding')
def r2(ctx):
    ents = [b.path for b in ctx.facts.bodies if norm_path(b.path) in ENTRIES]
    if len(ents) != len(ENTRIES):
        raise AnchorMissing('metric entry points (found %d of %d)' % (len(ents), len(ENTRIES)))
    rb = callgraph.reachable(ctx.facts, ents)
    found = {}
    def range_discharged(b, t):
        """`cs.get(i).unwrap()` / `cs.get_char(i).expect(..)` where i runs over 0..cs.len() of the same CharString: get() is Some for every n < len
        (R-C16-10), so the site cannot fire"""
        from rules.common import range_bounds
        from analysis.sym import loop_source
        if not t.args:
            return False
        x = peel(sym(b, t.args[0]))
        if not (x[0] == 'call' and re.search(r'CharString::(get|get_char)$', x[1]) and len(x[2]) == 2):
            return False
        cs_, i_ = nosite(core(x[2][0])), nosite(core(x[2][1]))
        for nx in b.calls(r'::next$'):
            if nosite(core(('unwrap', sym(b, nx.dest)))) != i_:
                continue
            rb_ = range_bounds(loop_source(b, nx))
            if rb_ is not None and rb_[0] == 0 and not isinstance(rb_[1], int) and match(core(rb_[1]), Call('CharString::len', Pred(lambda u: nosite(core(u)) == cs_))):
                return True
        return False
    for b in rb:
        ctx.stats['bodies_inspected'].add(b.path)
        for t, d in panic_sites(b):
            k = _site_kind(t, d)
            if k is None:
                continue
            if k in ('Option::unwrap', 'Option::expect') and range_discharged(b, t):
                ctx.ok(b, '`%s` at line %d is discharged: the position runs over 0..len() of the same CharString' % (k, t.span['line']), t.span)
                continue
            found.setdefault((norm_path(b.path), k), []).append((b, t))
    for key, sites in sorted(found.items()):
        fn, kind = key
        inv = PANIC_INVENTORY.get(key)
        b, t = sites[0]
        if inv is None:
            for b, t in sites:
                ctx.fail(b, 'unreviewed-panic-site|' + kind, 'unreviewed explicit panic site `%s` in %s (line %d) is reachable from the metric entry '
                         'points: the metrics must be total' % (kind, fn, t.span['line']), t.span)
            continue
        allowed, status, reason = inv
        if len(sites) > allowed:
            ctx.fail(b, 'unreviewed-panic-site|' + kind, '%s has %d `%s` sites, the reviewed inventory has %d: a new panic site is reachable from '
                     'the metric entry points' % (fn, len(sites), kind, allowed), sites[-1][1].span)
            continue
        if status == 'finding':
            ctx.fail(b, 'panic-site|' + kind, 'D7: the closing assert! of _group_words is reachable: it fails when input or prediction has zero words '
                     '(spelling_correction_f1(["ab c"], [""], [""]) panics)', t.span)
            continue
        if status == 'guarded':
            for b, t in sites:
                x = nosite(sym(b, t.args[0]))
                g = any(pol is True and match(tt, Call('Option::is_some', Pred(lambda u: nosite(u) == x))) for tt, pol, gg in atoms_at(b, t.bb))
                ctx.require(g, b, 'guard-lost|' + kind, '%s: `%s` at line %d is dominated by is_some()' % (fn, kind, t.span['line']),
                            '%s: `%s` at line %d lost its is_some() guard' % (fn, kind, t.span['line']), t.span)
            continue
        ctx.ok(b, '%s: %d x `%s` -- trusted: %s' % (fn, len(sites), kind, reason), t.span)
    ctx.ok(None, 'call graph: %d bodies reachable from %d metric entry points' % (len(rb), len(ents)))


@rule('C13', 'R-C13-3', 'T2 CHAIN (set comparisons)',
      'whitespace: tp = gt ∩ pred, fp = pred − gt, fn = gt − pred over the operation sets of (input,target) and '
      '(input,predicted); spelling: tp = misspelled ∩ restored, fp = changed − correct, fn = misspelled − restored; the '
      '"nothing to evaluate" flag is the conjunction of both sets being empty; binary counts follow the confusion table')
def r3(ctx):
    def T_(pat):
        return Pred(lambda t: match(core(t), pat))

    def setop(t):
        """(op, a, b) of a HashSet::intersection/difference tree (core)"""
        t = core(t)
        if t[0] == 'call' and re.search(r'HashSet::(intersection|difference)$', t[1]) and len(t[2]) == 2:
            return t[1].rsplit('::', 1)[-1], t[2][0], t[2][1]
        return None
    def card(body, t, depth=0):
        """(op, A, B) when the number `t` is |A ∩ B| ('intersection') or |A − B| ('difference'): the count of a set view, the count of
        `A.iter().filter(|x| [!]B.contains(x))`, or the complement within A: |A| − |A ∩ B| = |A − B| and |A| − |A − B| = |A ∩ B|"""
        from analysis.seq import seq_of_iter, ITEM
        c = core(t)
        if c[0] == 'call' and re.search(r'::count$', c[1]) and len(c[2]) == 1:
            so = setop(c[2][0])
            if so is not None:
                return so
            segs = seq_of_iter(ctx.facts, body, peel(t)[2][0] if peel(t)[0] == 'call' else c[2][0])
            if segs is not None and len(segs) == 1 and segs[0].kind == 'each' and core(segs[0].elem) == ITEM and len(segs[0].conds) == 1:
                cond, pol = segs[0].conds[0]
                cc = core(cond)
                while cc[0] == 'un' and cc[1] == 'Not':
                    cc, pol = core(cc[2]), not pol
                if cc[0] == 'call' and cc[1].endswith('HashSet::contains') and len(cc[2]) == 2 and core(cc[2][1]) == ITEM:
                    from analysis.seq import unhash
                    return ('intersection' if pol else 'difference'), core(unhash(segs[0].src)), core(cc[2][0])   # a count does not depend on the order
            return None
        if c[0] == 'bin' and c[1] == 'Sub' and depth < 2:
            a = core(c[2])
            inner = card(body, c[3], depth + 1)
            if inner is not None and a[0] == 'call' and a[1].endswith('HashSet::len') and nosite(core(a[2][0])) == nosite(inner[1]):
                return ('difference' if inner[0] == 'intersection' else 'intersection'), inner[1], inner[2]
        return None
    w = ctx.body(M + '_whitespace_correction_tp_fp_fn')
    GT = Call('_whitespace_ops_to_set', Call('whitespace::operations', ('arg', 1, ANY), ('arg', 3, ANY), ANY), ('arg', 4, ANY))
    PR = Call('_whitespace_ops_to_set', Call('whitespace::operations', ('arg', 1, ANY), ('arg', 2, ANY), ANY), ('arg', 4, ANY))
    oks_all = [(v, blk) for v, blk in ret_values(w) if v[0] == 'agg' and v[2].endswith('Result::Ok')]
    # a return of constants is the general result specialised to "both operation sets are empty" only when it is reached under exactly that
    # condition (after the mode filter): `(true, 0, 0, 0)` under any other test (e.g. "all raw operations are Keep") and a constant flag on
    # the general path change which sequences count as "nothing to evaluate" for the sequence average
    from rules.common import emptiness_at
    oks = []
    for v, blk in oks_all:
        tp_ = v[3][0][3] if v[3][0][0] == 'agg' and len(v[3][0][3]) == 5 else None
        if tp_ is not None and core(tp_[0])[0] == 'const':
            flag = bool(core(tp_[0])[2])
            ge = emptiness_at(w, blk, lambda c: match(c, GT))
            pe = emptiness_at(w, blk, lambda c: match(c, PR))
            okc = (flag and ge is True and pe is True and all(core(tp_[i])[0] == 'const' and core(tp_[i])[2] == 0 for i in (1, 2, 3))) or \
                (not flag and (ge is False or pe is False))
            ctx.require(okc, w, 'ws-empty-flag-const', 'a constant "nothing to evaluate" flag is returned under the matching emptiness of both operation sets',
                        'the "nothing to evaluate" flag is the constant %s at line %d, not `gt_opset.is_empty() && pred_opset.is_empty()` (known there: gt empty = %s, pred empty = %s): '
                        'in mode Insertions a sequence with deletions only has empty sets, is no longer flagged, and the sequence average scores it 0 instead of 1'
                        % (flag, w.blocks[blk].term.span['line'], ge, pe), w.blocks[blk].term.span)
            continue
        oks.append(v)
    if len(oks) != 1 or oks[0][3][0][0] != 'agg' or len(oks[0][3][0][3]) != 5:
        raise AnchorMissing('Ok((empty, tp, fp, fn, info)) of _whitespace_correction_tp_fp_fn')
    tup = oks[0][3][0][3]
    want = {1: ('tp', 'intersection', GT, PR, True), 2: ('fp', 'difference', PR, GT, False), 3: ('fn', 'difference', GT, PR, False)}
    for i, (nm, op, A, B, symm) in want.items():
        c = core(tup[i])
        so = card(w, tup[i])
        if so is None and c[0] == 'call' and c[1].endswith('Vec::len') and core(c[2][0])[0] == 'call' and core(c[2][0])[1].endswith('_offset_operations'):
            # the length of the info list: _offset_operations yields exactly one entry per element of the set view it is given
            from analysis.seq import seq_of
            oo = ctx.body(M + '_offset_operations')
            orv = ret_values(oo)
            osegs = seq_of(ctx.facts, oo, orv[0][0]) if len(orv) == 1 else None
            if osegs is not None and len(osegs) == 1 and osegs[0].kind == 'each' and not osegs[0].conds and has(osegs[0].src, ('arg', 1, ANY)) and \
                    not [x for x in walk(osegs[0].src) if isinstance(x, tuple) and x and x[0] == 'call' and re.search(r'::(filter|filter_map|take|skip|step_by|dedup|unique)\w*$', x[1])]:
                so = setop(core(c[2][0])[2][0])
        ok = so is not None and so[0] == op and ((match(so[1], A) and match(so[2], B)) or (symm and match(so[1], B) and match(so[2], A)))
        ctx.require(ok, w, 'ws-set-op|' + nm, 'whitespace %s = count of %s of the (input,target) / (input,predicted) operation sets in the right order' % (nm, op),
                    'whitespace %s = %s' % (nm, show_in(w, tup[i])))
    terms = conj_terms(w, tup[0])
    oke = terms is not None and len(terms) == 2 and any(match(t, Call('HashSet::is_empty', GT)) for t in terms) and any(match(t, Call('HashSet::is_empty', PR)) for t in terms)
    ctx.require(oke, w, 'ws-empty-flag', 'empty = gt_opset.is_empty() && pred_opset.is_empty()', 'empty flag terms: %s' % ([show_in(w, t) for t in terms] if terms else None))
    s = ctx.body(M + '_spelling_correction_tp_fp_fn')
    MIS = ('field', Call('edit::edited_words', ('arg', 1, ANY), ('arg', 3, ANY)), 1)
    CHG = ('field', Call('edit::edited_words', ('arg', 1, ANY), ('arg', 2, ANY)), 0)
    MAT = ('field', Call('text::match_words', ('arg', 2, ANY), ('arg', 3, ANY), Const(0)), 0)

    def proj(comp):
        """the set of component `comp` of the matched (prediction, target) pairs: map(|p| p.comp).collect() or unzip().comp"""
        from analysis.seq import seq_of, seq_of_iter, ITEM
        s_body = ctx.body(M + '_spelling_correction_tp_fp_fn')

        def f(t):
            c = peel(t)
            if c[0] == 'field' and c[2] == comp and peel(c[1])[0] == 'call' and peel(c[1])[1].endswith('unzip'):
                segs = seq_of_iter(ctx.facts, s_body, peel(c[1])[2][0])
                return segs is not None and len(segs) == 1 and segs[0].kind == 'each' and not segs[0].conds and match(core(segs[0].src), MAT) and core(segs[0].elem) == ITEM
            segs = seq_of(ctx.facts, s_body, t)
            return segs is not None and len(segs) == 1 and segs[0].kind == 'each' and not segs[0].conds and match(core(segs[0].src), MAT) and \
                core(segs[0].elem) == ('field', ITEM, comp)
        return Pred(f)
    RESTORED, MPRED = proj(1), proj(0)
    CORRECT = Call(M + '_group_words', ('arg', 1, ANY), ('arg', 2, ANY), MPRED, ANY)
    rv = ret_values(s)
    if len(rv) != 1 or rv[0][0][0] != 'agg' or len(rv[0][0][3]) != 5:
        raise AnchorMissing('(empty, tp, fp, fn, info) result of _spelling_correction_tp_fp_fn')
    tup = rv[0][0][3]
    want = {1: ('tp', 'intersection', MIS, RESTORED, True), 2: ('fp', 'difference', CHG, CORRECT, False), 3: ('fn', 'difference', MIS, RESTORED, False)}
    for i, (nm, op, A, B, symm) in want.items():
        c = core(tup[i])
        so = card(s, tup[i])
        ok = so is not None and so[0] == op and ((match(so[1], A) and match(so[2], B)) or (symm and match(so[1], B) and match(so[2], A)))
        ctx.require(ok, s, 'sp-set-op|' + nm, 'spelling %s: %s of the right sets (misspelled = edited_words(input,target).1, changed = '
                    'edited_words(input,predicted).0, restored / matching = projections of match_words(predicted,target), correct = _group_words(..))' % (nm, op),
                    'spelling %s = %s' % (nm, show_in(s, tup[i])))
    terms = conj_terms(s, tup[0])
    oke = terms is not None and len(terms) == 2 and any(match(t, Call('HashSet::is_empty', MIS)) for t in terms) and any(match(t, Call('HashSet::is_empty', CHG)) for t in terms)
    ctx.require(oke, s, 'sp-empty-flag', 'empty = misspelled.is_empty() && changed.is_empty() (a sequence with false positives is not "empty")',
                'the "nothing to evaluate" flag is %s: a sequence whose prediction introduces errors is scored (1,1,1)' % (
                    [show_in(s, t) for t in terms] if terms else show_in(s, tup[0])))
    c = ctx.body(M + '_count_tp_fp_fn')
    clo = [x for x in ctx.facts.bodies if x.kind == 'Closure' and x.parent == c.path]
    ok = len(clo) == 1
    if ok:
        table = {}
        for v, blk in ret_values(clo[0]):
            cv = core(v)
            inc = [i for i in range(3) if cv[3][i][0] == 'bin' and cv[3][i][1] == 'Add']
            gs = {}
            for g in guards_at(clo[0], blk):
                t_, pol = g.atom()
                ct = core(t_)
                if match(ct, ('field', ('arg', 3, ANY), 0)):
                    gs['p'] = pol if pol is not None else (g.values == {1})
                if match(ct, ('field', ('arg', 3, ANY), 1)):
                    gs['t'] = pol if pol is not None else (g.values == {1})
            if inc:
                table[inc[0]] = gs
        ok = table.get(0) == {'p': True, 't': True} and table.get(1) == {'p': True, 't': False} and table.get(2) == {'p': False, 't': True}
        ctx.require(ok, clo[0], 'confusion-table', 'binary counts: tp (1,1), fp (1,0), fn (0,1)', 'table: %s' % table)
    rvc = ret_values(c)
    if not clo and len(rvc) == 1 and peel(rvc[0][0])[0] == 'agg' and len(peel(rvc[0][0])[3]) == 3 and cfg.loops(c):
        # the same count written as a loop over zip(predictions, targets) with three counters
        from analysis.sym import loop_source
        nxs = [t for t in c.calls(r'::next$')]
        src = core(loop_source(c, nxs[0])) if len(nxs) == 1 else ()
        okz = bool(src) and match(src, Call('Iterator::zip', ('arg', 1, ANY), ('arg', 2, ANY)))
        item = nosite(core(('unwrap', sym(c, nxs[0].dest)))) if nxs else None
        table = {}
        from rules.common import iteration_table
        cnts = {}
        for pos, comp in enumerate(peel(rvc[0][0])[3]):
            cc = core(comp)
            if cc[0] == 'var' and len(cc) > 2:
                cnts[pos] = cc[2]
        rows = iteration_table(c, cfg.loops(c)[0], {str(k): v for k, v in cnts.items()}) or []
        for row in rows:
            facts_ = {}
            bad_ = False
            for t_, pol_ in row['atoms']:
                ct = nosite(core(t_))
                key = 'p' if ct == ('field', item, 0) else ('t' if ct == ('field', item, 1) else None)
                if key:
                    if key in facts_ and facts_[key] != pol_:
                        bad_ = True       # the same flag tested both ways: not a path
                    facts_[key] = pol_
            if bad_:
                continue
            inc = [int(k) for k, d_ in row['delta'].items() if d_ == 1]
            if len(inc) == 1:
                table.setdefault(inc[0], [])
                if facts_ not in table[inc[0]]:
                    table[inc[0]].append(facts_)
        table = {k: (v[0] if len(v) == 1 else v) for k, v in table.items()}
        ok = okz and table.get(0) == {'p': True, 't': True} and table.get(1) == {'p': True, 't': False} and table.get(2) == {'p': False, 't': True}
        ctx.require(ok, c, 'confusion-table', 'binary counts: tp (1,1), fp (1,0), fn (0,1) over zip(predictions, targets)', 'source %s, table: %s' % (show_in(c, src)[:60] if src else '?', table))
        return
    ok = len(rvc) == 1 and match(core(rvc[0][0]), Call('fold', Call('Iterator::zip', ('arg', 1, ANY), ('arg', 2, ANY)), ANY, ANY))
    ctx.require(ok, c, 'binary-zip', '_count_tp_fp_fn folds over zip(predictions, targets)', None)


def _names_match(b, t, a, c):
    return False


@rule('C13', 'R-C13-4', 'T2/T13 (aggregation)',
      'micro averaging = _f1 of the summed counts; sequence averaging = mean over sequences of _f1 (or (1,1,1) for an empty '
      'sequence) divided by the clamped sequence count; accuracy / mean edit distance have the shape of their formulas')
def r4(ctx):
    from analysis.reduce import reduce_of
    from analysis.alts import flatten
    from analysis.seq import ITEM
    VALUES = ('field', ('arg', 1, ANY), 'values')

    def summed(body, tree, init_zero):
        """reduce form `sum over self.values of elem` -> elem tree, else None"""
        r = reduce_of(ctx.facts, body, tree)
        if r is None or r.op != 'add' or r.init is None or len(r.segs) != 1 or r.segs[0].kind != 'each' or r.segs[0].conds:
            return None
        i0 = core(r.init)
        if not (i0[0] == 'const' and i0[2] in (0, 0.0) or (i0[0] == 'const' and i0[1].replace('const ', '').startswith('0'))):
            return None
        if not match(core(r.segs[0].src), VALUES):
            return None
        return r.segs[0].elem
    m = ctx.body(M + 'TpFpFn::micro_f1')
    rv = ret_values(m)
    ok = len(rv) == 1 and rv[0][0][0] == 'agg'
    if ok:
        f = peel(init_value(m, rv[0][0][3][0]))
        ok = f[0] == 'call' and f[1].endswith('metrics::_f1') and len(f[2]) == 4 and match(core(f[2][3]), ('arg', 2, ANY))
        if ok:
            el = [summed(m, a_, 0) for a_ in f[2][:3]]
            ok = all(e_ is not None and core(e_) == ('field', ITEM, i + 1) for i, e_ in enumerate(el))
    ctx.require(ok, m, 'micro', 'micro_f1 = _f1(sum tp, sum fp, sum fn, beta) over all sequences', 'micro_f1 = %s' % [show_in(m, v) for v, _ in rv])
    s = ctx.body(M + 'TpFpFn::sequence_averaged_f1')
    rv = ret_values(s)
    ok = len(rv) == 1 and rv[0][0][0] == 'agg' and rv[0][0][3][0][0] == 'agg' and len(rv[0][0][3][0][3]) == 3
    if ok:
        parts = [peel(x) for x in rv[0][0][3][0][3]]
        nums = {nosite(core(p_[3])) for p_ in parts if p_[0] == 'bin' and p_[1] == 'Div'}
        num = list(nums)
        okn = len(num) == 1 and match(num[0], Call('Ord::max', Call('Vec::len', ANY), Const(1)))
        ctx.require(okn, s, 'seq-count', 'the divisor is the clamped number of sequences', 'divisors: %s' % [show_in(s, x) for x in num])
        # .. and the vector whose length is the divisor gets one entry for EVERY sequence: the push is on every path of the per-sequence code
        from rules.common import closures_in
        pushers = [(x, t) for x in [s] + closures_in(ctx, s) for t in x.calls(r'Vec::push$')]
        okp = len(pushers) == 1
        if okp:
            x, t = pushers[0]
            lp = cfg.innermost_loop(x, t.bb)
            if x is not s:
                okp = all(cfg.must_pass(x, 0, r, via_blocks=[t.bb]) for r in x.returns)
            else:
                okp = lp is not None and all(cfg.must_pass(x, lp.header, l, via_blocks=[t.bb], from_succ=True) for l in lp.latches)
        ctx.require(okp, s, 'seq-count-all', 'every sequence adds one entry to the list whose length is the divisor',
                    'the list whose length divides the sums does not get an entry for every sequence (an early return for "empty" sequences skips the push): the sum still '
                    'counts 1.0 for them, so the average exceeds 1')
        for i, p in enumerate(parts):
            el = summed(s, p[2], 0.0) if p[0] == 'bin' and p[1] == 'Div' else None
            if el is None:
                ok = False
                continue
            kinds = {}
            for a in flatten(el):
                cv = core(a.value)
                flag = None
                for tt, pol in a.atoms:
                    if core(tt) == ('field', ITEM, 0):
                        flag = pol
                if match(cv, ('field', Call('metrics::_f1', ('field', ITEM, 1), ('field', ITEM, 2), ('field', ITEM, 3), ('arg', 2, ANY)), i)):
                    kinds['f1'] = flag
                elif cv[0] == 'const' and cv[1].replace('const ', '').startswith('1'):
                    kinds['one'] = flag
                else:
                    kinds['other:' + show_in(s, cv)[:40]] = flag
            okk = kinds == {'f1': False, 'one': True}
            ctx.require(okk, s, 'per-sequence|%d' % i, 'per sequence, component %d: 1 if empty else _f1(tp, fp, fn, beta).%d' % (i, i), 'per-sequence values: %s' % kinds)
            ok = ok and okk
    ctx.require(ok, s, 'sequence-averaged', 'sequence_averaged_f1 = sum of per-sequence values / clamped count', None)
    from analysis.alts import ret_alts
    cf = ctx.body(M + '_correction_f1')
    kinds = {}
    for a in ret_alts(ctx.facts, cf):
        v = peel(a.value)
        if v[0] == 'agg' and v[2].endswith('Result::Ok'):
            cv = core(v[3][0])
            flag = None
            for tt, pol in a.atoms:
                if match(core(tt), ('arg', 5, ANY)):
                    flag = pol
            if match(cv, Call('TpFpFn::sequence_averaged_f1', ANY, ('arg', 4, ANY))):
                kinds['seq'] = flag
            elif match(cv, Call('TpFpFn::micro_f1', ANY, ('arg', 4, ANY))):
                kinds['micro'] = flag
    if not kinds:
        raise AnchorMissing('the Ok(..) results of _correction_f1 (neither micro_f1 nor sequence_averaged_f1 recognised)')
    ctx.require(kinds == {'seq': True, 'micro': False}, cf, 'mode-switch', 'sequence_averaged selects sequence_averaged_f1, otherwise micro_f1', 'modes: %s' % kinds)
    a = ctx.body(M + 'accuracy')
    oks = [v for v, blk in ret_values(a) if v[0] == 'agg' and v[2].endswith('Result::Ok')]
    ok = len(oks) == 1
    if ok:
        cv = core(oks[0][3][0])
        ok = cv[0] == 'bin' and cv[1] == 'Div' and match(cv[2], Call('Iterator::sum', Call('Iterator::map', Call('Iterator::zip', ANY, ANY), ANY))) and \
            match(cv[3], Call('Ord::max', Call('len', ('arg', 1, ANY)), Const(1)))
        if ok:
            clo = closure_of(ctx, cv[2][2][0][2][1])
            crv = ret_values(clo)
            ok = len(crv) == 1 and match(core(crv[0][0]), ('bin', 'Eq', ('field', ('arg', 2, ANY), 0), ('field', ('arg', 2, ANY), 1)))
    ctx.require(ok, a, 'accuracy', 'accuracy = #(p == t) / max(n, 1)', None)
    me = ctx.body(M + '_mean_edit_distance')
    oks = [v for v, blk in ret_values(me) if v[0] == 'agg' and v[2].endswith('Result::Ok')]
    ok = len(oks) == 1
    if ok:
        cv = core(oks[0][3][0])
        ok = cv[0] == 'bin' and cv[1] == 'Div' and has(cv[2], Call('ParallelIterator::sum', ANY)) and match(cv[3], Call('Ord::max', ('arg', 3, ANY), Const(1)))
        mp = [x for x in walk(cv[2]) if isinstance(x, tuple) and x and x[0] == 'call' and x[1].endswith('::map')]
        if ok and mp:
            clo = closure_of(ctx, mp[0][2][1])
            crv = ret_values(clo)
            ok = len(crv) == 1 and match(core(crv[0][0]), Call('edit::distance', ANY, ANY, ANY, Const(0), Const(0), ANY))
    ctx.require(ok, me, 'mean-edit-distance', 'mean edit distance = sum distance(s, t) / max(n, 1) (Levenshtein: no swaps, no whitespace restriction)', None)
    for fn, flag in (('mean_edit_distance', 0), ('mean_normalized_edit_distance', 1)):
        w = ctx.body(M + fn)
        c = [t for t in w.calls(M + '_mean_edit_distance$')]
        ok = len(c) == 1 and match(core(sym(w, c[0].args[4])), Const(flag)) and match(core(sym(w, c[0].args[2])), Call('len', ('arg', 1, ANY)))
        ctx.require(ok, w, 'wrapper|' + fn, '%s = _mean_edit_distance(.., len, .., normalized=%s)' % (fn, bool(flag)), None)
    bf = ctx.body(M + 'binary_f1')
    oks = [v for v, blk in ret_values(bf) if v[0] == 'agg' and v[2].endswith('Result::Ok')]
    ok = len(oks) == 1 and match(core(init_value(bf, oks[0][3][0])), Call('metrics::_f1', ('field', Call('_count_tp_fp_fn', ('arg', 1, ANY), ('arg', 2, ANY)), 0),
                                                                          ('field', Call('_count_tp_fp_fn', ANY, ANY), 1), ('field', Call('_count_tp_fp_fn', ANY, ANY), 2), ('arg', 3, ANY)))
    ctx.require(ok, bf, 'binary-f1', 'binary_f1 = _f1(counts(predictions, targets), beta)', None)


@rule('C13', 'R-C13-5', 'T4 GUARD (decision table of the evaluated operations, word attribution bound)',
      'the whitespace operation sets keep exactly Insert|Delete in InsertionsAndDeletions mode, Insert in Insertions mode and '
      'Delete in Deletions mode (Keep is never an evaluated operation); _group_words attributes an operation at index i to the '
      'first word whose end is >= i (the whitespace after a word belongs to that word)')
def r5(ctx):
    from analysis.alts import ret_alts_paths, eval_conds
    from rules.common import closures_in
    b = ctx.body(M + '_whitespace_ops_to_set')
    ops_adt = ctx.facts.adts.get('whitespace::Operation')
    mode_adt = ctx.facts.adts.get('metrics::WhitespaceCorrectionMode')
    if not ops_adt or not mode_adt:
        raise AnchorMissing('Operation / WhitespaceCorrectionMode enums')
    ops = [v['name'] for v in ops_adt['variants']]
    modes = [v['name'] for v in mode_adt['variants']]
    is_op = lambda c: c[0] == 'field' and c[2] == 1 and c[1][0] == 'arg'
    is_mode = lambda c: c[0] in ('upvar', 'arg') and c[0] == 'upvar'
    filters = []
    for c in closures_in(ctx, b, recursive=False):
        if c.kind != 'Closure':
            continue
        al = ret_alts_paths(ctx.facts, c)
        if al is None:
            raise AnchorMissing('paths of the filter closure')
        vals = [peel(a.value) for a in al]
        isopt = any(v[0] == 'agg' and 'Option::' in v[2] for v in vals)
        isbool = all((v[0] == 'bin' and v[1] in ('Eq', 'Ne')) or (v[0] == 'const' and v[1] in ('const true', 'const false', 'true', 'false')) or
                     (v[0] == 'call' and v[1].rsplit('::', 1)[-1] in ('eq', 'ne')) for v in vals)
        if isopt or isbool:
            filters.append((c, al, isopt))
    if not filters:
        raise AnchorMissing('the filter / filter_map closure of _whitespace_ops_to_set')
    from analysis.alts import Alt
    table = {}
    for m in modes:
        for o in ops:
            assign = [(is_op, o), (is_mode, m)]
            keep = True
            for c, al, isopt in filters:
                outcomes = set()
                for a in al:
                    if any(len(n) == 0 for t, n in a.variants):
                        continue
                    r = eval_conds(a, assign)
                    if r is None:
                        raise AnchorMissing('condition of the operation filter not understood: %r' % a)
                    if not r:
                        continue
                    v = peel(a.value)
                    if isopt:
                        outcomes.add(v[0] == 'agg' and v[2].endswith('Option::Some'))
                    elif v[0] == 'const':
                        outcomes.add('true' in v[1])
                    else:
                        r2 = eval_conds(Alt(None, (), [(v, True)]), assign)
                        if r2 is None:
                            raise AnchorMissing('filter predicate not understood: %s' % show_in(c, v))
                        outcomes.add(r2)
                if len(outcomes) != 1:
                    raise AnchorMissing('filter outcome for (%s, %s) is not determined: %s' % (o, m, outcomes))
                keep = keep and list(outcomes)[0]
            table[(o, m)] = keep
    want = {(o, m): ((o in ('Insert', 'Delete') and m == 'InsertionsAndDeletions') or (o == 'Insert' and m == 'Insertions') or (o == 'Delete' and m == 'Deletions'))
            for o in ops for m in modes}
    bad = sorted(k for k in want if table.get(k) != want[k])
    ctx.require(not bad, b, 'mode-table', 'evaluated operations per mode: IAD -> Insert|Delete, Insertions -> Insert, Deletions -> Delete (%d combinations decided)' % len(table),
                'operation %s in mode %s is %s the evaluated set: counts no longer equal the set comparison of whitespace operations' % (
                    bad[0][0] if bad else '', bad[0][1] if bad else '', 'kept in' if bad and table.get(bad[0]) else 'dropped from'))
    # word attribution bound in _group_words
    g = ctx.body(M + '_group_words')
    cmps = []
    for bb_ in [g] + closures_in(ctx, g):
        for gd in __import__('analysis.sym', fromlist=['edge_guards']).edge_guards(bb_):
            t, pol = gd.atom()
            c = core(t) if pol is not None else None
            if c is None or c[0] != 'bin' or c[1] not in ('Lt', 'Le', 'Gt', 'Ge'):
                continue
            for x, y, op in ((c[2], c[3], c[1]), (c[3], c[2], {'Lt': 'Gt', 'Le': 'Ge', 'Gt': 'Lt', 'Ge': 'Le'}[c[1]])):
                # y = end of a word: component 1 of an element of the word-boundary list
                if y[0] == 'field' and y[2] == 1 and (y[1][0] == 'index' or 'item' in str(y[1]) or y[1][0] in ('arg', 'field')) and x[0] != 'const' and \
                        not (x[0] == 'field' and x[2] in (0, 1) and x[1][0] == 'index'):
                    cmps.append((bb_, gd, op, x, y))
    cmps = [c_ for c_ in cmps if 'usize, usize' in ''.join(l['ty'] for l in c_[0].locals if '(usize, usize)' in l['ty'])[:20] or True]
    if not cmps:
        raise AnchorMissing('the comparison of an operation index with a word end in _group_words')
    for bb_, gd, op, x, y in cmps:
        ctx.require(op in ('Le', 'Gt'), bb_, 'word-end-inclusive', 'operation index is compared with the word end inclusively (i <= end / i > end), line %d' % bb_.blocks[gd.block].term.span['line'],
                    'the operation index is compared with the word end by `%s` (line %d): index == end is the whitespace after the word, it must still belong to that word '
                    '(a deleted whitespace is otherwise attributed to the next word and the closing assertion fires)' % (op, bb_.blocks[gd.block].term.span['line']),
                    bb_.blocks[gd.block].term.span)


@rule('C13', 'R-C13-6', 'T11 SIBLING (one segmentation)',
      'every CharString::new of the metrics code receives the caller\'s grapheme flag unchanged (a parameter, configuration field or '
      'captured variable): a site that "optimises" the flag (e.g. `use_graphemes && !s.is_ascii()`) segments "\\r\\n" and friends '
      'differently from the sites it must agree with')
def r_segflag(ctx):
    from rules.common import check_segmentation_flag
    n = check_segmentation_flag(ctx, [ctx.body(n) for n in ['metrics::_group_words']], 'metrics')
    if n == 0:
        raise AnchorMissing('CharString::new sites of the metrics code')


@rule('C13', 'R-C13-7', 'prerequisite (normalised edit distance)',
      'edit::distance divides the DP answer by max(|a|, |b|) counted in the same Characters as the DP, clamped to >= 1 (R-C12-1 '
      're-evaluated): mean_normalized_edit_distance is the mean of exactly these values; the DP recurrence and its whitespace restriction '
      '(R-C12-2 re-evaluated), which _group_words relies on')
def r7(ctx):
    from rules import c12
    c12.r1(ctx)
    # ... and the recurrence itself, with its whitespace restriction (R-C12-2 re-evaluated): _group_words reads splits and merges of words off
    # edit::operations(.., spaces_insert_delete_only = true) and panics on its closing assertion when a space was Replaced instead
    c12.r2(ctx)
    # every metric cleans its inputs first (text::clean, R-C11-1 / R-C11-2 re-evaluated): a cleaner that hands "already clean looking" text back
    # untouched lets a tab or newline through, and a sequence equal to its target after cleaning gets a distance > 0
    from rules import c11
    c11.r1(ctx)
    c11.r2(ctx)


@rule('C13', 'R-C13-8', 'T15 TYPE (character positions are not byte offsets)',
      '_group_words and the tp/fp/fn helpers never index the raw text or its bytes (`input.as_bytes()[i]`, `&s[a..b]`, `s.get(..)`): the '
      'positions they work with come from edit::operations / word_boundaries and count Characters. A byte lookup with a character index '
      'reads the wrong place once a multi-byte character precedes it, the split / merge is missed and the closing assertion panics')
def r8(ctx):
    n = 0
    for fn in (M + '_group_words', M + '_spelling_correction_tp_fp_fn', M + '_whitespace_correction_tp_fp_fn'):
        b0 = ctx.body(fn)
        from rules.common import closures_in
        for b in [b0] + closures_in(ctx, b0):
            n += 1
            strs = {i for i in range(1, b.arg_count + 1) if b.local_ty(i) in ('&str', '&std::string::String')}
            for t in b.terms('call'):
                nm = t.callee_res() or ''
                if not t.args:
                    continue
                rc = core(sym(b, t.args[0]))
                raw = (re.search(r'str.*Index.*::index$|str::get$|str::get_unchecked$|str::split_at$|SliceIndex<str>.*::index$|str::traits::(.*::)?index$', nm) and True) or \
                    (re.search(r'ops::Index.*::index$|slice::.*::index$|slice::get$|<\[u8\]>::get$', nm) and has(sym(b, t.args[0]), Call('str::as_bytes', ANY)))
                if raw:
                    ctx.fail(b, 'raw-index|' + fn.rsplit('::', 1)[-1], '%s looks into the raw text `%s` with `%s` at line %d: the positions in this function are Character '
                             'indices, not byte offsets' % (fn, show_in(b, sym(b, t.args[0]))[:50], nm.rsplit('::', 1)[-1], t.span['line']), t.span)
            # `bytes[i]` on a slice is a place projection, not a call: look for index nodes over the bytes of a text
            z = symbolizer(b)
            seen_lines = set()
            for st in b.stmts():
                if st.kind != 'assign' or st.span['exp']:
                    continue
                try:
                    v = simplify(z.rvalue(st.rv, 0, ()))
                except Exception:
                    continue
                for x in walk(v):
                    if isinstance(x, tuple) and x and x[0] == 'index' and has(init_value(b, x[1]), Call('str::as_bytes', ANY)) and st.span['line'] not in seen_lines:
                        seen_lines.add(st.span['line'])
                        ctx.fail(b, 'raw-index|' + fn.rsplit('::', 1)[-1], '%s indexes the bytes of a text (`%s`, line %d): the positions in this function are Character indices, '
                                 'not byte offsets' % (fn, show_in(b, x)[:60], st.span['line']), st.span)
    ctx.ok(None, 'no raw text indexing in the %d metric helper bodies' % n)


@rule('C13', 'R-C13-9', 'T4 GUARD (equal numbers of sequences)',
      '_correction_f1 indexes the three lists with one position: it is reached only when inputs, predictions and targets have the SAME number of sequences '
      '(both equalities on the way to the indexed pass), otherwise Err -- with `&&` between two inequalities a single odd list slips through and the '
      'indexing panics or silently truncates')
def r9(ctx):
    cf = ctx.body(M + '_correction_f1')
    par = [t for t in cf.calls(r'into_par_iter$|IntoIterator::into_iter$|Iterator::map$') if has(sym(cf, t.args[0]), ('agg', 'adt', Pred(lambda n: n.endswith('Range::Range')), ANY))]
    if not par:
        raise AnchorMissing('_correction_f1: the pass over 0..input_sequences.len()')
    site = par[0]
    # facts at the pass: which pairs of lengths are known equal
    LENOF = lambda k: Pred(lambda u: core(u)[0] == 'call' and core(u)[1].rsplit('::', 1)[-1] == 'len' and has(core(u), ('arg', k, ANY)))
    eq = set()
    for t_, pol_, g_ in atoms_at(cf, site.bb):
        c_ = core(t_)
        if c_[0] == 'bin' and ((c_[1] == 'Eq' and pol_ is True) or (c_[1] == 'Ne' and pol_ is False)):
            ks = []
            for side in (c_[2], c_[3]):
                for k in (1, 2, 3):
                    if match(side, LENOF(k)):
                        ks.append(k)
            if len(ks) == 2 and ks[0] != ks[1]:
                eq.add(frozenset(ks))
    # two equalities over the three lists connect them all
    linked = len(eq) >= 2 and set().union(*eq) == {1, 2, 3}
    ctx.require(linked, cf, 'all-lengths-equal', 'the indexed pass runs only when all three lists have the same length',
                'the indexed pass of _correction_f1 is reached knowing only %s about the lengths: a list of another length is indexed out of bounds (panic) or cut short' % (
                    [sorted(x) for x in eq] or 'nothing'), site.span)
