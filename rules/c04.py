"""C04 Tokenizer vocabulary maps are mutually consistent bijections: id-space agreement rules."""
import re
from analysis import cfg
from analysis.facts import norm_path
from analysis.engine import rule, AnchorMissing
from analysis.sym import sym, show_in, nosite, peel, core, walk, ret_values, args_of, cmp_facts_at, agg_field, atoms_at, variant_facts_at, init_value
from analysis.pat import match, Call, Cap, ANY, Pred, Const, has, chain_names
from rules.common import body_for, bpe_body, closure_of, BPE, BYTE
from rules import bpe_ids

TOK = bpe_ids.TOK


@rule('C04', 'R-C04-1', 'T8 OFFSET',
      'BPE: merge id -> token id is always +256; the token table state.1 (which contains the 256 byte tokens) is '
      'indexed with the unshifted token id and bounded by its unshifted length; writer fills it bytes first, then '
      'merges in id order')
def r1(ctx):
    bpe_ids.check_writer(ctx)
    b = body_for(ctx, TOK + 'id_to_token', BPE)
    bpe_ids.check_table_index(ctx, b, 'BPE id_to_token')
    bpe_ids.check_token_to_id(ctx)
    bpe_ids.check_get_vocab(ctx)
    bpe_ids.check_vocab_size(ctx)
    # id_to_token: byte branch is `id < 256 -> vec![id as u8]`
    from rules.common import byte_boundary_tests
    facts_ok = bool(byte_boundary_tests(b, ('arg', 2, ANY)))
    ctx.require(facts_ok, b, 'byte-branch', 'BPE id_to_token: ids below 256 are the single bytes (strict `< 256`)', None)


@rule('C04', 'R-C04-2', 'T8 OFFSET / T2 provenance',
      'the special-token id offset equals the number of regular ids of the tokenizer kind: Vocab::len (char), token '
      'table length (BPE), 256 (byte); vocab_size adds special_vocab.len() to the same quantity')
def r2(ctx):
    # char / generic vocab tokenizer
    b = ctx.body('tokenization::BaseTokenizer::new_vocab_tokenizer')
    nb = list(b.calls(r'new_base_tokenizer$'))
    vb = list(b.calls(r'Vocab::build$|Vocab::from_file$'))
    if len(nb) != 1 or not vb:
        raise AnchorMissing('new_vocab_tokenizer: new_base_tokenizer / Vocab::build calls')
    off = core(sym(b, nb[0].args[0]))
    start = sym(b, vb[0].args[1])
    ctx.require(start[0] == 'const' and start[2] == 0, b, 'regular-start', 'regular vocabulary ids start at 0',
                'regular vocabulary ids start at %s' % show_in(b, start), vb[0].span)
    st = sym(b, nb[0].args[3])
    vocab_tree = core(st[3][1]) if st[0] == 'agg' and len(st[3]) == 2 else None
    ctx.require(vocab_tree is not None and match(off, Call('Vocab::len', Pred(lambda u: nosite(u) == vocab_tree))),
                b, 'char-offset', 'char tokenizer: special offset = len of the regular vocabulary stored as state.1',
                'char tokenizer: special offset is %s' % show_in(b, off), nb[0].span)
    # byte tokenizer
    b = body_for(ctx, 'tokenization::BaseTokenizer::new_with', BYTE)
    nv = list(b.calls(r'new_vocab_free_tokenizer$'))
    if len(nv) != 1:
        raise AnchorMissing('ByteTokenizer::new_with: new_vocab_free_tokenizer call')
    o = sym(b, nv[0].args[0])
    ctx.require(o[0] == 'const' and o[2] == 256, b, 'byte-offset', 'byte tokenizer: special offset = 256',
                'byte tokenizer: special offset is %s' % show_in(b, o), nv[0].span)
    b = ctx.body('tokenization::BaseTokenizer::new_vocab_free_tokenizer')
    nb = list(b.calls(r'new_base_tokenizer$'))
    ctx.require(len(nb) == 1 and match(sym(b, nb[0].args[0]), ('arg', 1, ANY)), b, 'vocab-free-offset',
                'new_vocab_free_tokenizer passes its offset through unchanged', None)
    # Vocab::build is given the offset unchanged by new_base_tokenizer
    b = ctx.body('tokenization::BaseTokenizer::new_base_tokenizer')
    vb = list(b.calls(r'Vocab::build$'))
    ctx.require(len(vb) == 1 and match(sym(b, vb[0].args[1]), ('arg', 1, ANY)) and
                match(core(sym(b, vb[0].args[0])), ('field', ('arg', 2, ANY), 'tokens')), b, 'special-build',
                'special vocabulary = Vocab::build(special_config.tokens, special_offset)',
                'special vocabulary is built from %s' % ([show_in(b, a) for a in args_of(b, vb[0])] if vb else '?'))
    # vocab_size per kind
    for selfpat, what, pred in (
            (BYTE, 'byte', lambda p: p[0] == 'const' and p[2] == 256),
            ('VocabTokenize', 'char', lambda p: match(p, Call('Vocab::len', Pred(lambda u: bpe_ids.is_state(u, 1)))))):
        cands = [x for x in ctx.facts.bodies if x.path.endswith('::vocab_size') and x.impl_trait and
                 x.impl_trait.endswith('Tokenize') and ((x.impl_self and selfpat in x.impl_self) or
                                                         any(selfpat in p for p in x.preds_decl))]
        if len(cands) != 1:
            raise AnchorMissing('%s tokenizer vocab_size (%d candidates)' % (what, len(cands)))
        vs = cands[0]
        ctx.stats['bodies_inspected'].add(vs.path)
        rv = ret_values(vs)
        good = False
        if len(rv) == 1:
            x = core(rv[0][0])
            if x[0] == 'bin' and x[1] == 'Add':
                parts = [x[2], x[3]]
                good = any(pred(p) for p in parts) and any(match(p, Call('Vocab::len', ANY)) and not pred(p) for p in parts)
        ctx.require(good, vs, 'vocab-size|' + what, '%s tokenizer: vocab_size = regular ids + special_vocab.len()' % what,
                    '%s tokenizer: vocab_size is %s' % (what, show_in(vs, rv[0][0]) if rv else '?'))


@rule('C04', 'R-C04-3', 'T2 CHAIN',
      'Vocab::build assigns ids start_id + position over the de-duplicated tokens (unique -> enumerate -> map) and '
      'derives the reverse map from the forward map with the pair swapped')
def r3(ctx):
    b = ctx.body('tokenization::Vocab::build')
    cols = list(b.calls(r'Iterator::collect$'))
    fwd = rev = None
    for c in cols:
        ch = sym(b, c.args[0])
        src, names = chain_names(ch)
        if match(ch, Call('Iterator::map', Call('HashMap::iter', ANY), ANY)):
            rev = (c, ch)
        elif 'enumerate' in names:
            fwd = (c, ch, names, src)
    if fwd is None or rev is None:
        # loop form: `for tok in tokens { if vocab.contains_key(&tok) { continue }  vocab.insert(tok, start_id + n) .. }` -- the one
        # thing that can be decided without the chain: an id is handed only to a token that is not in the map yet
        ins = [t for t in b.calls(r'HashMap::insert$') if cfg.innermost_loop(b, t.bb) is not None and t.args[0].place is not None and
               re.search(r'HashMap<Token, u32>', b.local_ty(t.args[0].place.local))]
        for t in ins:
            mp = nosite(core(sym(b, t.args[0])))
            key = nosite(core(sym(b, t.args[1])))
            guarded = any(pol is False and match(core(tt), Call('HashMap::contains_key', Pred(lambda u: nosite(core(u)) == mp), ANY)) for tt, pol, g in atoms_at(b, t.bb)) or \
                any(n_ == {'Vacant'} or n_ == {'None'} for tt, n_ in variant_facts_at(b, t.bb)) or \
                any(isinstance(x, tuple) and x and x[0] == 'call' and x[1].endswith('unique') for x in walk(init_value(b, sym(b, t.args[1]))))
            ctx.require(guarded, b, 'forward-dedup', 'an id is assigned only to a token that is not in the vocabulary yet (line %d)' % t.span['line'],
                        'Vocab::build inserts every token under a fresh id (line %d) without skipping tokens it has already seen: a token that occurs twice is '
                        're-assigned an id that the next new token also receives -- two tokens share one id' % t.span['line'], t.span)
        # the reverse map is written only together with a NEW forward entry: an unconditional `reverse.insert(next_id, token)` leaves a stale
        # entry at the next free id whenever the token was a repeat (it survives when the repeat is the last token: id_to_token(vocab_size) is Some)
        rins = [t for t in b.calls(r'HashMap::insert$') if cfg.innermost_loop(b, t.bb) is not None and t.args[0].place is not None and
                re.search(r'HashMap<u32, Token>', b.local_ty(t.args[0].place.local))]
        fmaps = [l for l in range(len(b.locals)) if re.search(r'^std::collections::HashMap<Token, u32>$', b.local_ty(l))]
        for t in rins:
            guarded = any(pol is False and match(core(tt), Call('HashMap::contains_key', ANY, ANY)) for tt, pol, g in atoms_at(b, t.bb)) or \
                any(n_ == {'Vacant'} or n_ == {'None'} for tt, n_ in variant_facts_at(b, t.bb))
            ctx.require(guarded, b, 'reverse-dedup', 'the reverse entry is written only for a token that is new to the vocabulary (line %d)' % t.span['line'],
                        'Vocab::build writes the reverse entry (line %d) for every token, also for a repeated one: the stale entry sits at the next free id, and when the '
                        'repeat is the last token it stays -- id_to_token(vocab_size) returns a token' % t.span['line'], t.span)
        raise AnchorMissing('Vocab::build forward / reverse map construction')
    c, ch, names, src = fwd
    ctx.require(names == ['unique', 'enumerate', 'map', 'collect'][:len(names)] and names[:3] == ['unique', 'enumerate', 'map']
                and match(src, ('arg', 1, ANY)), b, 'forward-chain',
                'forward map: tokens.unique().enumerate().map(..)', 'forward map chain is %s over %s' % (names, show_in(b, src)), c.span)
    clo = closure_of(ctx, ch[2][1])
    rv = ret_values(clo)
    good = len(rv) == 1 and match(core(rv[0][0]), ('agg', 'tuple', '', (('field', ('arg', 2, ANY), 1),
                                                                      ('bin', 'Add', ('upvar', 0, ANY), ('field', ('arg', 2, ANY), 0)))))
    ctx.require(good, clo, 'forward-id', 'forward map entry = (token, start_id + position)',
                'forward map entry is %s' % (show_in(clo, rv[0][0]) if rv else '?'))
    up = sym(b, c.args[0])
    # the start_id captured is the parameter
    ctx.require(match(ch[2][1], ('agg', 'closure', ANY, (('arg', 2, ANY),))), b, 'forward-start',
                'the id closure captures the start_id parameter', None, c.span)
    c2, ch2 = rev
    fwd_tree = nosite(sym(b, c.dest))
    ctx.require(nosite(core(ch2[2][0][2][0])) == core(sym(b, c.dest)), b, 'reverse-source',
                'reverse map is derived from the forward map', None, c2.span)
    clo2 = closure_of(ctx, ch2[2][1])
    rv2 = ret_values(clo2)
    good = len(rv2) == 1 and match(core(rv2[0][0]), ('agg', 'tuple', '', (('field', ('arg', 2, ANY), 1), ('field', ('arg', 2, ANY), 0))))
    ctx.require(good, clo2, 'reverse-swap', 'reverse map entry = (id, token)', 'reverse map entry is %s' % (
        show_in(clo2, rv2[0][0]) if rv2 else '?'))
    # returned struct fields
    rvb = ret_values(b)
    good = len(rvb) == 1 and rvb[0][0][0] == 'agg' and nosite(rvb[0][0][3][0]) == nosite(sym(b, c.dest)) and \
        nosite(rvb[0][0][3][1]) == nosite(sym(b, c2.dest))
    ctx.require(good, b, 'fields', 'Vocab { vocab: forward, reverse_vocab: reverse }', None)
    # accessors
    for fn, fld, meth in (('token_to_id', 'vocab', 'HashMap::get'), ('id_to_token', 'reverse_vocab', 'HashMap::get'),
                          ('len', 'vocab', 'HashMap::len')):
        a = ctx.body('tokenization::Vocab::' + fn)
        rv = ret_values(a)
        good = len(rv) == 1 and has(rv[0][0], Call(meth, ('field', ('arg', 1, ANY), fld), ANY) if meth.endswith('get')
                                    else Call(meth, ('field', ('arg', 1, ANY), fld)))
        ctx.require(good, a, 'accessor|' + fn, 'Vocab::%s reads self.%s' % (fn, fld), 'Vocab::%s is %s' % (
            fn, show_in(a, rv[0][0]) if rv else '?'))


@rule('C04', 'R-C04-5', 'T2 provenance',
      'ByteTokenizer::new_with computes the number of extra pad tokens from the de-duplicated special tokens '
      '(the count Vocab::build will produce) plus the 256 byte ids')
def r5(ctx):
    b = body_for(ctx, 'tokenization::BaseTokenizer::new_with', BYTE)
    lens = list(b.calls(r'HashSet::len$'))
    if len(lens) != 1:
        ctx.fail(b, 'dedup-count', 'number of special tokens is not taken from a HashSet (de-duplicated) of the tokens')
        return
    src = core(sym(b, lens[0].args[0]))
    okc = has(src, ('field', ANY, 'tokens'))
    if not okc:
        # the set filled by a loop: every configured token is inserted, unconditionally
        from analysis.seq import seq_of, ITEM as _IT
        segs = seq_of(ctx.facts, b, sym(b, lens[0].args[0]))
        okc = segs is not None and len(segs) == 1 and not segs[0].conds and has(core(segs[0].src), ('field', ANY, 'tokens')) and \
            ((segs[0].kind == 'each' and core(segs[0].elem) == _IT) or
             (segs[0].kind == 'nest' and len(segs[0].inner) == 1 and segs[0].inner[0].kind == 'one' and not segs[0].inner[0].conds and core(segs[0].inner[0].elem) == _IT))
    ctx.require(okc, b, 'dedup-count',
                'special token count = HashSet of special_config.tokens', 'count is over %s' % show_in(b, src), lens[0].span)
    adds = []
    for s in b.stmts():
        if s.kind == 'assign' and s.rv.kind == 'binop' and s.rv.op.startswith('Add'):
            t = core(sym(b, s.lhs))
            if has(t, Call('HashSet::len')):
                adds.append((s, t))
    good = any(match(t, ('bin', 'Add', Const(256), Call('HashSet::len', ANY))) or
               match(t, ('bin', 'Add', Call('HashSet::len', ANY), Const(256))) for s, t in adds)
    ctx.require(good, b, 'num-tokens', 'num_tokens = 256 + number of distinct special tokens', None)


@rule('C04', 'R-C04-6', 'T2 provenance',
      'pad / prefix / suffix ids are looked up in the special vocabulary that Vocab::build produced (the only place '
      'that knows the ids after de-duplication), not recomputed from list positions')
def r6(ctx):
    b = ctx.body('tokenization::BaseTokenizer::new_base_tokenizer')
    oks = [v for v, bb in ret_values(b) if v[0] == 'agg' and v[2].endswith('Result::Ok')]
    if len(oks) != 1:
        raise AnchorMissing('Ok(BaseTokenizer {..}) in new_base_tokenizer')
    st = oks[0][3][0]
    vb = list(b.calls(r'Vocab::build$'))
    if len(vb) != 1:
        raise AnchorMissing('Vocab::build call')
    sv = core(sym(b, vb[0].dest))
    is_sv = Pred(lambda t: nosite(core(t)) == sv)
    pad = agg_field(ctx.facts, st, 'pad_token_id')
    good = pad is not None and match(core(pad), Call('ok_or_else', Call('Vocab::token_to_id', is_sv, ('field', ('arg', 2, ANY), 'pad')), ANY))
    ctx.require(good, b, 'pad-id', 'pad_token_id = special_vocab.token_to_id(special_config.pad)',
                'pad_token_id is %s' % (show_in(b, pad) if pad is not None else '?'))
    fv = agg_field(ctx.facts, st, 'special_vocab')
    ctx.require(fv is not None and nosite(core(fv)) == sv, b, 'special-vocab-field',
                'the stored special_vocab is the one built by Vocab::build', None)
    for fld, cfg_fld in (('prefix_token_ids', 'prefix'), ('suffix_token_ids', 'suffix')):
        v = agg_field(ctx.facts, st, fld)
        good = False
        why = ''
        if v is not None:
            from analysis.seq import seq_of, item as _item
            from analysis.sym import last_seg

            def _lookup(e):
                # the id or its Option -> Result conversion (`.ok_or_else(..)`, `.ok_or(..)`, `.expect(..)`): the error path ends construction
                e = core(e)
                while e[0] == 'call' and last_seg(e[1]) in ('ok_or_else', 'ok_or', 'expect') and e[2]:
                    e = core(e[2][0])
                return e
            is_sv2 = Pred(lambda t: nosite(core(t)) == sv or match(core(t), Call('Vocab::build', ANY, ANY)) or
                          nosite(core(init_value(b, t))) == sv or match(core(init_value(b, t)), Call('Vocab::build', ANY, ANY)))
            segs = seq_of(ctx.facts, b, v)
            # one id per configured token, in list order: the id the special vocabulary has for that token
            good = segs is not None and len(segs) == 1 and segs[0].kind == 'each' and not segs[0].conds and \
                match(core(segs[0].src), ('field', ('arg', 2, ANY), cfg_fld)) and \
                match(_lookup(segs[0].elem), Call('Vocab::token_to_id', is_sv2, _item(0)))
            why = '(built as %s)' % [repr(x)[:160] for x in segs or ()]
        ctx.require(good, b, 'frame-ids|' + cfg_fld, '%s = special_vocab.token_to_id(tok) for each configured %s token' % (fld, cfg_fld),
                    '%s is %s %s' % (fld, show_in(b, v) if v is not None else '?', why))


@rule('C04', 'R-C04-7', 'T11 SIBLING (lookup order and unit of token_to_id)',
      'every token_to_id consults the special vocabulary FIRST and returns its id when it has one (a special token that also parses '
      'as a regular token is otherwise unreachable); the BPE byte-token branch is taken for a token of exactly one BYTE '
      '(`as_bytes().len() == 1` / a one-element slice pattern), not one character')
def r7(ctx):
    from analysis.alts import ret_alts_paths, consistent
    cands = [b for b in ctx.facts.bodies if b.path.endswith('::token_to_id') and b.kind != 'Closure' and b.impl_trait and norm_path(b.impl_trait).endswith('Tokenize')
             and b.file() == 'src/tokenization.rs' and 'Huggingface' not in str(b.impl_self)]
    # the vocabulary tokenizer (generic over VocabTokenize) and the BPE tokenizer; the byte tokenizer resolves one-byte strings first by
    # design and the dummy tokenizer has no vocabulary
    cands = [b for b in cands if (b.impl_self and BPE in b.impl_self) or any('VocabTokenize' in p_ for p_ in b.preds_decl)]
    if len(cands) != 2:
        raise AnchorMissing('token_to_id of the vocabulary and BPE tokenizers (found %d)' % len(cands))
    SPEC = Call('Vocab::token_to_id', ('field', ('arg', 1, ANY), 'special_vocab'), ('arg', 2, ANY))
    for b in cands:
        ctx.stats['bodies_inspected'].add(b.path)
        sp = [t for t in b.calls(r'Vocab::token_to_id$') if match(core(sym(b, t.args[0])), ('field', ('arg', 1, ANY), 'special_vocab')) and match(core(sym(b, t.args[1])), ('arg', 2, ANY))]
        if len(sp) != 1:
            ctx.fail(b, 'special-first', '%s does not look the token up in the special vocabulary exactly once (found %d)' % (norm_path(b.path), len(sp)))
            continue
        spv = ('call', sp[0].callee_res(), tuple(nosite(sym(b, a_)) for a_ in sp[0].args))
        al = ret_alts_paths(ctx.facts, b)
        if al is None:
            raise AnchorMissing('paths of token_to_id')
        bad = []
        for a in al:
            if not consistent(a):
                continue
            v = peel(a.value)
            from_special = any(isinstance(x, tuple) and nosite(x) == spv for x in walk(a.value))
            known_none = any(nosite(t) == spv and set(n) == {'None'} for t, n in a.variants)
            if not from_special and not known_none and not (v[0] == 'agg' and v[2].endswith('Option::None') and False):
                bad.append(a)
        ctx.require(not bad, b, 'special-first', '%s: every id that does not come from the special vocabulary is returned only after the special lookup said None' % norm_path(b.path),
                    '%s returns `%s` on a path where the special vocabulary was not consulted or did not say None: a special token that also parses as a '
                    'regular token maps to the wrong id or to nothing' % (norm_path(b.path), show_in(b, bad[0].value)[:80] if bad else ''), sp[0].span)
    bpe = [b for b in cands if b.impl_self and BPE in b.impl_self]
    if len(bpe) == 1:
        b = bpe[0]
        chars = [t for t in b.calls(r'str::chars$|Chars.*::count$|str::char_indices$')]
        ctx.require(not chars, b, 'byte-unit', 'BPE token_to_id measures the token in bytes', 'BPE token_to_id counts characters (`%s`, line %d): a merge token that is ONE multi-byte '
                    'character is answered with the value of its first byte instead of 256 + merge id' % ((chars[0].callee_res() or '').rsplit('::', 1)[-1] if chars else '', chars[0].span['line'] if chars else 0),
                    chars[0].span if chars else None)


def _id_const_tests(body, xpat):
    """guards that compare a value matching `xpat` with an integer constant: [(guard, N)] where the guarded edge (or its negation)
    separates ids below N from the rest (`x < K` -> K, `x <= K` -> K + 1, `x >= K` -> K, `x > K` -> K + 1)"""
    from analysis.sym import edge_guards
    out = []
    for g in edge_guards(body):
        t, pol = g.atom()
        if pol is None:
            continue
        c = core(t)
        if c[0] != 'bin' or c[1] not in ('Lt', 'Le', 'Ge', 'Gt'):
            continue
        for x, k, flip in ((c[2], c[3], False), (c[3], c[2], True)):
            kc = core(k)
            if match(core(x), xpat) and kc[0] == 'const' and len(kc) > 2 and isinstance(kc[2], int):
                op = c[1] if not flip else {'Lt': 'Gt', 'Le': 'Ge', 'Ge': 'Le', 'Gt': 'Lt'}[c[1]]
                out.append((g, kc[2] + (1 if op in ('Le', 'Gt') else 0)))
    return out


@rule('C04', 'R-C04-8', 'T11 SIBLING (one byte boundary in the byte tokenizer)',
      'the byte tokenizer uses ids 0..=255 for the bytes in every function: id_to_token and de_tokenize split on "fits in a byte" '
      '(`id < 256`, `u8::try_from(id)`), get_vocab lists 0..=u8::MAX, vocab_size counts 256 and the special ids start at 256 '
      '(R-C04-2): a site that draws the line at 255 disagrees with the others about the id 255')
def r8(ctx):
    from rules.common import byte_boundary_tests, range_bounds
    from analysis.seq import seq_of
    n = 0
    # de_tokenize: the id is the element the loop over token_ids yields
    from_iteration = Pred(lambda u: any(isinstance(x, tuple) and x and x[0] == 'call' and x[1].endswith('::next') for x in walk(u)))
    for fn, xp in ((TOK + 'id_to_token', ('arg', 2, ANY)), (TOK + 'de_tokenize', from_iteration)):
        b = body_for(ctx, fn, BYTE)
        tests = _id_const_tests(b, xp)
        good = byte_boundary_tests(b, xp)
        for g, N in tests:
            n += 1
            ctx.require(N == 256, b, 'byte-boundary|' + fn.rsplit('::', 1)[-1], 'byte tokenizer %s: ids below 256 are bytes' % fn.rsplit('::', 1)[-1],
                        'byte tokenizer %s draws the line between byte ids and special ids at %d instead of 256: the id %d is treated as a special token here and as '
                        'a byte elsewhere' % (fn.rsplit('::', 1)[-1], N, min(N, 255)), b.blocks[g.block].term.span)
        ctx.require(bool(good), b, 'byte-test|' + fn.rsplit('::', 1)[-1], 'byte tokenizer %s splits on "the id fits in a byte"' % fn.rsplit('::', 1)[-1],
                    'byte tokenizer %s has no `id < 256` / u8::try_from(id) test' % fn.rsplit('::', 1)[-1])
        n += 1
    gv = body_for(ctx, TOK + 'get_vocab', BYTE)
    rb = None
    for t in gv.terms('call'):
        for a in t.args:
            for x in walk(nosite(sym(gv, a))):
                r = range_bounds(x) if isinstance(x, tuple) and x and x[0] in ('agg', 'call') else None
                if r is not None and rb is None:
                    rb = r
    ctx.require(rb is not None and rb[0] == 0 and rb[1] == 256, gv, 'vocab-bytes', 'byte tokenizer get_vocab lists the byte tokens 0..=255',
                'byte tokenizer get_vocab lists the byte tokens over %s' % (rb,))
    # ... and EVERY special token: the loop over special_vocab inserts each entry unconditionally (vocab_size, id_to_token and token_to_id know all of
    # them, the filler tokens of pad_to_multiple_of included; a listing that leaves some out is shorter than vocab_size)
    from analysis.seq import next_call_of
    ins = [t for t in gv.calls(r'BTreeMap::insert$|HashMap::insert$|Vec::push$')]
    lps = [l for l in cfg.loops(gv) if any(t.bb in l.blocks for t in ins)]
    if len(lps) == 1 and len([t for t in ins if t.bb in lps[0].blocks]) == 1:
        lp = lps[0]
        t_in = [t for t in ins if t.bb in lp.blocks][0]
        nx = next_call_of(gv, lp)
        from analysis.sym import variant_edges
        some = [e[1] for e in variant_edges(gv, sym(gv, nx.dest), 'Some')] if nx is not None else []
        ok_ = bool(some) and all(cfg.must_pass(gv, some[0], l, via_blocks=[t_in.bb]) for l in lp.latches)
        ctx.require(ok_, gv, 'vocab-all-specials', 'byte tokenizer get_vocab lists every special token (the insert is unconditional)',
                    'byte tokenizer get_vocab skips some special tokens (the insert at line %d is conditional): the listing is shorter than vocab_size and ids that '
                    'id_to_token knows are missing from it' % t_in.span['line'], t_in.span)
    elif ins:
        from analysis.seq import seq_of as _seq_of
        # collected form: (bytes).chain(specials) ... : no filter on the special part
        pass


@rule('C04', 'R-C04-9', 'T14 EFFECT (no state change inside a debug assertion)',
      'no vocabulary / token-table function of src/tokenization.rs changes state inside a debug_assert!: the expression of a '
      'debug assertion is not evaluated in release builds (the shipped wheel), so `debug_assert!(vocab.insert(id, ..).is_none())` '
      'leaves the listed vocabulary empty there while vocab_size and the lookups still describe all tokens')
def r9(ctx):
    from rules.common import debug_only_mutations, debug_only_blocks
    n = regions = 0
    for b in ctx.facts.bodies:
        if b.file() != 'src/tokenization.rs' or b.span['exp'] or b.path in ctx.facts.inlined_paths:
            continue
        n += 1
        ctx.stats['bodies_inspected'].add(b.path)
        if debug_only_blocks(b):
            regions += 1
        for t, r in debug_only_mutations(b):
            ctx.fail(b, 'debug-only-mutation|' + norm_path(b.path).rsplit('::', 1)[-1] + '|' + (t.callee_res() or '').rsplit('::', 1)[-1],
                     '%s: `%s` on `%s` (line %d) runs only inside a debug assertion: in a release build the call is compiled out and the state it was '
                     'meant to build is missing' % (norm_path(b.path), (t.callee_res() or '').rsplit('::', 2)[-1], show_in(b, r), t.span['line']), t.span)
    if n < 50:
        raise AnchorMissing('bodies of src/tokenization.rs (found %d)' % n)
    ctx.ok(None, '%d bodies of src/tokenization.rs inspected, %d with debug-only regions, no state change inside them' % (n, regions))


@rule('C04', 'R-C04-10', 'T15 TYPE (tokens are byte strings, not text)',
      'id_to_token of the BPE, byte and vocabulary tokenizers returns the raw bytes of the table entry: nothing on the way validates or '
      'converts them as UTF-8 (String::from_utf8, str::from_utf8, de_tokenize). A single byte >= 0x80 or a merge that ends inside a multi-byte '
      'character is a token of the vocabulary but not valid UTF-8 on its own; a lookup through a String loses it while get_vocab still lists it')
def r10(ctx):
    n = 0
    cands = [b for b in ctx.facts.bodies if b.path.endswith('::id_to_token') and b.kind != 'Closure' and b.impl_trait and norm_path(b.impl_trait).endswith('Tokenize')
             and b.file() == 'src/tokenization.rs' and 'Huggingface' not in str(b.impl_self) and 'Duration' not in str(b.impl_self)]
    for b in cands:
        from rules.common import closures_in
        for x in [b] + closures_in(ctx, b):
            ctx.stats['bodies_inspected'].add(x.path)
            n += 1
            for t in x.calls(r'String::from_utf8(_lossy)?$|str::from_utf8$|::de_tokenize$|String::into_bytes$'):
                ctx.fail(b, 'token-through-text|' + str(b.impl_self)[:40], '%s of %s goes through text (`%s`, line %d): tokens that are not valid UTF-8 on their own (bytes >= 0x80, '
                         'merges ending inside a character) get no result although they are listed in the vocabulary' % (
                             'id_to_token', (b.impl_self or '?')[:60], (t.callee_res() or '').rsplit('::', 2)[-1], t.span['line']), t.span)
    if len(cands) < 3:
        raise AnchorMissing('id_to_token of the BPE, byte and vocabulary tokenizers (found %d)' % len(cands))
    ctx.ok(None, '%d id_to_token bodies return table bytes without a text round trip' % n)


@rule('C04', 'R-C04-11', 'T2 CHAIN (decoding is verbatim)',
      'de_tokenize of the BPE, byte and vocabulary tokenizers (and join_tokens / join_parts below it) returns the token bytes / strings joined, '
      'untouched: no text transformation (text::clean, trim, normalize, case folding, replace) is applied to the decoded text -- decoding the id of '
      'the token " " must give " ", not ""')
def r11(ctx):
    POST = r'text::clean$|unicode::normalize$|str::trim\w*$|str::replace\w*$|str::to_(lower|upper)case$|str::to_ascii_(lower|upper)case$|str::strip_\w+$|' \
           r'String::truncate$|String::retain$|UnicodeNormalization.*::nfk?[cd]$|str::split_whitespace$|String::pop$|String::remove$'
    cands = [b for b in ctx.facts.bodies if b.kind != 'Closure' and b.file() == 'src/tokenization.rs' and b.impl_trait and
             (b.path.endswith('::de_tokenize') and norm_path(b.impl_trait).endswith('Tokenize') or
              b.path.endswith('::join_tokens') or b.path.endswith('::join_parts')) and
             'Huggingface' not in str(b.impl_self) and 'Duration' not in str(b.impl_self)]
    n = 0
    from rules.common import closures_in
    for b in cands:
        for x in [b] + closures_in(ctx, b):
            ctx.stats['bodies_inspected'].add(x.path)
            n += 1
            for t in x.calls(POST):
                ctx.fail(b, 'decoded-text-transformed|' + norm_path(b.path).rsplit('::', 1)[-1] + '|' + (t.callee_res() or '').rsplit('::', 1)[-1],
                         '%s of %s passes the decoded text through `%s` (line %d): the result is no longer the tokens joined -- whitespace tokens, case or '
                         'composed characters of the vocabulary do not survive decoding' % (norm_path(b.path).rsplit('::', 1)[-1], (b.impl_self or '?')[:50],
                                                                                             (t.callee_res() or '').rsplit('::', 2)[-1], t.span['line']), t.span)
    if len([b for b in cands if b.path.endswith('::de_tokenize')]) < 3:
        raise AnchorMissing('de_tokenize of the BPE, byte and vocabulary tokenizers (found %d)' % len(cands))
    ctx.ok(None, '%d decoder bodies (de_tokenize / join_tokens / join_parts) apply no text transformation' % n)
