"""C03 BPE applies merges canonically (lowest id, leftmost): shape of the merge loop of merge_bytes."""
import re
from analysis.engine import rule, AnchorMissing
from analysis import cfg
from analysis.sym import sym, show, show_in, nosite, peel, deep_peel, guards_at, atoms_at, cmp_facts_at, ret_values, \
    walk, symbolizer, simplify, init_value
from rules.common import bpe_body, closure_of, find_pop_loop

MB = 'tokenization::BaseTokenizer::merge_bytes'
_CUR = [None]


def _mb(ctx):
    b = bpe_body(ctx, MB)
    _CUR[0] = b
    return b


def sh(t):
    return show_in(_CUR[0], t) if _CUR[0] is not None else str(t)



def _popped_field(t):
    """('field', ('field'.., ('unwrap', pop-call) ..) -> tuple of field indices of the popped entry, or None"""
    path = []
    while t[0] == 'field':
        path.append(t[2])
        t = t[1]
    if t[0] == 'unwrap':
        t = t[1]
    if t[0] == 'call' and t[1].endswith('BinaryHeap::pop'):
        return tuple(reversed(path))
    return None


@rule('C03', 'R-C03-1', 'T3a LOOP-EXIT (worklist drain)',
      'the loop that pops the merge heap is left only through the `heap is empty` edge of the pop')
def r1(ctx):
    body = _mb(ctx)
    pop, loop = find_pop_loop(ctx, body)
    exits = loop.exits(body)
    if not exits:
        ctx.fail(body, 'no-exit', 'the heap loop has no exit edge', pop.span)
        return
    for (u, v) in exits:
        t = body.blocks[u].term
        good = False
        why = 'exit edge bb%d->bb%d is not a branch on the popped value' % (u, v)
        if t.kind == 'switch':
            d = sym(body, t.discr)
            if d[0] == 'discr' and d[1][0] == 'call' and d[1][1].endswith('BinaryHeap::pop'):
                # the Some arm (value 1) must stay inside the loop; the exit is the other one
                some_targets = [tg for val, tg in t.arms if val == 1]
                good = v not in some_targets
                why = 'exit edge is the Some arm of the pop' if not good else ''
            else:
                why = 'loop is left on `%s` (line %d) although the heap may still hold applicable merges' % (
                    sh(d), t.span['line'])
        ctx.require(good, body, 'exit-not-on-empty-heap',
                    'heap loop exit bb%d->bb%d is the None arm of BinaryHeap::pop' % (u, v), why, t.span)


def _token_writes(body, loop, base):
    """blocks inside the loop that write through IndexMut (or any &mut method) to the vector `base`"""
    out = []
    for b in loop.blocks:
        t = body.blocks[b].term
        if t.kind != 'call' or not t.args:
            continue
        name = t.callee_res() or ''
        if name.endswith('::index') or name.endswith('Vec::len') or name.endswith('::iter') or \
                name.endswith('::deref') or name.endswith('is_empty') or name.endswith('::get'):
            continue
        a0 = t.args[0]
        # receiver must be a &mut borrow of base
        ty = body.local_ty(a0.place.local) if a0.place is not None else ''
        if not ty.startswith('&mut'):
            continue
        if nosite(sym(body, a0)) == nosite(base):
            out.append(t)
    return out


@rule('C03', 'R-C03-2', 'T1 ORDER (stamp freshness)',
      'token ids recorded in a re-pushed heap entry are read after the state update of the iteration: '
      'no write to the id vector is reachable from a stamp read within the same iteration')
def r2(ctx):
    body = _mb(ctx)
    pop, loop = find_pop_loop(ctx, body)
    pushes = [t for t in body.calls(r'BinaryHeap::push$') if t.bb in loop.blocks]
    if len(pushes) < 2:
        raise AnchorMissing('expected the two re-push sites (previous / next neighbour) inside the heap loop, found %d'
                            % len(pushes))
    from analysis.sym import slice_calls
    n = 0
    for p in pushes:
        # the reads of the mutable id vector that actually flow into the pushed entry (not other reads of the same element)
        reads = [t for t in slice_calls(body, p.args[1], r'ops::Index>::index$') if t.bb in loop.blocks and
                 'Vec<std::option::Option<u32>>' in body.local_ty(t.args[0].place.local)]
        for r in reads:
            base = sym(body, r.args[0])
            writes = _token_writes(body, loop, base)
            if not writes:
                continue
            n += 1
            rr = cfg.reach(body, r.bb, removed_blocks=[loop.header]) & loop.blocks
            late = [w for w in writes if w.bb in rr and w.bb != r.bb]
            c = ('index', base, sym(body, r.args[1]))
            ctx.require(not late, body, 'stale-stamp|line-order',
                        'stamp %s (read at line %d for the entry pushed at line %d) is read after every write to %s in the iteration'
                        % (sh(c), r.span['line'], p.span['line'], sh(base)),
                        'stamp %s recorded in the entry pushed at line %d is read (line %d) BEFORE the state '
                        'update at line %d: the entry is stale when popped, the merge is never applied'
                        % (sh(c), p.span['line'], r.span['line'], late[0].span['line'] if late else 0), r.span)
    if n == 0:
        raise AnchorMissing('no pushed entry component reads the mutable token-id vector')


@rule('C03', 'R-C03-3', 'T1 ORDER (staleness filter)',
      'the state update is dominated by both staleness comparisons: ids[first_idx] == recorded first id and '
      'ids[second_idx] == recorded second id (entry fields 1<->3 and 2<->4)')
def r3(ctx):
    body = _mb(ctx)
    pop, loop = find_pop_loop(ctx, body)
    # writes of Some(256 + id) / None into the id vector = the state update
    updates = []
    for s in body.stmts():
        if s.bb in loop.blocks and s.kind == 'assign' and s.lhs.proj and s.rv.kind == 'use':
            tgt = sym(body, s.lhs)
            if tgt[0] == 'index' and 'Option<u32>' in _elem_ty(body, s):
                updates.append((s, tgt))
    if len(updates) < 2:
        raise AnchorMissing('expected the two writes token_ids[first_idx] = Some(..), token_ids[second_idx] = None')
    for s, tgt in updates:
        facts = cmp_facts_at(body, s.bb)
        pairs = set()
        for op, a, b in facts:
            if op != 'Eq':
                continue
            for x, y in ((a, b), (b, a)):
                x = peel(x)
                y = peel(y)
                if x[0] == 'index' and nosite(x[1]) == nosite(tgt[1]):
                    fi = _popped_field(peel(x[2]))
                    fy = _popped_field(y)
                    if fi is not None and fy is not None:
                        pairs.add((fi, fy))
        want = {((1, 0), (3,)), ((2,), (4,))}
        norm = {(tuple(a), tuple(b)) for a, b in pairs}
        ctx.require(want <= norm, body, 'staleness-filter',
                    'update %s at line %d is guarded by ids[entry.1]==entry.3 and ids[entry.2]==entry.4'
                    % (sh(tgt), s.span['line']),
                    'update %s at line %d is not dominated by both staleness comparisons (found %s)'
                    % (sh(tgt), s.span['line'], sorted(norm)), s.span)


def _elem_ty(body, s):
    # type of the assigned place: type of the local the deref'd pointer points to
    l = s.lhs.local
    return body.local_ty(l)


def _entry_tuples(ctx, body):
    """(tree of pushed/collected heap entry, site span, description)"""
    out = []
    for p in body.calls(r'BinaryHeap::push$'):
        e = sym(body, p.args[1])
        out.append((e, p.span, body, 're-push line %d' % p.span['line']))
    return out


@rule('C03', 'R-C03-4', 'T15 TYPE + T2 provenance (ordering key)',
      'heap entries are (Reverse(merge id from the table lookup), Reverse(index of the LEFT token), ...): '
      'max-heap on Reverse = lowest id first, leftmost on ties')
def r4(ctx):
    body = _mb(ctx)
    pop, loop = find_pop_loop(ctx, body)
    heap_ty = body.local_ty(pop.args[0].place.local)
    hty = None
    for l in body.locals:
        if l['ty'].startswith('std::collections::BinaryHeap<'):
            hty = l['ty']
    ok = hty is not None and hty.startswith('std::collections::BinaryHeap<(std::cmp::Reverse<u32>, std::cmp::Reverse<usize>,')
    ctx.require(ok, body, 'heap-type', 'heap element type starts with (Reverse<u32>, Reverse<usize>, ..)',
                'heap element type is %s' % hty, pop.span)
    # initial build: the filter_map closure over zip(enumerate, enumerate.skip(1))
    heap_init = None
    for t in body.calls(r'Iterator::collect$'):
        if body.local_ty(t.dest.local).startswith('std::collections::BinaryHeap<'):
            heap_init = t
    if heap_init is None:
        raise AnchorMissing('initial heap construction by collect() not found')
    chain = sym(body, heap_init.args[0])
    # nothing between the candidate construction and the heap may drop or reorder candidates
    from analysis.sym import peel as _peel
    cur = _peel(chain)
    while isinstance(cur, tuple) and cur and cur[0] == 'call' and cur[2] and not cur[1].endswith('Iterator::filter_map'):
        nm = cur[1].rsplit('::', 1)[-1]
        if nm in ('dedup', 'dedup_by', 'dedup_by_key', 'filter', 'take', 'skip', 'step_by', 'take_while', 'skip_while', 'unique', 'unique_by', 'rev', 'sorted', 'sorted_by_key'):
            ctx.fail(body, 'initial-candidates-dropped|' + nm, 'the initial candidates pass through `%s` before they reach the heap: a candidate that is dropped here is never '
                     're-created (re-pushes only involve a freshly merged token), so a mergeable adjacent pair can stay unmerged' % nm, heap_init.span)
            return
        cur = _peel(cur[2][0])
    chain = cur if (isinstance(cur, tuple) and cur and cur[0] == 'call' and cur[1].endswith('Iterator::filter_map')) else chain
    if not (chain[0] == 'call' and chain[1].endswith('Iterator::filter_map')):
        raise AnchorMissing('initial heap is not built by filter_map(..).collect()')
    src = chain[2][0]
    okzip = (src[0] == 'call' and src[1].endswith('Iterator::zip') and
             src[2][0][0] == 'call' and src[2][0][1].endswith('Iterator::enumerate') and
             src[2][1][0] == 'call' and src[2][1][1].endswith('Iterator::skip') and
             src[2][1][2][1][0] == 'const' and src[2][1][2][1][2] == 1 and
             src[2][1][2][0][0] == 'call' and src[2][1][2][0][1].endswith('Iterator::enumerate'))
    same_src = okzip and nosite(src[2][0][2][0]) == nosite(src[2][1][2][0][2][0])
    # equivalent enumeration of the adjacent pairs: x.windows(2).enumerate() -> (i, [x[i], x[i+1]])
    from analysis.sym import core as _core
    cs = _core(src)
    okwin = cs[0] == 'call' and cs[1].endswith('Iterator::enumerate') and cs[2][0][0] == 'call' and cs[2][0][1].endswith('slice::windows') and \
        cs[2][0][2][1][0] == 'const' and cs[2][0][2][1][2] == 2
    if src[0] == 'call' and src[1].endswith('Iterator::zip') or okwin:
        ctx.require(bool(okzip and same_src) or okwin, body, 'initial-pairs',
                    'initial candidates are the adjacent pairs: zip(enumerate(bytes), enumerate(bytes).skip(1)) / windows(2).enumerate()',
                    'initial candidate pairs are not zip(enumerate(x), enumerate(x).skip(1)): %s' % sh(src), heap_init.span)
    else:
        raise AnchorMissing('enumeration of the initial candidate pairs not recognised: %s' % sh(src)[:120])
    clo = closure_of(ctx, chain[2][1])
    somes = [(v, b) for v, b in ret_values(clo) if v[0] == 'agg' and v[2].endswith('Option::Some')]
    if not somes:
        raise AnchorMissing('initial-candidate closure returns no Some(..)')
    for v, b in somes:
        e = v[3][0]
        if okwin:
            _check_entry(ctx, clo, e, clo.blocks[b].term.span, 'initial candidate', left=('field', ('arg', 2, ''), 0),
                         right=('bin', 'Add', ('field', ('arg', 2, ''), 0), ('const', '1_usize', 1)))
        else:
            _check_entry(ctx, clo, e, clo.blocks[b].term.span, 'initial candidate', left=('field', ('field', ('arg', 2, ''), 0), 0),
                         right=('field', ('field', ('arg', 2, ''), 1), 0))
    # re-pushes
    for p in [t for t in body.calls(r'BinaryHeap::push$') if t.bb in loop.blocks]:
        e = sym(body, p.args[1])
        _check_entry(ctx, body, e, p.span, 're-push')


def _is_lookup(t):
    """tree is (payload of) a lookup in the merge table: HashMap::get(.., concat(..))"""
    for s in walk(t):
        if isinstance(s, tuple) and s and s[0] == 'call' and s[1].endswith('HashMap::get'):
            return True
    return False


def _check_entry(ctx, body, e, span, what, left=None, right=None):
    if e[0] != 'agg' or e[1] != 'tuple' or len(e[3]) < 6:
        ctx.fail(body, 'entry-shape|' + what.split()[0], '%s: heap entry is not a 6-tuple literal: %s' % (what, sh(e)), span)
        return
    f0, f1, f2 = e[3][0], e[3][1], e[3][2]
    ok0 = f0[0] == 'agg' and f0[2].endswith('Reverse::Reverse')
    ok1 = f1[0] == 'agg' and f1[2].endswith('Reverse::Reverse')
    ctx.require(ok0 and ok1, body, 'entry-reverse|' + what.split()[0],
                '%s (line %d): components 0 and 1 are wrapped in Reverse' % (what, span['line']),
                '%s (line %d): ordering components are not both Reverse(..): %s, %s' % (what, span['line'], sh(f0), sh(f1)), span)
    if not (ok0 and ok1):
        return
    if left is not None:
        # initial candidate: component 1 must be the index of the first (left) element of the pair, 2 the right
        l = nosite(peel(f1[3][0]))
        r = nosite(peel(f2))
        lw = _strip_names(left)
        rw = _strip_names(right)
        ctx.require(_strip_names(l) == lw and _strip_names(r) == rw, body, 'entry-left-index|initial',
                    '%s: Reverse(index of left token), index of right token' % what,
                    '%s: entry indices are (%s, %s), expected (left, right) of the zipped pair' % (what, sh(l), sh(r)), span)
        # merge id: payload of the table lookup
        from analysis.alts import expand as _expand
        ctx.require(_is_lookup(_expand(ctx.facts, body, nosite(f0[3][0]))), body, 'entry-id|initial', '%s: Reverse(merge id) comes from the merge-table lookup' % what,
                    '%s: component 0 is %s, not the merge-table lookup' % (what, sh(f0[3][0])), span)


def _strip_names(t):
    if not isinstance(t, tuple):
        return t
    if t and t[0] == 'arg':
        return ('arg', t[1], '')
    return tuple(_strip_names(x) if isinstance(x, tuple) else x for x in t)


@rule('C03', 'R-C03-5', 'T2 CHAIN (nearest live neighbours)',
      're-push candidates are formed with the nearest live (non-empty) token to the left of first_idx and to the '
      'right of second_idx, concatenated in text order, and looked up in the merge table')
def r5(ctx):
    body = _mb(ctx)
    pop, loop = find_pop_loop(ctx, body)
    maps = [t for t in body.calls(r'Option::map$') if t.bb in loop.blocks]
    found = {'prev': None, 'next': None}
    for m in maps:
        src = sym(body, m.args[0])
        if src[0] != 'call' or not src[1].endswith('::find'):
            continue
        it = src[2][0]
        if it[0] == 'call' and it[1].endswith('Iterator::rev'):
            found['prev'] = (m, src, it)
        elif it[0] == 'call' and it[1].endswith('Iterator::skip'):
            found['next'] = (m, src, it)
    for side in ('prev', 'next'):
        if found[side] is None:
            raise AnchorMissing('neighbour search for the %s token (find over rev/skip) not found in the heap loop' % side)
    # prev: bytes.iter().enumerate().take(first_idx).rev().find(non-empty)
    m, src, it = found['prev']
    tk = it[2][0]
    okp = tk[0] == 'call' and tk[1].endswith('Iterator::take') and tk[2][0][0] == 'call' and \
        tk[2][0][1].endswith('Iterator::enumerate')
    idx = _popped_field(peel(tk[2][1])) if okp else None
    ctx.require(bool(okp) and idx == (1, 0), body, 'prev-neighbour',
                'left neighbour: enumerate().take(first_idx).rev().find(..)',
                'left neighbour search is %s (take bound is not the popped first index)' % sh(it), m.span)
    _check_find_pred(ctx, body, src, m.span, 'prev')
    # next: bytes.iter().enumerate().skip(second_idx + 1).find(non-empty)
    m2, src2, it2 = found['next']
    arg = peel(it2[2][1])
    okn = it2[2][0][0] == 'call' and it2[2][0][1].endswith('Iterator::enumerate') and arg[0] == 'bin' and \
        arg[1] == 'Add' and _popped_field(peel(arg[2])) == (2,) and arg[3][0] == 'const' and arg[3][2] == 1
    ctx.require(bool(okn), body, 'next-neighbour', 'right neighbour: enumerate().skip(second_idx + 1).find(..)',
                'right neighbour search is %s (skip is not second_idx + 1)' % sh(it2), m2.span)
    _check_find_pred(ctx, body, src2, m2.span, 'next')
    # same underlying vector for both scans and it is the one updated with the merged bytes
    # concatenation order inside the two map closures
    for side, (mm, _, _) in found.items():
        clo = closure_of(ctx, sym(body, mm.args[1]))
        cc = [t for t in clo.calls(r'slice::concat$')]
        if len(cc) != 1:
            ctx.fail(clo, 'concat|' + side, 'expected exactly one concat in the %s-neighbour closure' % side)
            continue
        arr = sym(clo, cc[0].args[0])
        if arr[0] != 'agg' or len(arr[3]) != 2:
            ctx.fail(clo, 'concat-shape|' + side, 'concat argument is not a 2-element array: %s' % sh(arr), cc[0].span)
            continue
        a, b = (peel(x) for x in arr[3])
        nb = ('field', ('arg', 2, ''), 1)   # the neighbour's bytes: closure argument .1
        a_is_nb = _strip_names(nosite(a)) == nb
        b_is_nb = _strip_names(nosite(b)) == nb
        a_is_merged = a[0] == 'upvar'
        b_is_merged = b[0] == 'upvar'
        if side == 'prev':
            good = a_is_nb and b_is_merged
        else:
            good = a_is_merged and b_is_nb
        ctx.require(good, clo, 'concat-order|' + side,
                    '%s candidate bytes = %s' % (side, 'concat(prev, merged)' if side == 'prev' else 'concat(merged, next)'),
                    '%s candidate concatenates (%s, %s) -- wrong order or operands' % (side, sh(a), sh(b)), cc[0].span)
        # the lookup key is that concatenation
        gets = [t for t in clo.calls(r'HashMap::get$')]
        okk = len(gets) == 1 and any(s[0] == 'call' and s[1].endswith('slice::concat') for s in walk(sym(clo, gets[0].args[1])))
        ctx.require(okk, clo, 'lookup-key|' + side, '%s candidate: merge table is queried with the concatenation' % side,
                    None, cc[0].span)
        # returned index pair: prev -> (prev_idx, first_idx); next -> (first_idx, next_idx)
        for v, bb in ret_values(clo):
            if v[0] == 'agg' and v[2].endswith('Option::Some'):
                tup = v[3][0]
                if tup[0] != 'agg' or len(tup[3]) != 4:
                    ctx.fail(clo, 'ret-shape|' + side, 'closure result is not a 4-tuple', clo.blocks[bb].term.span)
                    continue
                # the id of the candidate is what the table answered for the concatenation -- nothing in between decides whether the entry counts
                # (`.filter(|id| id > merge_id)`, "a merge is younger than its parts", drops entries that the canonical procedure applies)
                idt = tup[3][0]
                chain = []
                from analysis.alts import expand as _expand, flatten as _flatten
                IDENT = ('copied', 'cloned', 'branch', 'as_ref', 'map', 'clone', 'deref', 'ok_or', 'into', 'from', 'as_deref')

                def is_err(v_):
                    v_ = peel(v_)
                    return isinstance(v_, tuple) and v_ and ((v_[0] == 'agg' and v_[1] == 'adt' and (v_[2].endswith('Option::None') or v_[2].endswith('Result::Err'))) or
                                                             (v_[0] == 'call' and v_[1].rsplit('::', 1)[-1] == 'from_residual'))

                def is_direct(cur, depth=0):
                    """cur is the answer of HashMap::get on the merge table, reached through wrappers, tuple components, the Some of a spliced helper
                    and identity adaptors only"""
                    if depth > 14 or not (isinstance(cur, tuple) and cur):
                        return False
                    k = cur[0]
                    if k in ('unwrap', 'ref', 'deref', 'copy', 'move', 'cast') and len(cur) > 1 and isinstance(cur[1], tuple):
                        return is_direct(cur[1], depth + 1)
                    if k == 'agg' and cur[1] == 'adt' and cur[3] and (cur[2].endswith('Option::Some') or cur[2].endswith('Result::Ok')):
                        return is_direct(cur[3][0], depth + 1)
                    if k == 'field' and isinstance(cur[1], tuple) and cur[1] and cur[1][0] == 'variant' and cur[1][2] in ('Some', 'Ok', 'Continue'):
                        return is_direct(cur[1][1], depth + 1)
                    if k == 'field' and isinstance(cur[2], int):
                        # a component of a tuple that a (spliced) helper returned: every non-error alternative must be a tuple whose component is direct
                        base = cur[1]
                        while isinstance(base, tuple) and base and base[0] in ('unwrap', 'ref', 'deref', 'copy', 'move') and isinstance(base[1], tuple):
                            base = base[1]
                        alts_ = [a_.value for a_ in _flatten(_expand(ctx.facts, clo, nosite(base)))] if base[0] in ('var', 'phi') else [base]
                        good_ = []
                        for v_ in alts_:
                            if is_err(v_):
                                continue
                            v_ = peel(v_)
                            if v_[0] == 'agg' and v_[1] == 'adt' and v_[3] and (v_[2].endswith('Option::Some') or v_[2].endswith('Result::Ok')):
                                v_ = peel(v_[3][0])
                            if not (v_[0] == 'agg' and v_[1] == 'tuple' and cur[2] < len(v_[3])):
                                return False
                            good_.append(v_[3][cur[2]])
                        return bool(good_) and all(is_direct(g_, depth + 1) for g_ in good_)
                    if k in ('var', 'phi'):
                        nv = init_value(clo, cur)
                        if nv != cur:
                            return is_direct(nv, depth + 1)
                        alts_ = [a_.value for a_ in _flatten(_expand(ctx.facts, clo, nosite(cur)))]
                        good_ = [v_ for v_ in alts_ if not is_err(v_)]
                        return bool(good_) and all(peel(v_) != cur and is_direct(v_, depth + 1) for v_ in good_)
                    if k == 'call' and cur[2]:
                        if cur[1].endswith('HashMap::get'):
                            return True
                        n_ = cur[1].rsplit('::', 1)[-1]
                        if n_ in IDENT:
                            return is_direct(cur[2][0], depth + 1)
                        chain.append(n_)
                        return False
                    return False
                direct = is_direct(idt)
                ctx.require(direct, clo, 'lookup-unfiltered|' + side, '%s candidate: the merge id is the table entry of the concatenation, unconditionally' % side,
                            '%s candidate: the table entry passes through `%s` before it becomes a candidate: entries of the table are ignored' % (
                                side, ' / '.join(n_ for n_ in chain if n_ not in ('copied', 'cloned', 'branch')) or sh(idt)[:80]), clo.blocks[bb].term.span)
                i1, i2 = peel(tup[3][1]), peel(tup[3][2])
                nbidx = ('field', ('arg', 2, ''), 0)
                if side == 'prev':
                    good = _strip_names(nosite(i1)) == nbidx and i2[0] == 'upvar'
                else:
                    good = i1[0] == 'upvar' and _strip_names(nosite(i2)) == nbidx
                ctx.require(good, clo, 'ret-indices|' + side,
                            '%s candidate indices are in text order (left, right)' % side,
                            '%s candidate returns indices (%s, %s)' % (side, sh(i1), sh(i2)), clo.blocks[bb].term.span)


def _check_find_pred(ctx, body, src, span, side):
    clo = closure_of(ctx, src[2][1])
    rv = ret_values(clo)
    good = len(rv) == 1 and rv[0][0][0] == 'un' and rv[0][0][1] == 'Not' and rv[0][0][2][0] == 'call' and \
        rv[0][0][2][1].endswith('is_empty')
    ctx.require(good, clo, 'live-pred|' + side, '%s neighbour predicate is `!bytes.is_empty()` (live token)' % side,
                '%s neighbour predicate is %s' % (side, sh(rv[0][0]) if rv else '?'), span)


@rule('C03', 'R-C03-6', 'T10 WHO (single emitter)',
      'every token id returned by merge_bytes is emitted by the single drain of the per-word id vector after the heap '
      'loop; no other write to the result bypasses the canonical merge procedure')
def r6(ctx):
    body = _mb(ctx)
    pop, loop = find_pop_loop(ctx, body)
    rv = ret_values(body)
    if len(rv) != 1:
        raise AnchorMissing('single returned vector of merge_bytes')
    res = nosite(rv[0][0])
    writers = []
    for t in body.terms('call'):
        if not t.args or t.args[0].place is None:
            continue
        if not body.local_ty(t.args[0].place.local).startswith('&mut'):
            continue
        if nosite(sym(body, t.args[0])) == res:
            writers.append(t)
    if not writers:
        raise AnchorMissing('no write to the result vector found')
    for w in writers:
        name = w.callee_res() or ''
        good = name.endswith('Extend>::extend') and len(w.args) == 2
        if good:
            src = sym(body, w.args[1])
            good = any(s[0] == 'call' and s[1].endswith('Iterator::flatten') for s in walk(src))
            # and it is reached only after the heap loop finished
            exits = [v for (u, v) in loop.exits(body)]
            good = good and all(cfg.must_pass(body, 0, w.bb, via_blocks=exits) for _ in [0])
        ctx.require(good, body, 'single-emitter|' + (name.rsplit('::', 1)[-1]),
                    'result is written by extend(token_ids.into_iter().flatten()) after the heap loop (line %d)' % w.span['line'],
                    'token ids are emitted at line %d by `%s` outside the canonical merge procedure (bypasses the '
                    'lowest-id/leftmost merge order)' % (w.span['line'], name), w.span)
    # every word goes through the heap loop: the loop header is on every path from the word iteration to the drain
    drains = [w for w in writers if (w.callee_res() or '').endswith('Extend>::extend')]
    word_loop = cfg.innermost_loop(body, [t for t in body.calls(r'Matches.*::next$|::next$') if 'Matches' in (t.callee_res() or '') or
                                          'regex' in body.local_ty(t.args[0].place.local)][0].bb) if True else None
    if drains and word_loop is not None:
        # from the word-loop header, the only way to come back to it is through the heap loop header
        back = cfg.iteration_paths_avoid(body, word_loop, word_loop.header, avoid_blocks=[loop.header])
        # allow the loop's own exit (no more words)
        ctx.require(not back, body, 'every-word-merged',
                    'every word iteration passes through the merge heap loop before the next word',
                    'a word iteration can reach the next word without running the merge heap loop (fast path bypassing the merges)',
                    body.blocks[word_loop.header].term.span)


@rule('C03', 'R-C03-7', 'MUST-PASS (both neighbours reconsidered)',
      'after applying a merge, both the left-neighbour and the right-neighbour candidate searches are executed on '
      'every path to the next iteration, and a found candidate is always pushed')
def r7(ctx):
    body = _mb(ctx)
    pop, loop = find_pop_loop(ctx, body)
    # the state update: store of Some(256 + id)
    upd = None
    for s in body.stmts():
        if s.bb in loop.blocks and s.kind == 'assign' and s.lhs.proj and s.rv.kind == 'use' and \
                'Option<u32>' in body.local_ty(s.lhs.local):
            v = sym(body, s.rv.ops[0])
            if v[0] == 'agg' and v[2].endswith('Option::Some'):
                upd = s
    if upd is None:
        raise AnchorMissing('state update of the merge loop')
    finds = []
    for m in [t for t in body.calls(r'Option::map$') if t.bb in loop.blocks]:
        src = sym(body, m.args[0])
        if src[0] == 'call' and src[1].endswith('::find'):
            it = src[2][0]
            side = 'prev' if (it[0] == 'call' and it[1].endswith('Iterator::rev')) else 'next'
            finds.append((side, m))
    if len(finds) != 2:
        raise AnchorMissing('the two neighbour searches')
    for side, m in finds:
        ok = all(cfg.must_pass(body, upd.bb, l, via_blocks=[m.bb]) for l in loop.latches)
        ctx.require(ok, body, 'search-every-iteration|' + side,
                    'the %s-neighbour candidate search runs in every iteration that applied a merge' % side,
                    'the %s-neighbour candidate search (line %d) is skipped on some path after a merge was applied: a valid '
                    'merge with that neighbour is never considered' % (side, m.span['line']), m.span)
        # found candidate => pushed: from the Some(Some(..)) edge the push is unavoidable
        pushes = [t for t in body.calls(r'BinaryHeap::push$') if t.bb in loop.blocks and
                  any(nosite(s_) == nosite(sym(body, m.dest)) for s_ in walk(sym(body, t.args[1])))]
        if len(pushes) != 1:
            ctx.fail(body, 'push-for-candidate|' + side, 'expected one push of the %s candidate, found %d' % (side, len(pushes)), m.span)
            continue
        p = pushes[0]
        # guards of the push: both option layers are Some; conversely the inner-Some edge leads only to the push
        from analysis.sym import variant_facts_at
        vf = [(t, n) for t, n in variant_facts_at(body, p.bb) if any(nosite(x) == nosite(sym(body, m.dest)) for x in walk(t))]
        ctx.require(len(vf) >= 2 and all(n == {'Some'} for _, n in vf), body, 'push-iff-found|' + side,
                    'the %s candidate is pushed under Some(Some(..)) only' % side, None, p.span)
        # the innermost test ABOUT THE CANDIDATE (the inner Some): whatever is tested after it (a "queued already" set, a size limit) stands
        # between a found candidate and its push
        md = nosite(sym(body, m.dest))
        inner = [g for g in guards_at(body, p.bb) if g.block in loop.blocks and g.t[0] == 'discr' and any(nosite(x) == md for x in walk(g.t))]
        if inner:
            last = max(inner, key=lambda g: len(cfg.dominators(body)[g.block]))
            ok2 = all(cfg.must_pass(body, last.target, l, via_blocks=[p.bb]) for l in loop.latches)
            ctx.require(ok2, body, 'found-implies-pushed|' + side, 'a found %s candidate is always pushed' % side, None, p.span)


@rule('C03', 'R-C03-8', 'T2 CHAIN (the unit of merging is the whole word)',
      'merge_bytes merges within one match of the word splitter at a time and starts from ALL bytes of that match: the outer loop runs '
      'over `self.state.2.find_iter(s)` unadapted and the per-word byte / id tables are built from the whole matched text. Cutting a word '
      'into pieces (chunks, a length cap) never forms the candidate pairs that straddle a cut: the result is not the canonical merge')
def r8(ctx):
    from analysis.seq import seq_of_iter, seq_of, iter_init, next_call_of, item_subst_fn, ITEM, subst
    from analysis.pat import match, Call, ANY, Pred, has
    from analysis.sym import core, symbolizer, simplify, defs_of
    b = _mb(ctx)
    # ... and the word splitter itself cuts at Unicode whitespace only (the words the merges were learned on)
    from rules.common import word_pattern_is_whitespace_only
    word_pattern_is_whitespace_only(ctx, b, 'merge-unit')
    outer = None
    for lp in sorted(cfg.loops(b), key=lambda l: -len(l.blocks)):
        nx = next_call_of(b, lp)
        if nx is not None:
            outer = (lp, nx)
            break
    if outer is None:
        raise AnchorMissing('the word loop of merge_bytes')
    lp, nx = outer
    segs = seq_of_iter(ctx.facts, b, iter_init(b, sym(b, nx.args[0])))
    FIND = Call('Regex::find_iter', ('field', ('field', ('arg', 1, ANY), 'state'), 2), ('arg', 2, ANY))
    ok = segs is not None and len(segs) == 1 and segs[0].kind == 'each' and not segs[0].conds and core(segs[0].elem) == ITEM and match(core(segs[0].src), FIND)
    ctx.require(ok, b, 'word-source', 'the word loop runs over every match of the splitter regex on the input, one word at a time',
                'the word loop of merge_bytes runs over %s' % [repr(x)[:200] for x in segs or ()], nx.span)
    # the per-word tables: Vec<Vec<u8>> and Vec<Option<u32>> built inside the loop from the bytes of the matched word
    from analysis.seq import seq_of_var
    from analysis.sym import init_value, walk
    from rules.common import str_slice
    f = item_subst_fn(b, nx, 0)
    z = symbolizer(b)
    n = 0

    def whole(src):
        """the iterated source is all bytes of the current match: the match itself (as_str / as_bytes / iter are transparent), or the slice
        s[m.start()..m.end()] of the input; `chunks(1)` over it still yields every byte"""
        x = peel(src)
        if x[0] == 'call' and x[1].endswith('::chunks') and len(x[2]) == 2 and match(core(x[2][1]), Pred(lambda u: u[0] == 'const' and u[2] == 1)):
            x = peel(x[2][0])
        if core(x) == ITEM:
            return True
        sl = str_slice(x)
        return sl is not None and has(core(sl[0]), ('arg', 2, ANY)) and sl[1] is not None and sl[2] is not None and \
            match(core(sl[1]), Call('Match::start', ITEM)) and match(core(sl[2]), Call('Match::end', ITEM))
    types = ('std::vec::Vec<std::vec::Vec<u8>>', 'std::vec::Vec<std::option::Option<u32>>')
    cands = {}
    for name in types:
        for l in range(len(b.locals)):
            if b.local_ty(l) != name or not b.var_name(l):
                continue
            whole_d, partial = defs_of(b, l)
            init = [d for d in whole_d if d.bb in lp.blocks]
            if len(init) == 1:
                cands[l] = (name, init[0])
    for l, (name, d) in cands.items():
        v = nosite(simplify(z.rvalue(d.rv, 0, (l,)) if hasattr(d, 'rv') else z.call(d, 0, (l,))))
        # a table that is handed over from another candidate (the result of a helper, a move) is judged where it is built
        if any(isinstance(x, tuple) and x and x[0] in ('var', 'phi') and (x[2] if x[0] == 'var' and len(x) > 2 else x[1]) in cands and
               (x[2] if x[0] == 'var' and len(x) > 2 else x[1]) != l for x in walk(init_value(b, v))):
            continue
        writers = [t for t in b.calls(r'Vec::(push|extend|extend_from_slice)$|Extend>::extend$') if core(sym(b, t.args[0]))[0] == 'var' and core(sym(b, t.args[0]))[2] == l]
        ws = seq_of_var(ctx.facts, b, l) if writers else seq_of(ctx.facts, b, v)
        ws = [w_ for w_ in (ws or []) if not (w_.kind == 'opaque')]
        n += 1
        okw = len(ws) == 1 and ws[0].kind == 'each' and not ws[0].conds and whole(subst(ws[0].src, f))
        ctx.require(okw, b, 'whole-word|' + b.var_name(l), '`%s` starts with one entry per byte of the whole matched word' % b.var_name(l),
                    '`%s` is built from %s instead of all bytes of the matched word' % (b.var_name(l), [repr(x)[:160] for x in ws or ()]), d.span)
    if n < 2:
        raise AnchorMissing('per-word byte and id tables of merge_bytes (found %d)' % n)


@rule('C03', 'R-C03-9', 'T10 WHO (the merge table is used as trained)',
      'BPETokenizer::new drops entries of the loaded merge table only by their id (the max_vocab_size cut `256 + id < limit`): a filter that '
      'looks at the token bytes (e.g. "keep valid UTF-8 only") removes the intermediate merges every multi-byte character is built through '
      '(`e2 82` on the way to `e2 82 ac`), the longer merges stay in the table but become unreachable, and the result is no longer the '
      'canonical merge of the trained table')
def r9(ctx):
    from analysis.pat import has, ANY, Pred
    from analysis.sym import core, ret_values
    from rules.common import closure_of
    b = bpe_body(ctx, 'tokenization::BaseTokenizer::new')
    n = 0
    for t in b.calls(r'HashMap::retain$|HashMap::extract_if$|Iterator::filter$|Iterator::filter_map$|HashMap::remove$'):
        name = (t.callee_res() or '').rsplit('::', 1)[-1]
        if name == 'remove':
            if 'HashMap<std::vec::Vec<u8>, u32>' not in b.local_ty(t.args[0].place.local):
                continue
            # entries removed one by one: fine when the keys to remove were selected from the table by their id only
            # (`for k in table.iter().filter(|(_, id)| limit <= id).map(|(k, _)| k.clone()).collect::<Vec<_>>() { table.remove(&k) }`)
            from analysis.seq import seq_of_iter, ITEM
            from analysis.sym import loop_source
            lp = cfg.innermost_loop(b, t.bb)
            nx = [c for c in b.calls(r'::next$') if lp is not None and c.bb in lp.blocks and cfg.innermost_loop(b, c.bb) is lp]
            sg = seq_of_iter(ctx.facts, b, loop_source(b, nx[0])) if len(nx) == 1 else None
            by_id = sg is not None and len(sg) == 1 and sg[0].kind == 'each' and core(sg[0].elem)[:3] in (('field', ITEM, 0),) and \
                bool(sg[0].conds) and all(has(c_, ('field', ITEM, 1)) and not has(c_, ('field', ITEM, 0)) for c_, p_ in sg[0].conds) and \
                nosite(core(sym(b, t.args[1]))) == nosite(core(('unwrap', sym(b, nx[0].dest))))
            n += 1 if by_id else 0
            ctx.require(by_id, b, 'table-entry-removed', 'entries are removed from the merge table only for keys selected by their merge id (line %d)' % t.span['line'],
                        'BPETokenizer::new removes an entry of a map at line %d (keys: %s)' % (t.span['line'], [repr(x)[:160] for x in sg or ()]), t.span)
            continue
        rc = core(sym(b, t.args[0]))
        if 'HashMap<std::vec::Vec<u8>, u32>' not in b.local_ty(t.args[0].place.local) and not has(rc, Pred(lambda u: u[0] == 'var' and 'merge' in str(u[1]))):
            continue
        clo = closure_of(ctx, sym(b, t.args[1]))
        n += 1
        uses_key = any(has(v, ('arg', 2, ANY)) and not has(v, ('field', ('arg', 2, ANY), 1)) for v, _ in ret_values(clo)) if name != 'retain' else \
            any(has(v, ('arg', 2, ANY)) for v, _ in ret_values(clo))
        ctx.require(not uses_key, b, 'table-filter-by-id', 'the merge table is cut by merge id only (line %d)' % t.span['line'],
                    'BPETokenizer::new filters the merge table by the token bytes (line %d): intermediate merges of multi-byte characters are dropped and the '
                    'merges built on them become unreachable' % t.span['line'], t.span)
    # the cut written as "sort the entries, keep the first k": it is a cut by id only when the sort key is the id. `sorted()` on the (bytes, id)
    # entries orders them by their BYTES: the k lexicographically smallest merges are kept, a set that is neither a prefix of the table nor
    # closed under its constituents
    for t in b.calls(r'Iterator::take$'):
        src = init_value(b, sym(b, t.args[0]))
        if 'HashMap<std::vec::Vec<u8>, u32>' not in ' '.join(b.local_ty(x[2]) for x in walk(core(src)) if isinstance(x, tuple) and x and x[0] == 'var' and len(x) > 2) and \
                not has(src, Pred(lambda u: u[0] == 'var' and 'merge' in str(u[1]))):
            continue
        srt = [x for x in walk(src) if isinstance(x, tuple) and x and x[0] == 'call' and re.search(r'::sorted(_unstable)?(_by|_by_key|_by_cached_key)?$', x[1])]
        if not srt:
            continue
        n += 1
        name = srt[0][1].rsplit('::', 1)[-1]
        by_id = False
        if name.endswith('by_key') and len(srt[0][2]) == 2:
            clo = closure_of(ctx, srt[0][2][1])
            rvk = ret_values(clo)
            by_id = len(rvk) == 1 and has(core(rvk[0][0]), ('field', ('arg', 2, ANY), 1)) and not has(core(rvk[0][0]), ('field', ('arg', 2, ANY), 0))
        ctx.require(by_id, b, 'table-cut-order', 'the merges kept by `take` are the first ones BY ID (line %d)' % t.span['line'],
                    'BPETokenizer::new keeps the first merges after `%s` (line %d), which orders the (bytes, id) entries by their bytes: the merges that survive the '
                    'max_vocab_size cut are the lexicographically smallest, lower-id merges are dropped and multi-level merges lose their constituents' % (name, t.span['line']), t.span)
    if n < 1:
        raise AnchorMissing('the max_vocab_size cut of the merge table in BPETokenizer::new')
