"""C17 Token groups partition the token sequence; tensorisation is faithful."""
import re
from analysis.engine import rule, AnchorMissing
from analysis import cfg
from analysis.facts import norm_path
from analysis.sym import sym, show_in, nosite, peel, core, walk, ret_values, args_of, guards_at, atoms_at, \
    variant_facts_at, cmp_facts_at, init_value, edge_guards, symbolizer, simplify, loop_source, defs_of, var_defs, agg_field
from analysis.pat import match, Call, Cap, ANY, Pred, Const, has, chain_names
from analysis.seq import seq_of, seq_of_var, ITEM
from analysis.alts import value_alts
from rules.common import closure_of, closures_in, body_for, BYTE, state_locals, local_defs, V, receiver_var

T = 'tokenization::'


R = {}


def _var(name):
    """role based (set by the _roles_* helpers from local types / structure, never from debug names)"""
    return Pred(lambda t: isinstance(t, tuple) and t and t[0] == 'var' and len(t) > 2 and R.get(name) == t[2])


def T_(tree):
    """pattern: structurally equal (modulo call sites) to the given core tree"""
    return Pred(lambda t: tree is not None and nosite(core(t)) == nosite(tree))


def _one(b, ty, what):
    c = state_locals(b, ty)
    if len(c) != 1:
        raise AnchorMissing('%s (mutable local of type %s): found %d' % (what, ty, len(c)))
    return c[0]


def _full(n):
    return ('agg', 'adt', Pred(lambda s: s.endswith('TokenGroup::Full')), (n,))


@rule('C17', 'R-C17-1', 'T10 WHO / T2 (groups built alongside ids)',
      'ByteTokenizer::process_input writes ids and groups only at the paired sites: prefix Full(1) x num_prefix_tokens, special '
      'token -> one id + Full(1), regular text -> its bytes as ids + one group per Character of CS::new(text, use_graphemes) '
      '(byte lengths, or nested code point lengths), suffix Full(1) x num_suffix_tokens')
def r1(ctx):
    b = body_for(ctx, T + 'BaseTokenizer::process_input', BYTE)
    R.clear()
    R['tokens'] = _one(b, r'^std::vec::Vec<u32>$', 'id vector')
    R['groups'] = _one(b, r'^std::vec::Vec<tokenization::TokenGroup>$', 'group vector')
    gs = seq_of_var(ctx.facts, b, R['groups'])
    ts = seq_of_var(ctx.facts, b, R['tokens'])
    if gs is None or ts is None:
        raise AnchorMissing('construction of `groups` / `tokens` in ByteTokenizer::process_input')
    item_of = lambda v: Pred(lambda u: core(u) == ('field', ('variant', ITEM, v), 0))
    isfull1 = lambda t: match(core(t), _full(Const(1)))

    def arms(s_):
        """(input arm, group mode, other conditions) of a leaf segment; the `?` continuation of the id lookup is not a choice"""
        arm, grp, other = None, None, []
        for c, p in s_.conds:
            if p and c[0] == 'is' and c[1] == ITEM and len(c[2]) == 1:
                arm = c[2][0]
            elif p and c[0] == 'is' and len(c[2]) == 1 and match(core(c[1]), ('field', ('field', ('arg', 1, ANY), 'config'), 'groups')):
                grp = c[2][0]
            elif p and c[0] == 'is' and c[2] == ('Continue',) and match(peel(c[1]), Call('Try>::branch', ANY)):
                continue
            else:
                other.append(c)
        return arm, grp, other

    def where(s_):
        return s_.term.span if s_.term is not None else None
    csnew = lambda txt: Call('CharString::new', txt, ('field', ('field', ('arg', 1, ANY), 'config'), 'use_graphemes'))
    # ---- groups
    seen = {}
    shape = len(gs) == 3 and gs[1].kind == 'nest' and not gs[1].conds and match(core(gs[1].src), Call('split_input', ('arg', 1, ANY), ('arg', 2, ANY), ('arg', 3, ANY)))
    ctx.require(shape, b, 'group-shape', 'groups = prefix run, then per input piece, then suffix run', 'groups are built as %s' % [repr(x)[:160] for x in gs])
    if shape:
        pre, mid, suf = gs
        ctx.require(pre.kind == 'repeat' and not pre.conds and isfull1(pre.elem) and match(core(pre.count), Call('num_prefix_tokens', ('arg', 1, ANY))), b, 'prefix-groups',
                    'groups starts as Full(1) x num_prefix_tokens()', 'groups starts as %r' % pre)
        if suf.kind == 'repeat' and not suf.conds and isfull1(suf.elem) and match(core(suf.count), Call('num_suffix_tokens', ('arg', 1, ANY))):
            seen.setdefault('suffix', []).append(suf)
        else:
            ctx.fail(b, 'unpaired-group-writer|suffix', 'groups end with `%r` instead of Full(1) x num_suffix_tokens()' % suf, where(suf))
        for s_ in mid.inner:
            arm, grp, other = arms(s_)
            kind = None
            if s_.kind == 'one' and arm == 'Special' and grp is None and not other and isfull1(s_.elem):
                kind = 'special'
            elif s_.kind == 'each' and arm == 'Regular' and grp == 'Bytes' and not other and \
                    match(core(s_.src), Call('CharString::get_char_byte_lengths', csnew(item_of('Regular')))) and match(core(s_.elem), _full(('item', 1))):
                kind = 'bytes'
            elif s_.kind == 'each' and arm == 'Regular' and grp == 'CodePoints' and not other and match(core(s_.src), Call('CharString::chars', csnew(item_of('Regular')))):
                kind = 'code-points'
                e = core(s_.elem)
                ok = e[0] == 'agg' and e[2].endswith('TokenGroup::Nested')
                if ok:
                    inner = seq_of(ctx.facts, b, e[3][0])
                    ok = inner is not None and len(inner) == 1 and inner[0].kind == 'each' and not inner[0].conds and \
                        match(core(inner[0].src), Call('code_points', ('item', 1))) and match(core(inner[0].elem), _full(Call('len_utf8', ITEM)))
                ctx.require(ok, b, 'nested-inner', 'nested groups = Full(len_utf8) per code point of the Character', 'nested group: %r' % s_, where(s_))
            if kind is None:
                ctx.fail(b, 'unpaired-group-writer|' + s_.kind, 'groups also receive `%s` (line %d), which is not one of the paired writers (a shortcut that emits groups '
                         'without segmenting the text into Characters breaks "one group per character")' % (repr(s_)[:120], where(s_)['line'] if where(s_) else 0), where(s_))
                continue
            seen.setdefault(kind, []).append(s_)
    for k in ('special', 'bytes', 'code-points', 'suffix'):
        ctx.require(len(seen.get(k, [])) == 1, b, 'group-writer|' + k, 'exactly one `%s` group writer' % k, 'found %d `%s` group writers' % (len(seen.get(k, [])), k))
    # ---- ids
    seen_t = {}
    shape = len(ts) == 1 and ts[0].kind == 'nest' and not ts[0].conds and match(core(ts[0].src), Call('split_input', ('arg', 1, ANY), ('arg', 2, ANY), ('arg', 3, ANY)))
    ctx.require(shape, b, 'id-shape', 'ids are appended per input piece only', 'ids are built as %s' % [repr(x)[:160] for x in ts])
    for s_ in (ts[0].inner if shape else ()):
        arm, grp, other = arms(s_)
        kind = None
        if s_.kind == 'one' and arm == 'Special' and grp is None and not other and has(s_.elem, Call('Vocab::token_to_id', ('field', ('arg', 1, ANY), 'special_vocab'), item_of('Special'))):
            kind = 'special'
        elif s_.kind == 'each' and arm == 'Regular' and grp is None and not other and match(core(s_.src), item_of('Regular')):
            kind = 'bytes'
            ctx.require(core(s_.elem) == ('item', 1), b, 'byte-ids', 'each byte becomes the id with its value', 'a byte b becomes the id %r' % s_, where(s_))
        if kind is None:
            ctx.fail(b, 'unpaired-token-writer|' + s_.kind, 'ids also receive `%s` (line %d), which is not one of the paired writers' % (
                repr(s_)[:120], where(s_)['line'] if where(s_) else 0), where(s_))
            continue
        seen_t.setdefault(kind, []).append(s_)
    for k in ('special', 'bytes'):
        ctx.require(len(seen_t.get(k, [])) == 1, b, 'token-writer|' + k, 'exactly one `%s` id writer' % k, 'found %d' % len(seen_t.get(k, [])))
    sp_t, sp_g = seen_t.get('special', [None])[0], seen.get('special', [None])[0]
    if sp_t is not None and sp_g is not None and sp_t.term is not None and sp_g.term is not None:
        ctx.require(cfg.dominates(b, sp_t.term.bb, sp_g.term.bb) or cfg.dominates(b, sp_g.term.bb, sp_t.term.bb), b, 'special-paired',
                    'a special token adds one id and one group together', None)
    sub = ctx.body('unicode::CharString::get_char_byte_lengths') if [x for x in ctx.facts.bodies if norm_path(x.path) == 'unicode::CharString::get_char_byte_lengths'] else None
    # framing counts use the same accessors as add_prefix_and_suffix
    npre = ctx.bodies(r'BaseTokenize::num_prefix_tokens$')
    for nb, fld in ((ctx.bodies(r'::num_prefix_tokens$')[0], 'prefix_token_ids'), (ctx.bodies(r'::num_suffix_tokens$')[0], 'suffix_token_ids')):
        rv = ret_values(nb)
        ok = len(rv) == 1 and match(core(rv[0][0]), Call('len', Call(fld, ('arg', 1, ANY))))
        ctx.require(ok, nb, 'frame-count|' + fld, '%s() = %s().len()' % (nb.path.rsplit('::', 1)[-1], fld), '%s = %s' % (nb.path, [show_in(nb, v) for v, _ in rv]))


@rule('C17', 'R-C17-2', 'T13 PAIR (TokenGroup::len / get_weights)',
      'len: Empty(n) / Full(n) -> n, Nested -> sum of inner lens; weights: Empty -> 0 x n, Full -> 1 (sum) | 1/n (mean) x n, '
      'Nested -> inner weights x (1 (sum) | 1/#groups (mean))')
def r2(ctx):
    from analysis.alts import ret_table
    from analysis.reduce import reduce_of
    ln = ctx.body(T + 'TokenGroup::len')
    tbl = ret_table(ctx.facts, ln, lambda c: c[0] == 'arg' and c[1] == 1) or {}
    one_of = lambda k: tbl.get(k, [()])[0] if len(tbl.get(k, [])) == 1 else ()
    ok = match(core(one_of('Empty')), ('field', ('variant', ('arg', 1, ANY), 'Empty'), 0)) and match(core(one_of('Full')), ('field', ('variant', ('arg', 1, ANY), 'Full'), 0))
    rd = reduce_of(ctx.facts, ln, one_of('Nested')) if one_of('Nested') else None
    ok = ok and rd is not None and rd.op == 'add' and rd.init is not None and match(core(rd.init), Const(0)) and len(rd.segs) == 1 and rd.segs[0].kind == 'each' and \
        not rd.segs[0].conds and match(core(rd.segs[0].src), ('field', ('variant', ('arg', 1, ANY), 'Nested'), 0)) and match(core(rd.segs[0].elem), Call('TokenGroup::len', ITEM))
    ctx.require(ok, ln, 'len-table', 'TokenGroup::len per variant: Empty(n) / Full(n) -> n, Nested -> sum of the inner lens',
                'len table: %s (Nested: %r)' % ({k: [show_in(ln, x)[:60] for x in v] for k, v in tbl.items()}, rd))
    gw = ctx.body(T + 'TokenGroup::get_weights')
    one = Pred(lambda t: t[0] == 'const' and re.match(r'^(const )?1(\.0*)?f32$', t[1]) is not None)
    zero = Pred(lambda t: t[0] == 'const' and re.match(r'^(const )?0(\.0*)?f32$', t[1]) is not None)
    tbl = {}
    for v, blk in ret_values(gw):
        for tt, names in variant_facts_at(gw, blk):
            if len(names) == 1 and list(names)[0] in ('Empty', 'Full', 'Nested'):
                tbl[list(names)[0]] = (core(v), blk)
    ok = 'Empty' in tbl and match(tbl['Empty'][0], Call('from_elem', zero, ('field', ('variant', ('arg', 1, ANY), 'Empty'), 0)))
    ctx.require(ok, gw, 'weights|Empty', 'Empty(n): n zeros', None)
    # the weight / factor: 1 under Sum, 1/n under Mean -- however it is computed (named variable per arm, closure, helper)
    from analysis.alts import flatten as _flatten, expand as _expand

    def weight_table(w):
        out = {}
        for a_ in _flatten(_expand(ctx.facts, gw, nosite(w))):
            arm = None
            for tt, names in a_.variants:
                if set(names) in ({'Sum'}, {'Mean'}):
                    arm = list(names)[0]
            out[arm] = core(a_.value)
        return out
    full_len = ('field', ('variant', ('arg', 1, ANY), 'Full'), 0)
    nest_len = Call('Vec::len', ('field', ('variant', ('arg', 1, ANY), 'Nested'), 0))
    segs_by = {}
    for v, blk in ret_values(gw):
        for tt, names in variant_facts_at(gw, blk):
            if len(names) == 1 and list(names)[0] in ('Full', 'Nested'):
                segs_by[list(names)[0]] = seq_of(ctx.facts, gw, v)
    fs = segs_by.get('Full')
    okfull = fs is not None and len(fs) == 1 and fs[0].kind == 'repeat' and not fs[0].conds and match(core(fs[0].count), full_len)
    ctx.require(okfull, gw, 'weights|Full', 'Full(n): n copies of the weight', 'Full weights are built as %s' % [repr(x)[:120] for x in fs or ()])
    if okfull:
        wt = weight_table(fs[0].elem)
        okf = match(wt.get('Sum', ()), one) and match(wt.get('Mean', ()), ('bin', 'Div', one, full_len))
        ctx.require(okf, gw, 'weights|Full-weight', 'Full(n): weight 1 (sum) or 1/n (mean)', 'Full weights: %s' % {str(k): show_in(gw, v) for k, v in wt.items()})
    nsegs = segs_by.get('Nested')
    ok = False
    if nsegs is not None and len(nsegs) == 1 and nsegs[0].kind == 'nest' and not nsegs[0].conds and \
            match(core(nsegs[0].src), ('field', ('variant', ('arg', 1, ANY), 'Nested'), 0)) and len(nsegs[0].inner) == 1:
        inn = nsegs[0].inner[0]
        e_ = peel(inn.elem)
        ok = inn.kind == 'each' and not inn.conds and match(core(inn.src), Call('TokenGroup::get_weights', ITEM, ('arg', 2, ANY))) and e_[0] == 'bin' and e_[1] == 'Mul'
        if ok:
            fac = e_[3] if core(e_[2]) == ('item', 1) else (e_[2] if core(e_[3]) == ('item', 1) else None)
            ok = fac is not None
            if ok:
                wt = weight_table(fac)
                okn = match(wt.get('Sum', ()), one) and match(wt.get('Mean', ()), ('bin', 'Div', one, nest_len))
                ctx.require(okn, gw, 'weights|Nested-weight', 'Nested: factor 1 (sum) or 1/#groups (mean)', 'Nested factors: %s' % {str(k): show_in(gw, v) for k, v in wt.items()})
    ctx.require(ok, gw, 'weights|Nested', 'Nested: the weights of every inner group, in order, each scaled by the factor',
                'Nested weights are built as %s' % [repr(x)[:160] for x in nsegs or ()])


@rule('C17', 'R-C17-3', 'T1 ORDER (padding)',
      'pad_ids appends each item\'s values, then pad x (max_len - len), and records len; padding_mask likewise with true/false')
def r3(ctx):
    b = ctx.body('data::pad_ids')
    pm = ctx.body(T + 'padding_mask')
    R.clear()
    # the rows are laid out item after item: the matrix has shape (number of items, maximum length), in this order -- the transposed shape holds the
    # same number of elements, so from_shape_vec accepts it and every row is cut at the wrong place
    for body_, what_ in ((b, 'pad_ids'), (pm, 'padding_mask')):
        for t_ in body_.calls(r'from_shape_vec$'):
            sh = core(sym(body_, t_.args[0]))
            oks = sh[0] == 'agg' and sh[1] == 'tuple' and len(sh[3]) == 2 and match(core(init_value(body_, sh[3][0])), Call('len', ('arg', 1, ANY))) and \
                has(init_value(body_, sh[3][1]), Call('Iterator::max', ANY))
            ctx.require(oks, body_, 'shape|' + what_, '%s: the matrix has shape (items, max length)' % what_,
                        '%s: the matrix is given the shape %s: rows and columns are exchanged, the values of an item no longer sit in its row' % (what_, show_in(body_, sh)[:80]), t_.span)
    R['padded_ids'] = _one(b, r'^std::vec::Vec<T>$', 'padded id vector')
    R['lengths'] = _one(b, r'^std::vec::Vec<usize>$', 'length vector')
    mlv = [core(t_.args[0] and sym(b, t_.dest)) for t_ in b.calls(r'Option::unwrap_or_default$|Option::unwrap_or$') if has(core(sym(b, t_.args[0])), Call('Iterator::max', ANY))]
    ML = T_(mlv[0]) if mlv else Pred(lambda t: False)
    from analysis import poly
    from analysis.seq import seq_of_var

    def padded_rows(body, local, per_item_value, pad_pred, len_of_item, what):
        """rows: for every item, its values then pad x (max - len(item))"""
        segs = seq_of_var(ctx.facts, body, local)
        if segs is not None and len(segs) == 1 and segs[0].kind == 'repeat' and list(body.calls(r'slice::(copy_from_slice|clone_from_slice|fill)$|IndexMut>::index_mut$')):
            # a buffer pre-filled with the padding value whose rows are then overwritten in place: another construction of the same matrix,
            # outside the append-only normal form this rule reads
            raise AnchorMissing('%s: rows appended item by item (the buffer is pre-filled and overwritten in place)' % what.split('|')[0])
        top = segs[0] if segs is not None and len(segs) == 1 and segs[0].kind == 'nest' and not segs[0].conds and match(core(segs[0].src), ('arg', 1, ANY)) else None
        ok = top is not None and len(top.inner) == 2 and not any(x.conds for x in top.inner)
        if ok:
            vals, pad = top.inner
            ok = per_item_value(vals) and pad.kind == 'repeat' and pad_pred(core(pad.elem))
            if ok:
                # count = max - len(item) where max is a maximum over the batch
                mx = [y for y in walk(pad.count) if isinstance(y, tuple) and y and y[0] == 'call' and y[1].endswith('Iterator::max')]
                ok = bool(mx)
                if ok:
                    whole = [y for y in walk(pad.count) if isinstance(y, tuple) and y and y[0] in ('call', 'unwrap') and any(z is mx[0] for z in walk(y)) and
                             (y[0] == 'unwrap' or re.search(r'unwrap_or(_default)?$|copied$|cloned$', y[1]))]
                    mtree = max(whole, key=lambda y: len(repr(y))) if whole else mx[0]
                    ls = [y for y in walk(pad.count) if isinstance(y, tuple) and y and y[0] == 'call' and y[1].endswith('len') and y[2] and core(y[2][0]) == ITEM]
                    ok = bool(ls) and poly.poly(pad.count) == poly._add(poly.poly(mtree), poly.poly(ls[0]), -1) and has(mtree, ('arg', 1, ANY))
        ctx.require(ok, body, what, '%s: per item its values, then the padding value x (max_len - len)' % what.split('|')[0],
                    '%s is built as %s' % (what.split('|')[0], [repr(x)[:200] for x in segs or ()]))
        return top
    pending = None       # an unrecognised construction of the padded buffer must not hide what the other clauses find
    try:
        top = padded_rows(b, R['padded_ids'], lambda v: v.kind == 'each' and core(v.src) == ITEM and core(v.elem) == ('item', 1),
                          lambda e: match(e, ('arg', 2, ANY)), lambda v: ('call', 'len', (v.src,)), 'pad-order')
    except AnchorMissing as e_:
        pending = e_
    lsegs = seq_of_var(ctx.facts, b, R['lengths'])
    ok = lsegs is not None and len(lsegs) == 1 and lsegs[0].kind == 'each' and not lsegs[0].conds and \
        ((match(core(lsegs[0].src), ('arg', 1, ANY)) and match(core(lsegs[0].elem), Call('len', ITEM))) or
         (match(core(lsegs[0].src), Call('Iterator::enumerate', ('arg', 1, ANY))) and match(core(lsegs[0].elem), Call('len', ('field', ITEM, 1)))))
    ctx.require(ok, b, 'pad-lengths', 'pad_ids records the true length of every item', 'lengths are built as %s' % [repr(x)[:120] for x in lsegs or ()])
    pm = ctx.body(T + 'padding_mask')
    mloc = _one(pm, r'^std::vec::Vec<bool>$', 'mask vector')
    msegs = seq_of_var(ctx.facts, pm, mloc)
    if msegs is not None and len(msegs) == 1 and msegs[0].kind == 'repeat' and list(pm.calls(r'slice::(copy_from_slice|clone_from_slice|fill)$|IndexMut>::index_mut$')):
        raise (pending or AnchorMissing('padding_mask: rows appended item by item (the mask is pre-filled and overwritten in place)'))
    topm = msegs[0] if msegs is not None and len(msegs) == 1 and msegs[0].kind == 'nest' and not msegs[0].conds and match(core(msegs[0].src), ('arg', 1, ANY)) else None
    ok = topm is not None and len(topm.inner) == 2 and all(x.kind == 'repeat' and not x.conds for x in topm.inner)
    if ok:
        t_, f_ = topm.inner
        ok = match(core(t_.elem), Const(1)) and match(core(f_.elem), Const(0)) and poly.poly(t_.count) == poly.poly(ITEM)
        mx = [y for y in walk(f_.count) if isinstance(y, tuple) and y and y[0] == 'call' and y[1].endswith('Iterator::max')]
        if ok and mx:
            whole = [y for y in walk(f_.count) if isinstance(y, tuple) and y and y[0] in ('call', 'unwrap') and any(z is mx[0] for z in walk(y)) and
                     (y[0] == 'unwrap' or re.search(r'unwrap_or(_default)?$|copied$|cloned$', y[1]))]
            mtree = max(whole, key=lambda y: len(repr(y))) if whole else mx[0]
            ok = poly.poly(f_.count) == poly._add(poly.poly(mtree), poly.poly(ITEM), -1) and has(mtree, ('arg', 1, ANY))
        else:
            ok = False
    ctx.require(ok, pm, 'mask-order', 'padding_mask: len x true, then (max - len) x false', 'the mask is built as %s' % [repr(x)[:200] for x in msegs or ()])
    if pending is not None:
        raise pending


@rule('C17', 'R-C17-4', 'T13 PAIR (sparse aggregation matrix)',
      'size = [batch, max #groups over the batch, max #tokens over the batch] (independent maxima); the three index planes are '
      'written at offsets 0, stride, 2*stride over the same [offset, offset+group_len) window; offset advances by group_len '
      'once per group')
def r4(ctx):
    b = ctx.body(T + 'token_groups_to_sparse_coo_matrix')
    R.clear()
    R['indices'] = _one(b, r'^std::vec::Vec<i32>$', 'index planes')
    R['values'] = _one(b, r'^std::vec::Vec<f32>$', 'weights')
    cands = [l for l in state_locals(b, r'^usize$') if any(core(v)[0] == 'bin' and core(v)[1] == 'Add' and core(v)[2] == ('var', b.var_name(l), l) for _, v in local_defs(b, l))]
    if len(cands) != 1:
        raise AnchorMissing('running token offset of the sparse matrix (found %d)' % len(cands))
    R['offset'] = cands[0]
    # the size literal vec![batch, max groups, max tokens] and the collected group counts
    z0 = symbolizer(b)
    size_lit = [simplify(z0.rvalue(s_.rv, 0, ())) for s_ in b.stmts() if s_.kind == 'assign' and s_.rv.kind == 'agg' and s_.rv.agg == 'array' and len(s_.rv.ops) == 3 and s_.span['mac'] == 'vec']
    if len(size_lit) != 1:
        raise AnchorMissing('size literal vec![batch, groups, tokens]')
    mg = [core(size_lit[0][3][1])]
    ml = [core(size_lit[0][3][2])]
    glc = [t_ for t_ in b.calls(r'Iterator::collect$') if b.local_ty(t_.dest.local) == 'std::vec::Vec<usize>']
    gl = [core(sym(b, glc[0].dest))] if glc else []
    GL = T_(gl[0]) if gl else Pred(lambda t: False)
    strd = [core(sym(b, t_.dest)) for t_ in b.calls(r'Iterator::sum$') if has(core(sym(b, t_.args[0])), ('arg', 2, ANY))]
    glen = [core(sym(b, t_.dest)) for t_ in b.calls(r'TokenGroup::len$')]

    def is_max_of(t, src_pred):
        return match(t, Call('Iterator::max', src_pred)) or match(t, Call('unwrap_or', Call('Iterator::max', src_pred), ANY))
    okg = len(mg) == 1 and is_max_of(mg[0], GL)
    okl = len(ml) == 1 and is_max_of(ml[0], ('arg', 2, ANY))
    ctx.require(okg, b, 'max-groups', 'max_group_length = max over the group counts of ALL items', 'max_group_length = %s (the group count of one '
                'particular item is not the maximum: indices of another item fall outside the declared size)' % [show_in(b, x) for x in mg])
    ctx.require(okl, b, 'max-tokens', 'max_length = max over the token counts of all items', 'max_length = %s' % [show_in(b, x) for x in ml])
    ok = len(gl) == 1 and match(gl[0], Call('Iterator::collect', Call('Iterator::map', ('arg', 1, ANY), ANY)))
    if ok:
        clo = closure_of(ctx, gl[0][2][0][2][1])
        crv = ret_values(clo)
        ok = len(crv) == 1 and match(core(crv[0][0]), Call('Vec::len', ('field', ('arg', 2, ANY), 0)))
    ctx.require(ok, b, 'group-lengths', 'group_lengths[i] = number of groups of item i', None)
    # vec![a, b, c] is written through a box: check the array literal
    arrs = []
    z = symbolizer(b)
    for s in b.stmts():
        if s.kind == 'assign' and s.rv.kind == 'agg' and s.rv.agg == 'array' and len(s.rv.ops) == 3 and s.span['mac'] == 'vec':
            arrs.append(simplify(z.rvalue(s.rv, 0, ())))
    ok = any(match(core(a[3][0]), Call('len', ('arg', 1, ANY))) for a in arrs)
    ctx.require(ok, b, 'size', 'size = [groupings.len(), max_group_length, max_length]', 'size literal: %s' % [show_in(b, a) for a in arrs])
    # index planes
    planes = {}
    stride = T_(strd[0]) if strd else Pred(lambda t: False)
    off = _var('offset')
    gl_ = T_(glen[0]) if glen else Pred(lambda t: False)
    from analysis import poly as _poly
    p_off = _poly.poly(('var', b.var_name(R['offset']) or '', R['offset']))
    p_str = _poly.poly(strd[0]) if strd else None
    p_gl = _poly.poly(glen[0]) if glen else None
    for t in b.calls(r'IndexMut>::index_mut$'):
        rg = core(sym(b, t.args[1]))
        if not (rg[0] == 'agg' and rg[2].endswith('Range::Range')) or p_str is None or p_gl is None:
            continue
        base = core(sym(b, t.args[0]))
        lo, hi = _poly.poly(rg[3][0]), _poly.poly(rg[3][1])
        which = None
        if match(base, _var('indices')):
            for k in (0, 1, 2):
                want_lo = _poly._add(p_off, _poly._mul({(): k}, p_str) if k else {}, 1)
                if lo == want_lo and hi == _poly._add(want_lo, p_gl, 1):
                    which = k
        elif match(base, _var('values')):
            if lo == p_off and hi == _poly._add(p_off, p_gl, 1):
                which = 'values'
        planes[which] = t
    if not planes:
        raise AnchorMissing('range writes into the index planes / values of the sparse matrix')
    if not ({0, 1, 2} & set(planes)) and list(b.calls(r'slice::split_at_mut$|split_at_mut$|chunks_mut$|chunks_exact_mut$')):
        # the three planes as separate sub-slices of the buffer (split_at_mut): another representation of the same layout, not judged here
        raise AnchorMissing('the index planes as ranges [k*stride + offset ..) of one buffer (the buffer is split into plane slices)')
    ctx.require({0, 1, 2, 'values'} <= set(planes), b, 'planes', 'batch / group / token index planes and the values are written over [offset, offset + group_len) at 0, stride, 2*stride',
                'planes written: %s' % sorted(str(k) for k in planes))
    def plane_value(t):
        """the value written to every element of the range slice produced by index_mut call t"""
        sl = nosite(sym(b, t.dest))
        for u in b.terms('call'):
            if u is t or not u.args:
                continue
            if not any(isinstance(x, tuple) and nosite(x) == sl for x in walk(sym(b, u.args[0]))):
                continue
            n_ = (u.callee_res() or '').rsplit('::', 1)[-1]
            if n_ == 'fill' and len(u.args) == 2:
                return core(sym(b, u.args[1]))
            if n_ == 'for_each' and len(u.args) == 2:
                clo = closure_of(ctx, sym(b, u.args[1]))
                st = [core(simplify(symbolizer(clo).rvalue(s_.rv, 0, ()))) for s_ in clo.stmts() if s_.kind == 'assign' and s_.lhs.proj]
                if len(st) == 1:
                    from rules.common import resolve_upvars
                    return core(resolve_upvars(ctx, clo, st[0]))
        return None
    for k, want in ((0, 'batch_index'), (1, 'group_idx')):
        if k in planes:
            v_ = plane_value(planes[k])
            if v_ is None:
                continue
            ok = v_[0] != 'const' and any(isinstance(x, tuple) and x and x[0] == 'field' and x[2] == 0 for x in walk(v_))
            ctx.require(ok, b, 'plane-value|%d' % k, 'plane %d holds the %s (the enumeration index of the %s loop)' % (k, want, 'batch' if k == 0 else 'group'),
                        'plane %d is filled with %s' % (k, show_in(b, v_)))
    # plane 2: the position of the token INSIDE ITS ITEM: a counter that restarts at 0 for every item of the batch and advances by group_len
    # per group (the running offset of the whole batch only coincides with it for the first item)
    if 2 in planes:
        sl = nosite(sym(b, planes[2].dest))
        zips = [u for u in b.calls(r'Iterator::zip$') if any(isinstance(x, tuple) and nosite(x) == sl for x in walk(sym(b, u.args[0])))]
        if len(zips) == 1:
            rg = core(sym(b, zips[0].args[1]))
            okz = rg[0] == 'agg' and rg[2].endswith('Range::Range')
            lo = core(rg[3][0]) if okz else None
            inner_lp = cfg.innermost_loop(b, zips[0].bb)
            outer_lp = None
            for l_ in cfg.loops(b):
                if inner_lp is not None and inner_lp.blocks < l_.blocks and (outer_lp is None or len(l_.blocks) < len(outer_lp.blocks)):
                    outer_lp = l_
            okc = False
            why = 'the token positions are %s' % (show_in(b, rg)[:80])
            if okz and lo[0] == 'var' and len(lo) > 2 and inner_lp is not None and outer_lp is not None:
                defs = local_defs(b, lo[2])
                resets = [s_ for s_, v_ in defs if match(core(v_), Const(0))]
                steps = [s_ for s_, v_ in defs if core(v_)[0] == 'bin' and core(v_)[1] == 'Add' and nosite(core(core(v_)[2])) == nosite(lo)]
                okc = lo[2] != R['offset'] and len(resets) == 1 and resets[0].bb in outer_lp.blocks and resets[0].bb not in inner_lp.blocks and \
                    len(steps) == 1 and steps[0].bb in inner_lp.blocks
                if okc and p_gl is not None:
                    okc = _poly.poly(rg[3][1]) == _poly._add(_poly.poly(rg[3][0]), p_gl, 1)
                why = 'the token positions start at `%s`, which %s' % (show_in(b, lo), 'is the running offset of the whole batch' if lo[2] == R['offset'] else
                                                                        'is not reset to 0 for every item and advanced by group_len per group')
            ctx.require(okc, b, 'plane-value|2', 'plane 2 holds the token position inside its item (a per-item counter: 0 at the start of every item, + group_len per group)',
                        why + ': from the second item of a batch on the positions lie outside the declared size', zips[0].span)
    offs = [(site, core(v)) for site, v in local_defs(b, R['offset'])]
    inc = [x for x in offs if not (x[1][0] == 'const')]
    ok = len(inc) == 1 and p_gl is not None and _poly.poly(inc[0][1]) == _poly._add(p_off, p_gl, 1)
    if ok:
        lp = cfg.innermost_loop(b, inc[0][0].bb)
        ok = lp is not None and all(cfg.must_pass(b, lp.header, l, via_blocks=[inc[0][0].bb], from_succ=True) for l in lp.latches)
    ctx.require(ok, b, 'offset-step', 'offset += group_len once per group', None)
    ctx.require(len(glen) == 1, b, 'group-len', 'group_len = group.len()', None)
    ctx.require(len(strd) == 1, b, 'stride', 'stride = total number of tokens', None)
    # the three planes are the ROWS of the index matrix: shape (3, stride)
    for t_ in b.calls(r'from_shape_vec$'):
        sh = core(sym(b, t_.args[0]))
        oks = sh[0] == 'agg' and sh[1] == 'tuple' and len(sh[3]) == 2 and match(core(sh[3][0]), Const(3)) and strd and nosite(core(init_value(b, sh[3][1]))) == nosite(strd[0])
        ctx.require(bool(oks), b, 'index-shape', 'the index matrix has shape (3, stride): one row per plane',
                    'the index matrix is given the shape %s: the planes written at 0, stride, 2*stride are not its rows' % show_in(b, sh)[:60], t_.span)


@rule('C17', 'R-C17-5', 'prerequisite (C01 framing agrees with the group counts)',
      'the ids are framed by add_prefix_and_suffix with exactly prefix_token_ids / suffix_token_ids, unconditionally: the groups of '
      'R-C17-1 are seeded with one Full(1) per prefix / suffix token, so a prefix that is dropped or added conditionally breaks the '
      'partition (re-evaluates R-C01-1)')
def r5(ctx):
    from rules import c01
    c01.r1(ctx)


@rule('C17', 'R-C17-6', 'T11 SIBLING (one segmentation)',
      'every CharString::new of the token groups code receives the caller\'s grapheme flag unchanged (a parameter, configuration field or '
      'captured variable): a site that "optimises" the flag (e.g. `use_graphemes && !s.is_ascii()`) segments "\\r\\n" and friends '
      'differently from the sites it must agree with')
def r_segflag(ctx):
    from rules.common import check_segmentation_flag
    n = check_segmentation_flag(ctx, [body_for(ctx, T + 'BaseTokenizer::process_input', BYTE)], 'token groups')
    if n == 0:
        raise AnchorMissing('CharString::new sites of the token groups code')


@rule('C17', 'R-C17-7', 'prerequisite (the segmentation primitive)',
      'CharString::new segments by graphemes(true) / chars() selected by the flag alone and keeps byte lengths at full width '
      '(R-C11-6 re-evaluated): every index, length and range of this property is counted in its characters')
def r_charstring(ctx):
    from rules import c11
    c11.charstring_primitive(ctx)


@rule('C17', 'R-C17-8', 'T3 (one row per item)',
      'Batch<TrainItem>::tensorize keeps every item of the batch: the per-item extraction returns Some(..) for every item whose '
      'input has the variant of the branch, under no other condition (an item dropped for being empty shifts all later rows and '
      'its true length is not reported)')
def r8(ctx):
    from analysis.alts import ret_alts_paths, consistent
    cands = [b for b in ctx.facts.bodies if b.path.endswith('::tensorize') and b.kind != 'Closure' and b.impl_self and 'TrainItem' in b.impl_self and b.file() == 'src/data/mod.rs']
    if len(cands) != 1:
        raise AnchorMissing('Tensorize for Batch<TrainItem> (found %d)' % len(cands))
    t = cands[0]
    n = 0
    for c in closures_in(ctx, t, recursive=False):
        al = ret_alts_paths(ctx.facts, c)
        if al is None:
            continue
        vals = [peel(a.value) for a in al]
        if not any(v[0] == 'agg' and 'Option::' in v[2] for v in vals) and not any(v[0] == 'call' and v[1].rsplit('::', 1)[-1] in ('then_some', 'then', 'filter') for v in vals):
            continue
        n += 1
        for a in al:
            if not consistent(a):
                continue
            v = peel(a.value)
            if v[0] == 'call' and v[1].rsplit('::', 1)[-1] in ('then_some', 'then', 'filter'):
                ctx.fail(c, 'conditional-keep', 'an item of the batch is kept only if `%s` holds (line %d): a dropped item shifts the rows of all later items and the lengths '
                         'no longer have one entry per item' % (show_in(c, v[2][0])[:60], c.span['line']), c.span)
            elif v[0] == 'agg' and v[2].endswith('Option::Some'):
                extra = [tt for tt, pol in a.atoms]
                ctx.require(not extra, c, 'keep-every-item', 'Some(..) is returned for every item of the branch variant (line %d)' % c.span['line'],
                            'an item is kept only under %s (line %d)' % ([show_in(c, x)[:50] for x in extra], c.span['line']), c.span)
    if n == 0:
        raise AnchorMissing('the per-item extraction closures of tensorize')


@rule('C17', 'R-C17-9', 'T10 PROVENANCE (each item is weighted by its own aggregation)',
      'in token_groups_to_sparse_coo_matrix the aggregation that selects mean weights, and the one handed to TokenGroup::get_weights, is '
      'component 1 of the grouping of the batch item being written (read inside the loop over `groupings`), not a value fixed once for the '
      'batch: every Grouping carries its own GroupAggregation, and a mixed batch otherwise gets sum weights on mean items (or the reverse)')
def r9(ctx):
    from rules.common import variant_guards
    from analysis.sym import loop_source
    b = ctx.body(T + 'token_groups_to_sparse_coo_matrix')
    gw = [t for t in b.calls(r'TokenGroup::get_weights$')]
    if not gw:
        raise AnchorMissing('TokenGroup::get_weights call in token_groups_to_sparse_coo_matrix')
    outer = [t for t in b.calls(r'::next$') if has(core(loop_source(b, t)), ('arg', 1, ANY)) and not has(core(loop_source(b, t)), Call('::next', ANY))]
    if len(outer) != 1:
        raise AnchorMissing('the loop over `groupings` (found %d)' % len(outer))
    item = nosite(sym(b, outer[0].dest))
    from_item = lambda tree: any(isinstance(x, tuple) and x and nosite(x) == item for x in walk(nosite(tree)))
    for t in gw:
        a = sym(b, t.args[1])
        ca = core(a)
        lit = ca[2].rsplit('::', 1)[-1] if ca[0] == 'agg' and ca[1] == 'adt' and not ca[3] else None
        # a literal variant is fine when the branch it sits in was selected by the item's aggregation being that variant
        lit_ok = lit is not None and any(from_item(x) and cfg.edge_dominates(b, (g.block, g.target), t.bb) for g, x in variant_guards(b, lit))
        ctx.require(from_item(a) or lit_ok, b, 'weights-own-aggregation', 'get_weights (line %d) receives the aggregation of the current batch item' % t.span['line'],
                    'get_weights at line %d receives `%s`, which is not read from the grouping of the batch item being written: in a batch that mixes mean and sum '
                    'groupings the weights of some items follow another item\'s setting' % (t.span['line'], show_in(b, a)[:80]), t.span)
        gs = [x for g, x in variant_guards(b, 'Mean') if cfg.edge_dominates(b, (g.block, g.target), t.bb)]
        ctx.require(any(from_item(x) for x in gs), b, 'mean-test-own-aggregation', 'the mean branch (line %d) is selected by the aggregation of the current batch item' % t.span['line'],
                    'the mean-weights branch at line %d is selected by `%s`, not by the aggregation of the batch item being written' % (
                        t.span['line'], [show_in(b, x)[:60] for x in gs] or [show_in(b, tt)[:60] for tt, pol, g in atoms_at(b, t.bb)][-1:]), t.span)


@rule('C17', 'R-C17-10', 'T14 EFFECT (padded matrices are handed on as built)',
      'in Batch<TrainItem>::tensorize nothing writes into a matrix returned by pad_ids: each row is the item\'s values followed by padding '
      'only. A pass that rewrites entries by VALUE (labels equal to the pad id -> -1) also hits genuine labels, because generation labels are '
      'token ids and the pad token can occur in the text')
def r10(ctx):
    cands = [b for b in ctx.facts.bodies if b.path.endswith('::tensorize') and b.kind != 'Closure' and b.impl_self and 'TrainItem' in b.impl_self and b.file() == 'src/data/mod.rs']
    if len(cands) != 1:
        raise AnchorMissing('Batch<TrainItem>::tensorize (found %d)' % len(cands))
    b = cands[0]
    pads = [t for t in b.calls(r'data::pad_ids$')]
    if len(pads) < 2:
        raise AnchorMissing('pad_ids calls in tensorize (found %d)' % len(pads))
    n = 0
    for t in b.terms('call'):
        if not t.args or t.args[0].place is None or not b.local_ty(t.args[0].place.local).startswith('&mut'):
            continue
        r = init_value(b, sym(b, t.args[0]))
        if has(r, Call('data::pad_ids', ANY, ANY)) or has(sym(b, t.args[0]), Call('data::pad_ids', ANY, ANY)):
            n += 1
            ctx.fail(b, 'padded-rewritten|' + (t.callee_res() or '').rsplit('::', 1)[-1], 'tensorize modifies a matrix returned by pad_ids with `%s` (line %d): entries inside an '
                     'item\'s own part of the row can change, so the matrix no longer holds each item\'s values followed by padding' % ((t.callee_res() or '').rsplit('::', 1)[-1], t.span['line']), t.span)
    ctx.ok(b, '%d pad_ids results of tensorize are handed on unmodified' % len(pads))


@rule('C17', 'R-C17-11', 'prerequisite (the special-token split)',
      'the pieces ByteTokenizer::process_input builds ids and groups for come from BaseTokenizer::split_input, which tiles the text '
      '(R-C01-3 re-evaluated): a lost or duplicated piece changes ids and groups together, so the pairing rules of this property do not see it')
def r11(ctx):
    from rules import c01
    c01.r3(ctx)


@rule('C17', 'R-C17-12', 'T13 PAIR (each matrix is padded with its own pad value)',
      'in Batch<TrainItem>::tensorize every pad_ids call pads the matrix of field F with the pad value that belongs to F: token_ids with the '
      'item\'s pad_token_id, target_token_ids with target_pad_token_id, labels with -1. Padding the target ids with the input tokenizer\'s pad id '
      'fills the rows with an ordinary token of the target vocabulary')
def r12(ctx):
    from analysis.alts import flatten, expand
    from analysis.seq import apply_fn, ITEM
    cands = [b for b in ctx.facts.bodies if b.path.endswith('::tensorize') and b.kind != 'Closure' and b.impl_self and 'TrainItem' in b.impl_self and b.file() == 'src/data/mod.rs']
    if len(cands) != 1:
        raise AnchorMissing('Batch<TrainItem>::tensorize (found %d)' % len(cands))
    b = cands[0]
    WANT = {'token_ids': 'pad_token_id', 'target_token_ids': 'target_pad_token_id', 'labels': -1}
    n = 0
    for t in b.calls(r'data::pad_ids$'):
        m = core(init_value(b, sym(b, t.args[0])))
        fields = set()
        # the matrix: component k of unzip / multiunzip over filter_map / map with a closure that returns (Some of) a tuple
        k = None
        src = m
        if m[0] == 'field' and isinstance(m[2], int):
            k, src = m[2], core(m[1])
        clo = [x for x in walk(src) if isinstance(x, tuple) and x and x[0] == 'agg' and x[1] == 'closure']
        if clo:
            val = apply_fn(ctx.facts, clo[0], (ITEM,))
            for a in flatten(expand(ctx.facts, b, nosite(val))) if not (isinstance(val, tuple) and val and val[0] == 'choice') else flatten(val):
                v = peel(a.value)
                if v[0] == 'agg' and v[2].endswith('Option::None'):
                    continue
                if v[0] == 'agg' and v[2].endswith('Option::Some') and v[3]:
                    v = peel(v[3][0])
                comp = v[3][k] if k is not None and v[0] == 'agg' and v[1] == 'tuple' and k < len(v[3]) else v
                for x in walk(comp):
                    if isinstance(x, tuple) and x and x[0] == 'field' and x[2] in WANT:
                        fields.add(x[2])
        if len(fields) != 1:
            continue
        fld = list(fields)[0]
        n += 1
        p = core(sym(b, t.args[1]))
        got = p[2] if p[0] == 'const' and len(p) > 2 else (p[2] if p[0] == 'field' else None)
        ctx.require(got == WANT[fld], b, 'pad-value|' + fld, 'the %s matrix (line %d) is padded with %s' % (fld, t.span['line'], WANT[fld]),
                    'the %s matrix at line %d is padded with `%s` instead of %s' % (fld, t.span['line'], show_in(b, sym(b, t.args[1]))[-60:], WANT[fld]), t.span)
    if n < 6:
        raise AnchorMissing('pad_ids calls of tensorize whose matrix could be traced to a field (found %d)' % n)


@rule('C17', 'R-C17-13', 'T14 RECURRENCE (prefix sums the offset assertion is checked against)',
      'utils::accumulate_with returns the running totals t_0 = v_0, t_i = f(t_{i-1}, v_i) -- one per value, the total updated BEFORE it is recorded -- '
      'and [] for no values; utils::accumulate folds with +: token_groups_to_sparse_coo_matrix asserts its running offset against '
      'accumulate(lengths)[batch_index], so shifted or stale totals turn a correct batch into a panic')
def r13(ctx):
    a = ctx.body('utils::accumulate_with')
    lps = cfg.loops(a)
    if len(lps) != 1:
        raise AnchorMissing('accumulate_with: one loop (found %d)' % len(lps))
    lp = lps[0]
    calls = [t for t in a.calls(r'ops::Fn.*::call$|FnMut.*::call_mut$') if t.bb in lp.blocks]
    pushes = [t for t in a.calls(r'Vec::push$') if t.bb in lp.blocks]
    if len(calls) != 1 or len(pushes) != 1:
        raise AnchorMissing('accumulate_with: one acc_fn call and one push per value (found %d / %d)' % (len(calls), len(pushes)))
    tot = state_locals(a, r'^T$')
    named = [l for l in tot if a.var_name(l)]
    if len(named) != 1:
        raise AnchorMissing('accumulate_with: one running total of type T (found %d)' % len(named))
    tv = named[0]
    isT = Pred(lambda u: u[0] == 'var' and len(u) > 2 and u[2] == tv)
    # sequence of the result
    rvs = [(v, blk) for v, blk in ret_values(a)]
    full = [(v, blk) for v, blk in rvs if not match(core(v), Call('Vec::new'))]
    empty = [(v, blk) for v, blk in rvs if match(core(v), Call('Vec::new'))]
    ok = len(full) == 1
    segs = seq_of(ctx.facts, a, full[0][0]) if ok else None
    from rules.common import range_bounds, emptiness_at
    ok = segs is not None and len(segs) == 2 and segs[0].kind == 'one' and segs[1].kind == 'each' and not segs[0].conds and not segs[1].conds and \
        match(core(segs[0].elem), isT) and match(core(segs[1].elem), isT) and \
        match(core(segs[1].src), Call('index', ('arg', 1, ANY), ('agg', 'adt', Pred(lambda n: n.endswith('RangeFrom::RangeFrom')), (Const(1),))))
    ctx.require(ok, a, 'acc-sequence', 'accumulate_with records the first total, then one total per value of values[1..]',
                'accumulate_with builds %s' % [repr(x)[:120] for x in segs or ()])
    for v, blk in empty:
        ctx.require(emptiness_at(a, blk, lambda c: c[0] == 'arg' and c[1] == 1) is True, a, 'acc-empty', '[] is returned only for no values', None, a.blocks[blk].term.span)
    # the step: total := acc_fn(total, v) with v the value of this iteration, before the push
    c = calls[0]
    args = core(sym(a, c.args[1]))
    nx = [t for t in a.calls(r'::next$') if t.bb in lp.blocks]
    item = ('unwrap', nosite(sym(a, nx[0].dest))) if len(nx) == 1 else None
    ok = args[0] == 'agg' and len(args[3]) == 2 and match(core(args[3][0]), isT) and item is not None and nosite(core(args[3][1])) == nosite(core(item))
    ctx.require(ok, a, 'acc-step-args', 'the step is acc_fn(&total, &value of this iteration)', 'the step is acc_fn%s' % show_in(a, args)[:100], c.span)
    stores = [(s_, v_) for s_, v_ in local_defs(a, tv) if s_.bb in lp.blocks]
    ok = len(stores) == 1 and nosite(core(stores[0][1])) == nosite(core(sym(a, c.dest)))
    ctx.require(ok, a, 'acc-step-store', 'the result of the step becomes the running total', 'stores to the total inside the loop: %s' % [show_in(a, v_)[:60] for s_, v_ in stores])
    if ok:
        ctx.require(cfg.dominates(a, stores[0][0].bb, pushes[0].bb) and (stores[0][0].bb != pushes[0].bb), a, 'acc-update-before-record',
                    'the total is updated before it is recorded', 'the total is recorded (line %d) before it is updated (line %d): every entry lags one value behind' % (
                        pushes[0].span['line'], stores[0][0].span['line']), pushes[0].span)
    inits = [core(v_) for s_, v_ in local_defs(a, tv) if s_.bb not in lp.blocks]
    ok = len(inits) == 1 and match(inits[0], Call('Clone::clone', ('unwrap', Call('slice::first', ('arg', 1, ANY))))) or \
        (len(inits) == 1 and match(inits[0], ('unwrap', Call('slice::first', ('arg', 1, ANY))))) or \
        (len(inits) == 1 and match(inits[0], ('index', ('arg', 1, ANY), Const(0)))) or \
        (len(inits) == 1 and match(inits[0], Call('slice::first', ('arg', 1, ANY))))
    ctx.require(ok, a, 'acc-init', 'the running total starts as the first value', 'the running total starts as %s' % [show_in(a, x)[:60] for x in inits])
    ac = ctx.body('utils::accumulate')
    rv = ret_values(ac)
    ok = len(rv) == 1 and match(core(rv[0][0]), Call('accumulate_with', ('arg', 1, ANY), ANY))
    if ok:
        clo = closure_of(ctx, peel(rv[0][0])[2][1])
        crv = ret_values(clo)
        ok = len(crv) == 1 and (match(core(crv[0][0]), ('bin', 'Add', ('arg', 2, ANY), ('arg', 3, ANY))) or match(core(crv[0][0]), ('bin', 'Add', ('arg', 3, ANY), ('arg', 2, ANY))))
    ctx.require(ok, ac, 'acc-plus', 'accumulate = accumulate_with(values, |a, v| a + v)', 'accumulate is %s' % [show_in(ac, v)[:100] for v, _ in rv])
    tg = ctx.body('tokenization::token_groups_to_sparse_coo_matrix')
    use = [t for t in tg.calls(r'utils::accumulate$')]
    ctx.require(len(use) == 1 and match(core(sym(tg, use[0].args[0])), ('arg', 2, ANY)), tg, 'acc-of-lengths', 'the offsets are checked against accumulate(lengths)', None,
                use[0].span if use else None)


@rule('C17', 'R-C17-14', 'T11 SIBLING (the Python encoding of the grouping options: writer and reader agree)',
      'GroupAggregation ("mean" / "sum") and ByteGroups ("bytes" / "code_points") are read back from Python as the variant that was written: the '
      'aggregation the weights are computed for is the one the configuration names')
def r14(ctx):
    from rules.common import py_encoding_agrees
    py_encoding_agrees(ctx, 'tokenization::GroupAggregation', {'Mean', 'Sum'})
    py_encoding_agrees(ctx, 'tokenization::ByteGroups', {'Bytes', 'CodePoints'})


@rule('C17', 'R-C17-15', 'T13 PAIR (a padded matrix travels with its own lengths)',
      'every tensorised variant pairs a padded id matrix with the length vector OF THE SAME pad_ids call (component 0 and component 1 of one call): '
      'lengths taken from the labels\' padding report the number of labels, which differs from the number of ids as soon as a byte tokenizer meets '
      'a multi-byte character')
def r15(ctx):
    cands = [b for b in ctx.facts.bodies if b.path.endswith('::tensorize') and b.kind != 'Closure' and b.impl_self and 'TrainItem' in b.impl_self and b.file() == 'src/data/mod.rs']
    if len(cands) != 1:
        raise AnchorMissing('Batch<TrainItem>::tensorize (found %d)' % len(cands))
    b = cands[0]
    from analysis.alts import expand, flatten
    n = 0
    for s_ in b.stmts():
        if s_.kind != 'assign' or s_.rv.kind != 'agg':
            continue
        try:
            v = simplify(symbolizer(b).rvalue(s_.rv, 0, ()))
        except Exception:
            continue
        if not (v[0] == 'agg' and v[1] == 'adt' and 'TensorizedTrainTaskInput' in v[2]):
            continue
        comps = list(v[3])
        for i, c_ in enumerate(comps):
            ty_is_len = False
            cc = core(c_)
            # a length vector: component 1 of a pad_ids result (directly, or through the tuple a spliced helper returned)
            alts_ = [core(a_.value) for a_ in flatten(expand(ctx.facts, b, nosite(c_)))] or [cc]
            for ac in alts_:
                if ac[0] == 'field' and ac[2] == 1 and match(core(ac[1]), Call('pad_ids', ANY, ANY)):
                    n += 1
                    prev = [core(a_.value) for a_ in flatten(expand(ctx.facts, b, nosite(comps[i - 1])))] if i > 0 else []
                    same = any(p_[0] == 'field' and p_[2] == 0 and nosite(core(p_[1])) == nosite(core(ac[1])) for p_ in prev)
                    ctx.require(same, b, 'lengths-of-own-matrix|' + v[2].rsplit('::', 1)[-1] + '|%d' % i,
                                '%s: the lengths in position %d belong to the matrix in position %d (same pad_ids call)' % (v[2].rsplit('::', 1)[-1], i, i - 1),
                                '%s: the lengths in position %d come from `%s`, the matrix before them from `%s`: the reported lengths are not the true lengths of that matrix' % (
                                    v[2].rsplit('::', 1)[-1], i, show_in(b, ac[1])[:60], show_in(b, prev[0])[:60] if prev else '?'), s_.span)
    if n < 5:
        raise AnchorMissing('length vectors of pad_ids in the tensorised variants (found %d)' % n)
