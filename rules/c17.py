"""C17 Token groups partition the token sequence; tensorisation is faithful."""
import re
from analysis.engine import rule, AnchorMissing
from analysis import cfg
from analysis.facts import norm_path
from analysis.sym import sym, show_in, nosite, peel, core, walk, ret_values, args_of, guards_at, atoms_at, \
    variant_facts_at, cmp_facts_at, init_value, edge_guards, symbolizer, simplify, loop_source, defs_of, var_defs, agg_field
from analysis.pat import match, Call, Cap, ANY, Pred, Const, has, chain_names
from rules.common import closure_of, closures_in, body_for, BYTE, state_locals, local_defs, V, receiver_var

T = 'tokenization::'


R = {}


def _var(name):
    """role based (set by the _roles_* helpers from local types / structure, never from debug names)"""
    return Pred(lambda t: isinstance(t, tuple) and t and t[0] == 'var' and len(t) > 2 and R.get(name) == t[2])


def T_(tree):
    """pattern: structurally equal (modulo call sites) to the given core tree"""
    return Pred(lambda t: tree is not None and nosite(core(t)) == nosite(tree))


def _one(b, ty, what):
    c = state_locals(b, ty)
    if len(c) != 1:
        raise AnchorMissing('%s (mutable local of type %s): found %d' % (what, ty, len(c)))
    return c[0]


def _full(n):
    return ('agg', 'adt', Pred(lambda s: s.endswith('TokenGroup::Full')), (n,))


@rule('C17', 'R-C17-1', 'T10 WHO / T2 (groups built alongside ids)',
      'ByteTokenizer::process_input writes ids and groups only at the paired sites: prefix Full(1) x num_prefix_tokens, special '
      'token -> one id + Full(1), regular text -> its bytes as ids + one group per Character of CS::new(text, use_graphemes) '
      '(byte lengths, or nested code point lengths), suffix Full(1) x num_suffix_tokens')
def r1(ctx):
    b = body_for(ctx, T + 'BaseTokenizer::process_input', BYTE)
    R.clear()
    R['tokens'] = _one(b, r'^std::vec::Vec<u32>$', 'id vector')
    R['groups'] = _one(b, r'^std::vec::Vec<tokenization::TokenGroup>$', 'group vector')
    gw, tw = [], []
    for t in b.terms('call'):
        if not t.args or t.args[0].place is None:
            continue
        if not b.local_ty(t.args[0].place.local).startswith('&mut'):
            continue
        r = core(sym(b, t.args[0]))
        if match(r, _var('groups')):
            gw.append(t)
        elif match(r, _var('tokens')):
            tw.append(t)
    if not gw or not tw:
        raise AnchorMissing('writers of `groups` / `tokens` in ByteTokenizer::process_input')
    reg = [(tt, n_) for blk in b.reachable for tt, n_ in variant_facts_at(b, blk)]

    def arm_of(blk):
        for tt, names in variant_facts_at(b, blk):
            if names in ({'Regular'}, {'Special'}):
                return list(names)[0]
        return None

    def grp_of(blk):
        for tt, names in variant_facts_at(b, blk):
            if names in ({'Bytes'}, {'CodePoints'}) and has(tt, ('field', ANY, 'groups')):
                return list(names)[0]
        return None
    seen = {}
    for t in gw:
        name = (t.callee_res() or '').rsplit('::', 1)[-1]
        a = core(sym(b, t.args[1])) if len(t.args) > 1 else None
        arm, grp = arm_of(t.bb), grp_of(t.bb)
        kind = None
        if name == 'push' and arm == 'Special' and match(a, _full(Const(1))):
            kind = 'special'
        elif name == 'extend' and arm == 'Regular' and grp == 'Bytes' and \
                match(a, Call('Iterator::map', Call('CharString::get_char_byte_lengths', ANY), ('fn', Pred(lambda n: n.endswith('TokenGroup::Full'))))):
            kind = 'bytes'
        elif name == 'push' and arm == 'Regular' and grp == 'CodePoints' and a is not None and a[0] == 'agg' and a[2].endswith('TokenGroup::Nested'):
            kind = 'code-points'
        elif name == 'append' and arm is None and match(a, Call('from_elem', _full(Const(1)), Call('num_suffix_tokens', ('arg', 1, ANY)))):
            kind = 'suffix'
        if kind is None:
            ctx.fail(b, 'unpaired-group-writer|' + name, 'groups.%s(%s) at line %d is not one of the paired writers (a shortcut that emits groups '
                     'without segmenting the text into Characters breaks "one group per character")' % (name, show_in(b, a)[:80] if a else '', t.span['line']), t.span)
            continue
        seen.setdefault(kind, []).append(t)
    for k in ('special', 'bytes', 'code-points', 'suffix'):
        ctx.require(len(seen.get(k, [])) == 1, b, 'group-writer|' + k, 'exactly one `%s` group writer' % k, 'found %d `%s` group writers' % (len(seen.get(k, [])), k))
    gi = [core(v) for site, v in local_defs(b, R['groups'])]
    ctx.require(len(gi) == 1 and match(gi[0], Call('from_elem', _full(Const(1)), Call('num_prefix_tokens', ('arg', 1, ANY)))), b, 'prefix-groups',
                'groups starts as Full(1) x num_prefix_tokens()', 'groups starts as %s' % [show_in(b, x) for x in gi])
    # token writers
    seen_t = {}
    for t in tw:
        name = (t.callee_res() or '').rsplit('::', 1)[-1]
        a = core(sym(b, t.args[1])) if len(t.args) > 1 else None
        arm = arm_of(t.bb)
        kind = None
        if name == 'push' and arm == 'Special' and has(a, Call('Vocab::token_to_id', ANY, ANY)):
            kind = 'special'
        elif name == 'extend' and arm == 'Regular' and match(a, Call('Iterator::map', Call('as_bytes', ANY), ANY)) or \
                (name == 'extend' and arm == 'Regular' and a is not None and a[0] == 'call' and a[1].endswith('Iterator::map')):
            kind = 'bytes'
            clo = closure_of(ctx, sym(b, t.args[1])[2][1])
            crv = ret_values(clo)
            ctx.require(len(crv) == 1 and match(core(crv[0][0]), ('arg', 2, ANY)), clo, 'byte-ids', 'each byte becomes the id with its value', None)
        if kind is None:
            ctx.fail(b, 'unpaired-token-writer|' + name, 'tokens.%s(..) at line %d is not one of the paired writers' % (name, t.span['line']), t.span)
            continue
        seen_t.setdefault(kind, []).append(t)
    for k in ('special', 'bytes'):
        ctx.require(len(seen_t.get(k, [])) == 1, b, 'token-writer|' + k, 'exactly one `%s` id writer' % k, 'found %d' % len(seen_t.get(k, [])))
    # the regular arm: same text for bytes and for the segmentation; segmentation with the configured grapheme flag
    if seen_t.get('bytes') and seen.get('bytes'):
        tb = core(sym(b, seen_t['bytes'][0].args[1]))
        txt = tb[2][0] if tb[0] == 'call' else None   # str (identity-peeled as_bytes)
        cs = [t for t in b.calls(r'CharString::new$')]
        ok = len(cs) == 1 and txt is not None and nosite(core(sym(b, cs[0].args[0]))) == nosite(core(txt)) and \
            match(core(sym(b, cs[0].args[1])), ('field', ('field', ('arg', 1, ANY), 'config'), 'use_graphemes'))
        ctx.require(ok, b, 'same-text', 'ids and groups of a regular segment come from the same text, segmented with config.use_graphemes', None)
        # special: push id and push group on the same paths
        sp_t, sp_g = seen_t.get('special', [None])[0], seen.get('special', [None])[0]
        if sp_t and sp_g:
            ctx.require(cfg.dominates(b, sp_t.bb, sp_g.bb) or cfg.dominates(b, sp_g.bb, sp_t.bb), b, 'special-paired', 'a special token adds one id and one group together', None)
        # nested code point groups: one Nested per Character, inner = Full(len_utf8) per code point
        cp = seen.get('code-points')
        if cp:
            lp = cfg.innermost_loop(b, cp[0].bb)
            nx = [c for c in b.calls(r'::next$') if lp and c.bb in lp.blocks and c.bb != b.blocks[0].idx]
            inner = [c for c in nx if has(core(loop_source(b, c)), Call('CharString::chars', ANY))]
            ctx.require(len(inner) == 1, b, 'nested-per-char', 'one Nested group per Character of the segment', None)
            a = core(sym(b, cp[0].args[1]))
            v = core(init_value(b, a[3][0])) if a[0] == 'agg' else ()
            ok = match(v, Call('Iterator::collect', Call('Iterator::map', Call('code_points', ANY), ANY)))
            if ok:
                clo = closure_of(ctx, v[2][0][2][1])
                crv = ret_values(clo)
                ok = len(crv) == 1 and match(core(crv[0][0]), _full(Call('len_utf8', ('arg', 2, ANY))))
            ctx.require(ok, b, 'nested-inner', 'nested groups = Full(len_utf8) per code point', None)
    sub = ctx.body('unicode::CharString::get_char_byte_lengths') if [x for x in ctx.facts.bodies if norm_path(x.path) == 'unicode::CharString::get_char_byte_lengths'] else None
    # framing counts use the same accessors as add_prefix_and_suffix
    npre = ctx.bodies(r'BaseTokenize::num_prefix_tokens$')
    for nb, fld in ((ctx.bodies(r'::num_prefix_tokens$')[0], 'prefix_token_ids'), (ctx.bodies(r'::num_suffix_tokens$')[0], 'suffix_token_ids')):
        rv = ret_values(nb)
        ok = len(rv) == 1 and match(core(rv[0][0]), Call('len', Call(fld, ('arg', 1, ANY))))
        ctx.require(ok, nb, 'frame-count|' + fld, '%s() = %s().len()' % (nb.path.rsplit('::', 1)[-1], fld), '%s = %s' % (nb.path, [show_in(nb, v) for v, _ in rv]))


@rule('C17', 'R-C17-2', 'T13 PAIR (TokenGroup::len / get_weights)',
      'len: Empty(n) / Full(n) -> n, Nested -> sum of inner lens; weights: Empty -> 0 x n, Full -> 1 (sum) | 1/n (mean) x n, '
      'Nested -> inner weights x (1 (sum) | 1/#groups (mean))')
def r2(ctx):
    ln = ctx.body(T + 'TokenGroup::len')
    tbl = {}
    for v, blk in ret_values(ln):
        for tt, names in variant_facts_at(ln, blk):
            if len(names) == 1:
                tbl[list(names)[0]] = core(v)
    ok = match(tbl.get('Empty', ()), ('field', ('variant', ('arg', 1, ANY), 'Empty'), 0)) and match(tbl.get('Full', ()), ('field', ('variant', ('arg', 1, ANY), 'Full'), 0)) and \
        match(tbl.get('Nested', ()), Call('Iterator::sum', Call('Iterator::map', ('field', ('variant', ('arg', 1, ANY), 'Nested'), 0), ANY)))
    if ok:
        clo = closure_of(ctx, tbl['Nested'][2][0][2][1])
        crv = ret_values(clo)
        ok = len(crv) == 1 and match(core(crv[0][0]), Call('TokenGroup::len', ('arg', 2, ANY)))
    ctx.require(ok, ln, 'len-table', 'TokenGroup::len per variant', 'len table: %s' % {k: show_in(ln, v) for k, v in tbl.items()})
    gw = ctx.body(T + 'TokenGroup::get_weights')
    one = Pred(lambda t: t[0] == 'const' and re.match(r'^(const )?1(\.0*)?f32$', t[1]) is not None)
    zero = Pred(lambda t: t[0] == 'const' and re.match(r'^(const )?0(\.0*)?f32$', t[1]) is not None)
    tbl = {}
    for v, blk in ret_values(gw):
        for tt, names in variant_facts_at(gw, blk):
            if len(names) == 1 and list(names)[0] in ('Empty', 'Full', 'Nested'):
                tbl[list(names)[0]] = (core(v), blk)
    ok = 'Empty' in tbl and match(tbl['Empty'][0], Call('from_elem', zero, ('field', ('variant', ('arg', 1, ANY), 'Empty'), 0)))
    ctx.require(ok, gw, 'weights|Empty', 'Empty(n): n zeros', None)
    # weight variable: two definitions selected by agg
    wd = {}
    wlocals = [l for l in range(len(gw.locals)) if gw.local_ty(l) == 'f32' and gw.var_name(l)]
    for site, v in [x for l in wlocals for x in local_defs(gw, l)]:
        arm = None
        variant = None
        for tt, names in variant_facts_at(gw, site.bb):
            if names in ({'Sum'}, {'Mean'}):
                arm = list(names)[0]
            if names in ({'Full'}, {'Nested'}):
                variant = list(names)[0]
        wd[(variant, arm)] = core(v)
    full_len = ('field', ('variant', ('arg', 1, ANY), 'Full'), 0)
    okf = match(wd.get(('Full', 'Sum'), ()), one) and match(wd.get(('Full', 'Mean'), ()), ('bin', 'Div', one, full_len))
    okn = match(wd.get(('Nested', 'Sum'), ()), one) and match(wd.get(('Nested', 'Mean'), ()), ('bin', 'Div', one, Call('Vec::len', ('field', ('variant', ('arg', 1, ANY), 'Nested'), 0))))
    ctx.require(okf, gw, 'weights|Full-weight', 'Full(n): weight 1 (sum) or 1/n (mean)', 'Full weights: %s' % {str(k): show_in(gw, v) for k, v in wd.items() if k[0] == 'Full'})
    ctx.require(okn, gw, 'weights|Nested-weight', 'Nested: factor 1 (sum) or 1/#groups (mean)', 'Nested factors: %s' % {str(k): show_in(gw, v) for k, v in wd.items() if k[0] == 'Nested'})
    ok = 'Full' in tbl and match(tbl['Full'][0], Call('from_elem', Pred(lambda t: t[0] in ('var', 'phi')), full_len))
    ctx.require(ok, gw, 'weights|Full', 'Full(n): n copies of the weight', None)
    ok = 'Nested' in tbl and match(tbl['Nested'][0], Call('Iterator::collect', Call('Iterator::map', Call('Iterator::flat_map', ('field', ('variant', ('arg', 1, ANY), 'Nested'), 0), ANY), ANY)))
    if ok:
        t = tbl['Nested'][0]
        c1 = closure_of(ctx, t[2][0][2][0][2][1])
        c2 = closure_of(ctx, t[2][0][2][1])
        r1_, r2_ = ret_values(c1), ret_values(c2)
        ok = len(r1_) == 1 and match(core(r1_[0][0]), Call('TokenGroup::get_weights', ('arg', 2, ANY), ('upvar', ANY, ANY))) and \
            len(r2_) == 1 and match(core(r2_[0][0]), ('bin', 'Mul', ('arg', 2, ANY), ('upvar', ANY, ANY)))
    ctx.require(ok, gw, 'weights|Nested', 'Nested: inner.get_weights(agg) scaled by the factor', None)


@rule('C17', 'R-C17-3', 'T1 ORDER (padding)',
      'pad_ids appends each item\'s values, then pad x (max_len - len), and records len; padding_mask likewise with true/false')
def r3(ctx):
    b = ctx.body('data::pad_ids')
    R.clear()
    R['padded_ids'] = _one(b, r'^std::vec::Vec<T>$', 'padded id vector')
    R['lengths'] = _one(b, r'^std::vec::Vec<usize>$', 'length vector')
    mlv = [core(t_.args[0] and sym(b, t_.dest)) for t_ in b.calls(r'Option::unwrap_or_default$|Option::unwrap_or$') if has(core(sym(b, t_.args[0])), Call('Iterator::max', ANY))]
    ML = T_(mlv[0]) if mlv else Pred(lambda t: False)
    ext = [t for t in b.calls(r'Vec::extend$|Extend>::extend$') if match(core(sym(b, t.args[0])), _var('padded_ids'))]
    ok = len(ext) == 2
    lp = cfg.innermost_loop(b, ext[0].bb) if ext else None
    if ok:
        item = None
        a0, a1 = core(sym(b, ext[0].args[1])), core(sym(b, ext[1].args[1]))
        first, second = (ext[0], ext[1]) if cfg.dominates(b, ext[0].bb, ext[1].bb) else (ext[1], ext[0])
        f, s = core(sym(b, first.args[1])), core(sym(b, second.args[1]))
        ok = not has(f, Call('iter::repeat', ANY)) and match(s, Call('Iterator::take', Call('iter::repeat', ('arg', 2, ANY)), ('bin', 'Sub', ML, Call('len', ANY))))
    ctx.require(ok, b, 'pad-order', 'pad_ids: values first, then repeat(pad).take(max_len - len)', 'pad_ids appends %s' % [show_in(b, sym(b, t.args[1])) for t in ext])
    ml = mlv
    ok = len(ml) == 1 and has(ml[0], Call('Iterator::max', ANY)) and has(ml[0], ('arg', 1, ANY))
    ctx.require(ok, b, 'pad-max', 'max_len = max over the item lengths of the batch', None)
    ps = [t for t in b.calls(r'Vec::push$') if match(core(sym(b, t.args[0])), _var('lengths'))]
    ok = len(ps) == 1 and lp is not None and ps[0].bb in lp.blocks and match(core(sym(b, ps[0].args[1])), Call('len', ANY))
    ctx.require(ok, b, 'pad-lengths', 'pad_ids records the true length of every item', None)
    pm = ctx.body(T + 'padding_mask')
    ext = [t for t in pm.calls(r'Vec::extend$|Extend>::extend$')]
    ok = len(ext) == 2
    if ok:
        first, second = (ext[0], ext[1]) if cfg.dominates(pm, ext[0].bb, ext[1].bb) else (ext[1], ext[0])
        f, s = core(sym(pm, first.args[1])), core(sym(pm, second.args[1]))
        ok = match(f, Call('Iterator::take', Call('iter::repeat', Const(1)), ANY)) and match(s, Call('Iterator::take', Call('iter::repeat', Const(0)), ('bin', 'Sub', Pred(lambda u: has(core(u), Call('Iterator::max', ANY))), ANY)))
    ctx.require(ok, pm, 'mask-order', 'padding_mask: len x true, then (max - len) x false', None)


@rule('C17', 'R-C17-4', 'T13 PAIR (sparse aggregation matrix)',
      'size = [batch, max #groups over the batch, max #tokens over the batch] (independent maxima); the three index planes are '
      'written at offsets 0, stride, 2*stride over the same [offset, offset+group_len) window; offset advances by group_len '
      'once per group')
def r4(ctx):
    b = ctx.body(T + 'token_groups_to_sparse_coo_matrix')
    R.clear()
    R['indices'] = _one(b, r'^std::vec::Vec<i32>$', 'index planes')
    R['values'] = _one(b, r'^std::vec::Vec<f32>$', 'weights')
    cands = [l for l in state_locals(b, r'^usize$') if any(core(v)[0] == 'bin' and core(v)[1] == 'Add' and core(v)[2] == ('var', b.var_name(l), l) for _, v in local_defs(b, l))]
    if len(cands) != 1:
        raise AnchorMissing('running token offset of the sparse matrix (found %d)' % len(cands))
    R['offset'] = cands[0]
    # the size literal vec![batch, max groups, max tokens] and the collected group counts
    z0 = symbolizer(b)
    size_lit = [simplify(z0.rvalue(s_.rv, 0, ())) for s_ in b.stmts() if s_.kind == 'assign' and s_.rv.kind == 'agg' and s_.rv.agg == 'array' and len(s_.rv.ops) == 3 and s_.span['mac'] == 'vec']
    if len(size_lit) != 1:
        raise AnchorMissing('size literal vec![batch, groups, tokens]')
    mg = [core(size_lit[0][3][1])]
    ml = [core(size_lit[0][3][2])]
    glc = [t_ for t_ in b.calls(r'Iterator::collect$') if b.local_ty(t_.dest.local) == 'std::vec::Vec<usize>']
    gl = [core(sym(b, glc[0].dest))] if glc else []
    GL = T_(gl[0]) if gl else Pred(lambda t: False)
    strd = [core(sym(b, t_.dest)) for t_ in b.calls(r'Iterator::sum$') if has(core(sym(b, t_.args[0])), ('arg', 2, ANY))]
    glen = [core(sym(b, t_.dest)) for t_ in b.calls(r'TokenGroup::len$')]

    def is_max_of(t, src_pred):
        return match(t, Call('Iterator::max', src_pred)) or match(t, Call('unwrap_or', Call('Iterator::max', src_pred), ANY))
    okg = len(mg) == 1 and is_max_of(mg[0], GL)
    okl = len(ml) == 1 and is_max_of(ml[0], ('arg', 2, ANY))
    ctx.require(okg, b, 'max-groups', 'max_group_length = max over the group counts of ALL items', 'max_group_length = %s (the group count of one '
                'particular item is not the maximum: indices of another item fall outside the declared size)' % [show_in(b, x) for x in mg])
    ctx.require(okl, b, 'max-tokens', 'max_length = max over the token counts of all items', 'max_length = %s' % [show_in(b, x) for x in ml])
    ok = len(gl) == 1 and match(gl[0], Call('Iterator::collect', Call('Iterator::map', ('arg', 1, ANY), ANY)))
    if ok:
        clo = closure_of(ctx, gl[0][2][0][2][1])
        crv = ret_values(clo)
        ok = len(crv) == 1 and match(core(crv[0][0]), Call('Vec::len', ('field', ('arg', 2, ANY), 0)))
    ctx.require(ok, b, 'group-lengths', 'group_lengths[i] = number of groups of item i', None)
    # vec![a, b, c] is written through a box: check the array literal
    arrs = []
    z = symbolizer(b)
    for s in b.stmts():
        if s.kind == 'assign' and s.rv.kind == 'agg' and s.rv.agg == 'array' and len(s.rv.ops) == 3 and s.span['mac'] == 'vec':
            arrs.append(simplify(z.rvalue(s.rv, 0, ())))
    ok = any(match(core(a[3][0]), Call('len', ('arg', 1, ANY))) for a in arrs)
    ctx.require(ok, b, 'size', 'size = [groupings.len(), max_group_length, max_length]', 'size literal: %s' % [show_in(b, a) for a in arrs])
    # index planes
    planes = {}
    stride = T_(strd[0]) if strd else Pred(lambda t: False)
    off = _var('offset')
    gl_ = T_(glen[0]) if glen else Pred(lambda t: False)
    for t in b.calls(r'::for_each$'):
        r = core(sym(b, t.args[0]))
        rngs = [x for x in walk(r) if isinstance(x, tuple) and x and x[0] == 'index' and x[2][0] == 'agg' and x[2][2].endswith('Range::Range')]
        if not rngs:
            continue
        base, rg = rngs[0][1], rngs[0][2]
        lo, hi = rg[3]
        which = None
        if match(base, _var('indices')):
            for k, lo_p in ((0, off), (1, Pred(lambda u: match(u, ('bin', 'Add', stride, off)) or match(u, ('bin', 'Add', off, stride)))),
                            (2, Pred(lambda u: match(u, ('bin', 'Add', ('bin', 'Mul', Const(2), stride), off)) or match(u, ('bin', 'Add', off, ('bin', 'Mul', Const(2), stride)))))):
                if match(lo, lo_p) and match(hi, ('bin', 'Add', Pred(lambda u: nosite(u) == nosite(lo)), gl_)):
                    which = k
        elif match(base, _var('values')):
            if match(lo, off) and match(hi, ('bin', 'Add', off, gl_)):
                which = 'values'
        planes[which] = t
    ctx.require({0, 1, 2, 'values'} <= set(planes), b, 'planes', 'batch / group / token index planes and the values are written over [offset, offset + group_len) at 0, stride, 2*stride',
                'planes written: %s' % sorted(str(k) for k in planes))
    for k, want in ((0, 'batch_index'), (1, 'group_idx')):
        if k in planes:
            clo = closure_of(ctx, sym(b, planes[k].args[1]))
            st = [core(simplify(symbolizer(clo).rvalue(s.rv, 0, ()))) for s in clo.stmts() if s.kind == 'assign' and s.lhs.proj]
            ok = len(st) == 1 and match(st[0], ('upvar', 0, ANY))
            cap = core(sym(b, planes[k].args[1])[3][0]) if ok else None
            ok = ok and cap is not None
            ctx.require(ok, b, 'plane-value|%d' % k, 'plane %d holds the %s' % (k, want), None)
    offs = [(site, core(v)) for site, v in local_defs(b, R['offset'])]
    inc = [x for x in offs if x[1][0] == 'bin']
    ok = len(inc) == 1 and match(inc[0][1], ('bin', 'Add', off, gl_))
    if ok:
        lp = cfg.innermost_loop(b, inc[0][0].bb)
        ok = lp is not None and all(cfg.must_pass(b, lp.header, l, via_blocks=[inc[0][0].bb], from_succ=True) for l in lp.latches)
    ctx.require(ok, b, 'offset-step', 'offset += group_len once per group', None)
    ctx.require(len(glen) == 1, b, 'group-len', 'group_len = group.len()', None)
    ctx.require(len(strd) == 1, b, 'stride', 'stride = total number of tokens', None)
