"""C07 The multi-source generator yields every item exactly once and terminates."""
from analysis.facts import norm_path
from analysis.engine import rule, AnchorMissing
from analysis import cfg
from analysis.sym import sym, show_in, nosite, peel, core, walk, ret_values, args_of, guards_at, atoms_at, \
    variant_facts_at, symbolizer, simplify, memory_reads, init_value
from analysis.pat import match, Call, Cap, ANY, Pred, Const, has, chain_names
from rules.common import closure_of

G = 'data::loading::MultiTrainDataGenerator'
SELF_FIN = ('field', ('arg', 1, ANY), 'finished')
SELF_IDX = ('field', ('arg', 1, ANY), 'idx')


def _arm_blocks(body, variant):
    """blocks dominated by the `strategy == variant` edge"""
    out = set()
    for b in body.reachable:
        for t, names in variant_facts_at(body, b):
            if match(t, ('field', ('arg', 1, ANY), 'strategy')) and names == {variant}:
                out.add(b)
    return out


def _stores(body):
    """(stmt, target tree, value tree) of assignments to places with a projection or to named locals"""
    z = symbolizer(body)
    for s in body.stmts():
        if s.kind != 'assign':
            continue
        if s.lhs.proj or body.var_name(s.lhs.local):
            yield s, (sym(body, s.lhs) if s.lhs.proj else ('var', body.var_name(s.lhs.local), s.lhs.local)), \
                simplify(z.rvalue(s.rv, 0, ()))


def _idx_updates(b):
    """every value self.idx can receive: (site, target, value) per store, a stored value that is chosen on exclusive branches
    (`self.idx = match strategy { A => a(), B => b() }`, results of helpers) split into its alternatives, each located at the
    block that computes it -- so that the guards of that block (the strategy arm, `finished[self.idx]`) qualify it"""
    from analysis.sym import defs_of
    out = []
    z = symbolizer(b)

    def expand(site, t, v, depth=0):
        c = peel(v)
        if depth < 4 and isinstance(c, tuple) and c and ((c[0] == 'var' and len(c) > 2) or c[0] == 'phi'):
            l = c[2] if c[0] == 'var' else c[1]
            whole, partial = defs_of(b, l)
            if not partial and len(whole) >= 2 and not any(cfg.innermost_loop(b, d.bb) is not None and
                                                            cfg.innermost_loop(b, d.bb) is not cfg.innermost_loop(b, site.bb) for d in whole):
                for d in whole:
                    dv = simplify(z.rvalue(d.rv, 0, (l,)) if hasattr(d, 'rv') else z.call(d, 0, (l,)))
                    expand(d, t, dv, depth + 1)
                return
        out.append((site, t, v))
    for s_, t, v in _stores(b):
        if match(t, SELF_IDX):
            expand(s_, t, v)
    return out


def _is_advance(v, of):
    """v == (of + 1) % len(self.finished)"""
    return match(core(v), ('bin', 'Rem', ('bin', 'Add', of, Const(1)), Call('Vec::len', SELF_FIN)))


@rule('C07', 'R-C07-1', 'T3b LOOP-EXIT (cyclic scan)',
      'interleaved selection: the scan over sources starts at (idx+1) mod n, advances by +1 mod n, continues ONLY '
      'after observing finished[candidate] == true, and runs under the precondition !all_finished() -- so it '
      'terminates whenever one source is unfinished (also a single one)')
def r1(ctx):
    b = ctx.body(G + '::next_idx')
    arm = _arm_blocks(b, 'Interleaved')
    if not arm:
        raise AnchorMissing('Interleaved arm of next_idx')
    lps = [l for l in cfg.loops(b) if l.header in arm]
    if len(lps) != 1:
        just = cyclic_find_sites(ctx, b, arm)
        if just:
            ctx.ok(b, 'interleaved selection is the cyclic search (1..=n).map(|o| (idx + o) % n).find(|i| !finished[i]): starts at idx+1, '
                   'visits every source once (the current one last), so it finds a source whenever one is unfinished', just[0].span)
            pre = any(pol is False and match(t, Call(G + '::all_finished', ('arg', 1, ANY))) for t, pol, g in atoms_at(b, just[0].bb))
            ctx.require(pre, b, 'scan-precondition', 'the search is dominated by assert!(!self.all_finished())', None, just[0].span)
            return
        raise AnchorMissing('expected one scan loop in the Interleaved arm, found %d' % len(lps))
    loop = lps[0]
    hdr_span = b.blocks[loop.header].term.span
    # loop variable: the named local stored inside the loop
    inner = [(s, t, v) for s, t, v in _stores(b) if s.bb in loop.blocks and t[0] == 'var']
    if len(inner) != 1:
        ctx.fail(b, 'scan-variable', 'expected exactly one candidate variable updated inside the scan loop, found %d' % len(inner), hdr_span)
        return
    s_in, var, v_in = inner[0]
    vpat = Pred(lambda t: t[0] == 'var' and t[1] == var[1])
    ctx.require(_is_advance(v_in, vpat), b, 'scan-advance',
                'scan advances the candidate by (c + 1) %% finished.len()', 'scan update is %s' % show_in(b, v_in), s_in.span)
    # every path to a back edge observed finished[candidate] == true
    for latch in loop.latches:
        obs = False
        for t, pol, g in atoms_at(b, latch):
            if g.block in loop.blocks and pol is True and match(core(t), ('index', SELF_FIN, vpat)):
                obs = True
        # the observation must also dominate the latch *within* the loop (edge inside loop)
        ctx.require(obs, b, 'scan-continue-only-if-finished',
                    'the scan continues (back edge bb%d) only after finished[candidate] was observed true' % latch,
                    'the scan can continue (back edge from bb%d) without having observed finished[candidate]: with one '
                    'unfinished source left (or a single source) no candidate ever satisfies the exit condition -- endless loop'
                    % latch, b.blocks[latch].term.span)
    # exits: only on finished[candidate] == false
    for (u, v) in loop.exits(b):
        good = False
        for g in guards_at(b, v):
            t, pol = g.atom()
            if g.block == u and pol is False and match(core(t), ('index', SELF_FIN, vpat)):
                good = True
        ctx.require(good, b, 'scan-exit', 'scan exit bb%d->bb%d is `!finished[candidate]`' % (u, v), None, b.blocks[u].term.span)
    # initial candidate and final store
    init = [(s, t, v) for s, t, v in _stores(b) if s.bb in arm and s.bb not in loop.blocks and t[0] == 'var' and t[2] == var[2]]
    ctx.require(len(init) == 1 and _is_advance(init[0][2], SELF_IDX), b, 'scan-start',
                'scan starts at (self.idx + 1) %% n (round robin moves on)', 'scan start is %s' % (
                    [show_in(b, v) for _, _, v in init]), init[0][0].span if init else hdr_span)
    fin = [(s, t, v) for s, t, v in _idx_updates(b) if s.bb in arm]
    ctx.require(len(fin) == 1 and fin[0][0].bb not in loop.blocks and match(core(fin[0][2]), vpat) and
                all(cfg.dominates(b, loop.header, fin[0][0].bb) for _ in [0]), b, 'scan-result',
                'self.idx := the candidate found by the scan (after the loop)', None, fin[0][0].span if fin else hdr_span)
    # precondition
    pre = any(pol is False and match(t, Call(G + '::all_finished', ('arg', 1, ANY))) for t, pol, g in atoms_at(b, loop.header))
    ctx.require(pre, b, 'scan-precondition', 'the scan is dominated by assert!(!self.all_finished())', None, hdr_span)
    af = ctx.body(G + '::all_finished')
    rv = ret_values(af)
    from analysis.quant import quant_nf
    from analysis.seq import ITEM as _ITEM
    q = quant_nf(ctx.facts, af, rv[0][0]) if len(rv) == 1 else None
    okaf = q is not None and q[0] == 'all' and match(q[1], SELF_FIN) and core(q[2]) == _ITEM
    ctx.require(okaf, af, 'all-finished', 'all_finished() = every flag of self.finished is true', 'all_finished() is %s' % str([show_in(af, v) for v, _ in rv] if q is None else (q[0], show_in(af, q[1]), show_in(af, q[2]))))


def _next_rows(ctx):
    """path table of next(): one row per feasible path from the entry to a return or to the back edge, with reads of self.idx
    stamped by the number of re-selections (next_idx() calls / stores to self.idx) that precede them on the path"""
    from analysis import pathx
    b = ctx.body('<' + G + ' as std::iter::Iterator>::next')
    cells = {'idx': lambda t: match(t, SELF_IDX)}

    def bumps(ev, pe):
        if ev[0] == 'store-place' and match(pathx.unstamp(ev[1]), SELF_IDX):
            return ['idx']
        if ev[0] == 'call' and (ev[1].callee_res() or '').endswith(G + '::next_idx'):
            return ['idx']
        return ()
    # first iteration: from the entry; later iterations: from the loop header, where every local set before the loop still holds
    # what it read then (stamped 'pre': older than any re-selection of an earlier iteration)
    ps = pathx.paths_from(b, 0)
    for lp in cfg.loops(b):
        more = pathx.paths_from(b, lp.header)
        ps = None if ps is None or more is None else ps + more
    if ps is None:
        raise AnchorMissing('paths of next() (too many)')
    rows = []
    for p, end in ps:
        if end[0] == 'exit':
            continue
        pe = pathx.eval_versioned(b, p, cells, bumps)
        if pe is None:
            continue
        row = {'pe': pe, 'end': end, 'path': p}
        calls = [e for e in pe.events if e[0] == 'call']
        row['pulls'] = [e for e in calls if (e[1].callee_res() or '').endswith('::next') and has(pathx.unstamp(e[2][0]), ('field', ('arg', 1, ANY), 'generators'))]
        row['allfin'] = [e for e in calls if (e[1].callee_res() or '').endswith(G + '::all_finished')]
        row['select'] = [e for e in calls if (e[1].callee_res() or '').endswith(G + '::next_idx')]
        row['marks'] = [e for e in pe.events if e[0] == 'store-place' and match(core(pathx.unstamp(e[1])), ('index', SELF_FIN, ANY))]
        arm = None
        if row['pulls']:
            res = nosite(row['pulls'][0][3])
            for t, names in pe.variants:
                if nosite(peel(t)) == res and len(names) == 1:
                    arm = list(names)[0]
        row['arm'] = arm
        row['ret'] = pe.env.get(0) if end[0] == 'return' else None
        rows.append(row)
    if not rows:
        raise AnchorMissing('feasible paths of next()')
    return b, rows


def _at_nodes(t):
    out = []

    def rec(x):
        if isinstance(x, tuple) and x:
            if x[0] == 'at':
                out.append(x)
                return
            for y in x:
                rec(y)
    rec(t)
    return out


def _pos(pe, ev):
    return pe.events.index(ev)


@rule('C07', 'R-C07-2', 'T1 ORDER',
      'next(): an exhausted source is marked finished before all_finished()/next_idx() are consulted; None is returned '
      'only when all sources are finished')
def r2(ctx):
    from analysis import pathx
    b, rows = _next_rows(ctx)
    where = lambda e: e[1].span if e[0] == 'call' else e[3].span
    n_none = 0
    for row in rows:
        pe = row['pe']
        if len(row['pulls']) != 1:
            ctx.fail(b, 'one-pull-per-path', 'a path through next() pulls from the sources %d times' % len(row['pulls']))
            continue
        pull = row['pulls'][0]
        ats = _at_nodes(pull[2][0])
        src = core(pathx.unstamp(pull[2][0]))
        ctx.require(len(ats) == 1 and match(src, ('index', ('field', ('arg', 1, ANY), 'generators'), SELF_IDX)), b, 'pull-current',
                    'the pull is from generators[self.idx]', 'the pull is from %s' % show_in(b, pathx.unstamp(pull[2][0])), where(pull))
        if row['arm'] != 'None':
            continue
        n_none += 1
        cur = ats[0] if ats else None
        marks = row['marks']
        okm = len(marks) == 1 and _at_nodes(marks[0][1]) == [cur] and match(core(pathx.unstamp(marks[0][1])), ('index', SELF_FIN, SELF_IDX)) and \
            core(marks[0][2])[0] == 'const' and core(marks[0][2])[2] == 1
        ctx.require(okm, b, 'mark-finished', 'on exhaustion finished[self.idx] = true for the source that was pulled',
                    'on the None arm of the pull the stores to self.finished are %s' % [show_in(b, pathx.unstamp(m[1])) + ' := ' + show_in(b, pathx.unstamp(m[2])) for m in marks],
                    where(marks[0]) if marks else where(pull))
        if not okm:
            continue
        for e in row['allfin'] + row['select']:
            ctx.require(_pos(pe, marks[0]) < _pos(pe, e), b, 'mark-before|' + e[1].callee_res().rsplit('::', 1)[-1],
                        'finished[self.idx] = true precedes %s() on the None arm' % e[1].callee_res().rsplit('::', 1)[-1], None, where(e))
        fin = [pol for t, pol in pe.atoms if match(core(pathx.unstamp(t)), Call(G + '::all_finished', ANY))]
        if row['end'][0] == 'return':
            r = peel(row['ret']) if row['ret'] is not None else None
            isnone = r is not None and r[0] == 'agg' and r[2].endswith('Option::None')
            ctx.require(isnone and fin == [True], b, 'none-only-when-all-finished', 'None is returned only under all_finished()',
                        'after an exhausted source next() returns %s under all_finished() = %s' % (show_in(b, pathx.unstamp(row['ret'])) if row['ret'] is not None else '?', fin),
                        b.blocks[row['end'][1]].term.span)
        else:
            ctx.require(len(row['select']) == 1 and fin == [False] and _pos(pe, row['allfin'][0]) < _pos(pe, row['select'][0]), b, 'reselect-precondition',
                        'after exhausting a source the loop continues with next_idx(), called under !all_finished()',
                        'after exhausting a source the loop continues with %d next_idx() calls under all_finished() = %s' % (len(row['select']), fin), where(pull))
    ctx.require(n_none >= 2, b, 'none-arm-paths', 'the None arm of the pull either ends the stream or re-selects and continues', 'None-arm paths found: %d' % n_none)


@rule('C07', 'R-C07-3', 'T1 ORDER (no write between)',
      'the yielded pair is (item pulled from generators[self.idx], self.idx) built BEFORE the next source is selected')
def r3(ctx):
    from analysis import pathx
    b, rows = _next_rows(ctx)
    n_some = 0
    for row in rows:
        pe = row['pe']
        if row['arm'] != 'Some' or len(row['pulls']) != 1:
            continue
        n_some += 1
        pull = row['pulls'][0]
        ats = _at_nodes(pull[2][0])
        cur = ats[0] if ats else None
        if row['end'][0] != 'return':
            ctx.fail(b, 'yield', 'a pulled item does not leave next(): the loop continues with it', pull[1].span)
            continue
        r = peel(row['ret'])
        val = peel(r[3][0]) if r[0] == 'agg' and r[2].endswith('Option::Some') and r[3] else None
        good = val is not None and val[0] == 'agg' and val[1] == 'tuple' and len(val[3]) == 2
        item_ok = good and nosite(core(pathx.unstamp(val[3][0]))) == nosite(core(pathx.unstamp(pull[3])))
        tag = _at_nodes(val[3][1]) if good else []
        tag_is_idx = good and len(tag) == 1 and match(core(pathx.unstamp(val[3][1])), SELF_IDX)
        ctx.require(good and item_ok and tag_is_idx, b, 'tag', 'yielded value = (pulled item, self.idx)',
                    'yielded value is %s' % show_in(b, pathx.unstamp(row['ret'])), b.blocks[row['end'][1]].term.span)
        if good and tag_is_idx:
            fresh = tag[0] == cur
            why = ''
            if not fresh and cur is not None:
                why = 'the index in the pair is self.idx as of %s re-selection(s), the pull used self.idx as of %s' % (tag[0][2], cur[2])
            ctx.require(fresh, b, 'tag-before-select', 'the index in the pair is the self.idx the pull used (no re-selection in between, no stale copy)',
                        'the source index is re-selected between the pull and the construction of the (item, index) pair, or read before an earlier '
                        're-selection: ' + why, b.blocks[row['end'][1]].term.span)
        ctx.require(len(row['select']) >= 1 and all(_pos(pe, pull) < _pos(pe, e) for e in row['select']), b, 'select-after-yield',
                    'after the pull, the next source is selected (next_idx())', None, pull[1].span)
        ctx.require(not row['marks'], b, 'no-mark-on-some', 'a source that produced an item is not marked finished', None, pull[1].span)
    ctx.require(n_some >= 1, b, 'some-arm-paths', 'the Some arm of the pull yields the item', 'Some-arm paths found: %d' % n_some)
    sel = [c for c in b.calls(G + '::next_idx$')]
    # ownership: the pulled item is never dropped on a normal path
    drops = [t for t in b.terms('drop') if 'TrainData' in t.raw['ty']]
    ctx.require(not drops, b, 'no-item-drop', 'no normal-path drop of a pulled item in next()',
                'pulled item may be dropped at line %d' % (drops[0].span['line'] if drops else 0))
    # who else pulls from the sources
    others = []
    for o in ctx.facts.bodies:
        if o is b or not o.file().startswith('src/data/loading.rs'):
            continue
        for t in o.calls(r'::next$'):
            if has(sym(o, t.args[0]), ('field', ANY, 'generators')):
                others.append((o, t))
    ctx.require(not others, b, 'single-puller', 'generators[..].next() is called only from next()', None)


@rule('C07', 'R-C07-5', 'T13 PAIR',
      'sequential selection moves on only when the current source is finished, by +1 mod n')
def r5(ctx):
    b = ctx.body(G + '::next_idx')
    arm = _arm_blocks(b, 'Sequential')
    if not arm:
        raise AnchorMissing('Sequential arm of next_idx')
    # a value equal to the current index leaves the selection where it is
    st = [(s, t, v) for s, t, v in _idx_updates(b) if s.bb in arm and not match(core(v), SELF_IDX)]
    if len(st) != 1:
        ctx.fail(b, 'sequential-store', 'expected one update of self.idx in the Sequential arm, found %d' % len(st))
        return
    s, t, v = st[0]
    ctx.require(_is_advance(v, SELF_IDX), b, 'sequential-advance', 'self.idx := (self.idx + 1) %% n',
                'update is %s' % show_in(b, v), s.span)
    guarded = any(pol is True and match(core(tt), ('index', SELF_FIN, SELF_IDX)) for tt, pol, g in atoms_at(b, s.bb))
    ctx.require(guarded, b, 'sequential-guard', 'the move happens only under finished[self.idx]', None, s.span)


@rule('C07', 'R-C07-6', 'T6 NONDET',
      'weighted selection samples from the seeded self.rng over the unfinished sources weighted by their lengths; the '
      'OS rng is used only when no seed was given')
def r6(ctx):
    b = ctx.body(G + '::next_idx')
    arm = _arm_blocks(b, 'Weighted')
    smp = [t for t in b.calls(r'Rng::sample$|Distribution>::sample$') if t.bb in arm]
    if len(smp) != 1:
        raise AnchorMissing('Rng::sample in the Weighted arm')
    ctx.require(match(core(sym(b, smp[0].args[0])), ('field', ('arg', 1, ANY), 'rng')), b, 'weighted-rng',
                'the sample is drawn from self.rng', 'sample is drawn from %s' % show_in(b, sym(b, smp[0].args[0])), smp[0].span)
    from analysis.seq import seq_of, ITEM
    st = [(s, t, v) for s, t, v in _idx_updates(b) if s.bb in arm]
    unfinished = lambda sg: sg.kind == 'each' and match(core(sg.src), Call('Iterator::enumerate', SELF_FIN)) and \
        len(sg.conds) == 1 and sg.conds[0][1] is False and core(sg.conds[0][0]) == ('field', ITEM, 1)
    SELF_LEN = ('field', ('arg', 1, ANY), 'lengths')

    def zipped(sgs):
        """`finished.iter().zip(lengths.iter()).enumerate()` yields (i, (finished[i], lengths[i])): the same sequence written over
        `finished.iter().enumerate()` with lengths[i] looked up by position (both vectors have one entry per source)"""
        if sgs is None:
            return None
        out = []
        for sg in sgs:
            if sg.kind == 'each' and match(core(sg.src), Call('Iterator::enumerate', Call('Iterator::zip', SELF_FIN, SELF_LEN))):
                sg = sg.copy()
                fin = core(sg.src)[2][0]
                while fin[0] == 'call' and fin[1].rsplit('::', 1)[-1] != 'zip':
                    fin = fin[2][0]
                lens = core(fin[2][1])

                def rw(n):
                    if n == ('field', ('field', ITEM, 1), 0):
                        return ('field', ITEM, 1)
                    if n == ('field', ('field', ITEM, 1), 1):
                        return ('index', lens, ('field', ITEM, 0))
                    return None
                sg.map(rw, src=False)
                sg.src = ('call', 'std::iter::Iterator::enumerate', (core(fin[2][0]),))
            out.append(sg)
        return out
    good = False
    segs = None
    if len(st) == 1:
        v = peel(st[0][2])
        if v[0] == 'index' and has(v[2], Call('sample')):
            segs = zipped(seq_of(ctx.facts, b, v[1]))
            good = segs is not None and len(segs) == 1 and unfinished(segs[0]) and core(segs[0].elem) == ('field', ITEM, 0)
    ctx.require(good, b, 'weighted-index', 'self.idx := unfinished_indices[sample], the candidates being the indices with finished == false in ascending order',
                'the sampled position is mapped through %s' % ([repr(x)[:140] for x in segs] if segs is not None else 'an unrecognised expression'), smp[0].span)
    wi = [t for t in b.calls(r'WeightedIndex::new$') if t.bb in arm]
    good = False
    wsegs = None
    if len(wi) == 1:
        wsegs = zipped(seq_of(ctx.facts, b, sym(b, wi[0].args[0])))
        good = wsegs is not None and len(wsegs) == 1 and unfinished(wsegs[0]) and \
            match(core(wsegs[0].elem), ('index', ('field', ('arg', 1, ANY), 'lengths'), ('field', ITEM, 0)))
    ctx.require(good, b, 'weighted-weights', 'weights = lengths[i] of the unfinished sources, in the order of the candidates',
                'the weights are %s' % ([repr(x)[:140] for x in wsegs] if wsegs is not None else 'unrecognised'), wi[0].span if wi else None)
    n = ctx.body(G + '::new')
    for t in n.calls(r'from_os_rng$|from_entropy$|rand::rng$|thread_rng$'):
        under_none = any(match(tt, ('arg', 3, ANY)) and names == {'None'} for tt, names in variant_facts_at(n, t.bb))
        ctx.require(under_none, n, 'os-rng-only-without-seed', 'OS randomness only on the `seed is None` edge', None, t.span)
    seeded = [t for t in n.calls(r'seed_from_u64$')]
    ctx.require(len(seeded) == 1 and match(core(sym(n, seeded[0].args[0])), ('arg', 3, ANY)), n, 'seeded',
                'rng = ChaCha8Rng::seed_from_u64(seed)', None)
    rvn = [v for v, bb in ret_values(n) if v[0] == 'agg' and v[2].endswith('Result::Ok')]
    good = len(rvn) == 1 and rvn[0][3][0][0] == 'agg' and match(rvn[0][3][0][3][4], Const(0))
    ctx.require(good, n, 'start-index', 'iteration starts at source 0', None)


def cyclic_find_sites(ctx, b, arm=None):
    """unwrap/expect sites of next_idx whose operand is the complete cyclic search
    `(1..=n).map(|o| (self.idx + o) % n).find(|i| !self.finished[*i])` with n = self.finished.len(): all n residues are visited,
    starting behind the current source, so under !all_finished() the search cannot fail"""
    from analysis.seq import seq_of_iter, apply_fn, ITEM
    from analysis import poly
    from rules.common import range_bounds
    out = []
    LEN = Call('len', SELF_FIN)
    for t in b.calls(r'Option::(expect|unwrap)$'):
        if arm is not None and t.bb not in arm:
            continue
        x = peel(sym(b, t.args[0]))
        if not (x[0] == 'call' and x[1].endswith('::find') and len(x[2]) == 2):
            continue
        segs = seq_of_iter(ctx.facts, b, x[2][0])
        if segs is not None and len(segs) == 2 and all(s_.kind == 'each' and not s_.conds and core(s_.elem) == ITEM for s_ in segs):
            # the ring walk (start..n).chain(0..start).find(|i| !finished[i]): both halves together are all of 0..n, whatever `start` is
            r1, r2 = range_bounds(segs[0].src), range_bounds(segs[1].src)
            if r1 is not None and r2 is not None and r2[0] == 0 and not isinstance(r1[1], int) and match(core(init_value(b, r1[1])), LEN) and \
                    nosite(core(r1[0])) == nosite(core(r2[1])) if not isinstance(r1[0], int) and not isinstance(r2[1], int) else False:
                pred = core(apply_fn(ctx.facts, x[2][1], (ITEM,)))
                if pred[0] == 'un' and pred[1] == 'Not' and match(core(pred[2]), ('index', SELF_FIN, ITEM)):
                    out.append(t)
            continue
        if segs is None or len(segs) != 1 or segs[0].kind != 'each' or segs[0].conds:
            continue
        rb = range_bounds(segs[0].src)
        if rb is None or rb[0] != 1 or isinstance(rb[1], int):
            continue
        lens = [y for y in walk(rb[1]) if isinstance(y, tuple) and y and match(core(y), LEN)]
        if not lens or poly.poly(rb[1]) != poly._add(poly.poly(lens[0]), {(): 1}, 1):
            continue
        e = core(segs[0].elem)
        okm = e[0] == 'bin' and e[1] == 'Rem' and match(e[3], LEN) and (match(e[2], ('bin', 'Add', SELF_IDX, ITEM)) or match(e[2], ('bin', 'Add', ITEM, SELF_IDX)))
        pred = core(apply_fn(ctx.facts, x[2][1], (segs[0].elem,)))
        okp = pred[0] == 'un' and pred[1] == 'Not' and match(core(pred[2]), ('index', SELF_FIN, Pred(lambda u: nosite(core(u)) == nosite(e))))
        if okm and okp:
            out.append(t)
    return out


C07_PANIC_INVENTORY = {
    # (function, kind) -> (allowed, reason)
    (G + '::next_idx', 'assert'): (1, 'assert!(!self.all_finished()): next() calls next_idx() only behind the all_finished() early return (R-C07-2)'),
    (G + '::next_idx', 'Result::expect'): (1, 'WeightedIndex::new over the lengths of the unfinished sources: non-empty behind the assert, lengths of unfinished sources are > 0'),
}


@rule('C07', 'R-C07-7', 'T9 PANIC-SITES (selection never aborts the stream)',
      'the explicit panic sites (panic!/assert!/unwrap/expect) of next(), next_idx() and all_finished() are exactly the reviewed '
      'inventory: a selection that can find "no candidate" and aborts loses the remaining items of the live sources')
def r7(ctx):
    from rules.common import panic_sites, closures_in
    from rules.c13 import _site_kind
    found = {}
    n = 0
    for name in ('<' + G + ' as std::iter::Iterator>::next', G + '::next_idx', G + '::all_finished'):
        b0 = ctx.body(name)
        for b in [b0] + closures_in(ctx, b0):
            n += 1
            justified = cyclic_find_sites(ctx, b) if b is b0 and name.endswith('::next_idx') else []
            for t, d in panic_sites(b):
                k = _site_kind(t, d)
                if k is not None and t not in justified:
                    found.setdefault((norm_path(b.path), k), []).append((b, t))
    for key in sorted(set(found) | set(C07_PANIC_INVENTORY)):
        sites = found.get(key, [])
        inv = C07_PANIC_INVENTORY.get(key)
        if inv is None or len(sites) > inv[0]:
            b, t = sites[-1]
            ctx.fail(b, 'unreviewed-panic-site|' + key[1], '%s has %d `%s` site(s) (line %d), the reviewed inventory has %d: the stream can abort while sources still hold items' % (
                key[0], len(sites), key[1], t.span['line'], inv[0] if inv else 0), t.span)
        elif sites:
            ctx.ok(sites[0][0], '%s: %d x `%s` -- %s' % (key[0], len(sites), key[1], inv[1]), sites[0][1].span)
    ctx.ok(None, 'panic inventory of the multi-source generator: %d bodies scanned' % n)


@rule('C07', 'R-C07-8', 'T10 PROVENANCE (source indices are positions in the list the caller passed)',
      'MultiTrainDataGenerator::new stores the generators exactly as given (no filtering, sorting or de-duplication) and derives lengths / finished '
      'flags from that same list, one entry per source: the index yielded with an item is a position in the caller\'s list. Dropping empty sources '
      'up front shifts the index of every later source')
def r8(ctx):
    from analysis.seq import seq_of, ITEM
    from analysis.sym import agg_field
    n = ctx.body(G + '::new')
    oks = [v for v, bb in ret_values(n) if v[0] == 'agg' and v[2].endswith('Result::Ok')]
    if len(oks) != 1:
        raise AnchorMissing('Ok(MultiTrainDataGenerator {..}) in new()')
    st = oks[0][3][0]
    gens = agg_field(ctx.facts, st, 'generators')
    okg = gens is not None and match(core(gens), ('arg', 1, ANY))
    if not okg and gens is not None:
        segs = seq_of(ctx.facts, n, gens)
        okg = segs is not None and len(segs) == 1 and segs[0].kind == 'each' and not segs[0].conds and match(core(segs[0].src), ('arg', 1, ANY)) and core(segs[0].elem) == ITEM
    ctx.require(okg, n, 'generators-as-given', 'self.generators is the list passed by the caller, unchanged',
                'self.generators is `%s`: sources are removed or reordered before indices are assigned, so the index yielded with an item no longer identifies the '
                'caller\'s source' % (show_in(n, gens)[:120] if gens is not None else '?'))
    for fld, what in (('lengths', 'g.len()'), ('finished', 'false')):
        v = agg_field(ctx.facts, st, fld)
        segs = seq_of(ctx.facts, n, v) if v is not None else None
        ok = segs is not None and len(segs) == 1 and not segs[0].conds and (
            (segs[0].kind == 'each' and has(core(segs[0].src), ('arg', 1, ANY))) or
            (segs[0].kind == 'repeat' and has(core(segs[0].count), ('arg', 1, ANY))))
        ctx.require(ok, n, 'per-source|' + fld, 'self.%s has one entry (%s) per source of the list' % (fld, what),
                    'self.%s is built as %s' % (fld, [repr(x)[:100] for x in segs or ()]))
