"""C12 Edit distance equals the reference metric and operations() is a minimal script."""
import re
from analysis.engine import rule, AnchorMissing
from analysis import cfg, poly
from analysis.sym import sym, show_in, nosite, peel, core, walk, ret_values, args_of, guards_at, atoms_at, \
    variant_facts_at, cmp_facts_at, init_value, edge_guards, symbolizer, simplify, loop_source
from analysis.pat import match, Call, Cap, ANY, Pred, Const, has, chain_names
from rules.common import closure_of, state_locals, local_defs, V

WS = 'unicode::Character::is_whitespace'
DP = 'edit::_calculate_edit_matrices'


R = {}


def _var(name):
    """role based (never the debug name): d / ops = the cost / op matrices (by element type), i / j = the backtrace
    positions (by their start value |a| / |b|)"""
    return Pred(lambda t: isinstance(t, tuple) and t and t[0] == 'var' and len(t) > 2 and R.get(name) == t[2])


def _role(local):
    for k, v in R.items():
        if v == local:
            return k
    return None


def _roles_dp(b):
    R.clear()
    d = state_locals(b, r'^std::vec::Vec<usize>$')
    o = state_locals(b, r'^std::vec::Vec<edit::EditOp>$')
    if len(d) != 1 or len(o) != 1:
        raise AnchorMissing('cost matrix (Vec<usize>) / op matrix (Vec<EditOp>) of the DP (found %d / %d)' % (len(d), len(o)))
    R['d'], R['ops'] = d[0], o[0]


def _roles_bt(b):
    R.clear()
    for l in state_locals(b, r'^usize$'):
        for site, v in local_defs(b, l):
            cv = core(v)
            if match(cv, Call('CharString::len', Call('CharString::new', ('arg', 1, ANY), ANY))):
                R['i'] = l
            elif match(cv, Call('CharString::len', Call('CharString::new', ('arg', 2, ANY), ANY))):
                R['j'] = l
    if 'i' not in R or 'j' not in R:
        raise AnchorMissing('backtrace positions starting at |a| and |b|')


def _stores(b, blocks=None):
    z = symbolizer(b)
    for s in b.stmts():
        if s.kind == 'assign' and (s.lhs.proj or b.var_name(s.lhs.local)) and (blocks is None or s.bb in blocks):
            if s.span['exp'] and s.span['mac'] == 'vec':
                continue
            yield s, (sym(b, s.lhs) if s.lhs.proj else ('var', b.var_name(s.lhs.local), s.lhs.local)), simplify(z.rvalue(s.rv, 0, ()))


class DPInfo:
    pass


def dp_info(ctx):
    b = ctx.body(DP)
    mins = [t for t in b.calls(r'Iterator::min_by$|Iterator::min_by_key$|Iterator::min$')]
    if len(mins) != 1:
        raise AnchorMissing('the candidate selection (min_by) of the edit-distance DP (found %d)' % len(mins))
    inner = cfg.innermost_loop(b, mins[0].bb)
    if inner is None:
        raise AnchorMissing('inner DP loop')
    outer = None
    for l in cfg.loops(b):
        if inner.header in l.blocks and l is not inner and (outer is None or len(l.blocks) < len(outer.blocks)):
            outer = l
    if outer is None:
        raise AnchorMissing('outer DP loop')
    _roles_dp(b)
    info = DPInfo()
    info.b, info.min, info.inner, info.outer = b, mins[0], inner, outer
    # loop elements: (idx, char) of enumerate over a_chars / b_chars
    def elem(loop, other):
        nx = [t for t in b.calls(r'::next$') if t.bb in loop.blocks and (other is None or t.bb not in other.blocks)]
        if len(nx) != 1:
            raise AnchorMissing('iterator pull of a DP loop')
        src = loop_source(b, nx[0])
        return nx[0], src
    info.nx_a, info.src_a = elem(outer, inner)
    info.nx_b, info.src_b = elem(inner, None)
    info.a_item = ('unwrap', nosite(sym(b, info.nx_a.dest)))
    info.b_item = ('unwrap', nosite(sym(b, info.nx_b.dest)))
    ka = poly.atom_key(core(('field', info.a_item, 0)))
    kb = poly.atom_key(core(('field', info.b_item, 0)))
    info.ka, info.kb = ka, kb
    # cols = len(b) + 1
    cols = [v for s, t, v in _stores(b) if match(core(v), ('bin', 'Add', Call('CharString::len', ('arg', 2, ANY)), Const(1)))][:1]
    info.cols_ok = len(cols) == 1 and match(core(cols[0]), ('bin', 'Add', Call('CharString::len', ('arg', 2, ANY)), Const(1)))
    info.cols_key = poly.atom_key(core(cols[0])) if cols else None
    info.cols_poly = poly.poly(core(cols[0])) if cols else None
    return info


def _idx_poly(info, t):
    """polynomial of an index expression over atoms a_idx, b_idx, cols"""
    return poly.poly(core(t))


def _rel(info, idx_tree, target_tree):
    """(di, dj) such that idx = target + di*cols + dj, or None"""
    p = poly.sub(_idx_poly(info, idx_tree), _idx_poly(info, target_tree))
    return poly.linear_in_poly(p, info.cols_poly)


@rule('C12', 'R-C12-1', 'T4b GUARD (normalisation divisor)',
      'distance / prefix_distance return (DP answer as f64) / norm on a single path; norm is 1.0 or the length clamped to >= 1')
def r1(ctx):
    for fn, answer in (('edit::distance', 'last'), ('edit::prefix_distance', 'min')):
        b = ctx.body(fn)
        rv = ret_values(b)
        if len(rv) == 2:
            # `if normalized { x as f64 / len.max(1) as f64 } else { x as f64 }`: the same answer on both branches of the flag, the plain one
            # being the quotient by 1.0
            def flag_at(blk):
                fl = [pol for tt, pol, g in atoms_at(b, blk) if core(tt)[0] == 'arg' and 'bool' in (b.local_ty(core(tt)[1]) or '')]
                return fl[-1] if fl else None
            quo = [(v_, blk) for v_, blk in rv if v_[0] == 'bin' and v_[1] == 'Div']
            pla = [(v_, blk) for v_, blk in rv if not (v_[0] == 'bin' and v_[1] == 'Div')]
            if len(quo) == 1 and len(pla) == 1 and flag_at(quo[0][1]) is True and flag_at(pla[0][1]) is False and \
                    nosite(core(quo[0][0][2])) == nosite(core(pla[0][0])):
                rv = [quo[0]]
        ctx.require(len(rv) == 1, b, 'single-result|' + fn.rsplit('::', 1)[-1], '%s has a single result expression' % fn,
                    '%s has %d result expressions: a shortcut bypasses the dynamic programme (e.g. byte lengths instead of character '
                    'counts)' % (fn, len(rv)))
        if len(rv) != 1:
            continue
        v = rv[0][0]
        if not (v[0] == 'bin' and v[1] == 'Div'):
            ctx.fail(b, 'not-a-quotient|' + fn.rsplit('::', 1)[-1], '%s returns %s' % (fn, show_in(b, v)))
            continue
        num, den = v[2], v[3]
        from analysis.alts import value_alts, flatten, expand
        dps = [t for t in b.calls(DP + '$')]
        ok = len(dps) == 1
        if ok:
            d = nosite(core(('field', nosite(sym(b, dps[0].dest)), 0)))
            isd = Pred(lambda u: nosite(core(u)) == d)
            al = value_alts(ctx.facts, b, peel(num))
            vals = [core(a_.value) for a_ in al]
            zero = [x for x in vals if x[0] == 'const' and x[2] == 0]
            rest = [x for x in vals if x not in zero]
            if answer == 'last':
                ok = len(rest) == 1 and (match(rest[0], Call('slice::last', isd)) or match(rest[0], Call('unwrap_or', Call('slice::last', isd), Const(0))) or
                                         match(rest[0], ('index', isd, ('bin', 'Sub', Call('len', isd), Const(1)))))
                if not ok and len(rest) == 1 and rest[0][0] == 'index' and match(rest[0][1], isd):
                    # d[(|a| + 1) * (|b| + 1) - 1]: the last cell of the matrix the DP allocates
                    ix = init_value(b, rest[0][2])
                    la_ = [y for y in walk(ix) if isinstance(y, tuple) and y and match(y, Call('CharString::len', Call('CharString::new', ('arg', 1, ANY), ANY)))]
                    lb_ = [y for y in walk(ix) if isinstance(y, tuple) and y and match(y, Call('CharString::len', Call('CharString::new', ('arg', 2, ANY), ANY)))]
                    if la_ and lb_:
                        want_ = poly._add(poly._mul(poly._add(poly.poly(la_[0]), {(): 1}, 1), poly._add(poly.poly(lb_[0]), {(): 1}, 1)), {(): 1}, -1)
                        try:
                            ok = poly.poly(ix) == want_
                        except Exception:
                            ok = False
            else:
                ok = len(rest) == 1 and has(rest[0], Call('Iterator::min', ANY)) and has(rest[0], isd)
                if not ok:
                    # a running minimum over the row (`let mut m = row[0]; for &x in &row[1..] { if x < m { m = x } }`)
                    from analysis.reduce import reduce_of
                    rd_ = reduce_of(ctx.facts, b, peel(num))
                    ok = rd_ is not None and rd_.op == 'min' and len(rd_.segs) == 1 and rd_.segs[0].kind == 'each' and not [c_ for c_ in rd_.segs[0].conds if False] and \
                        has(rd_.segs[0].src, isd) and (rd_.init is None or has(rd_.init, isd))
        ctx.require(ok, b, 'answer|' + fn.rsplit('::', 1)[-1], '%s: numerator is the DP answer (%s of the cost matrix)' % (fn, answer),
                    '%s: numerator is %s' % (fn, show_in(b, num)))
        # denominator: 1.0 when not normalised, otherwise the length clamped to >= 1
        defs = flatten(expand(ctx.facts, b, nosite(peel(den))))
        if not defs:
            ctx.fail(b, 'divisor|' + fn.rsplit('::', 1)[-1], '%s: cannot resolve the divisor %s' % (fn, show_in(b, den)))
            continue
        for alt in defs:
            dv = alt.value
            c = core(dv)
            span = None
            if c[0] == 'const':
                ctx.require(c[1].replace('const ', '').startswith('1') and 'f64' in c[1], b, 'divisor-const|' + fn.rsplit('::', 1)[-1],
                            '%s: un-normalised divisor is 1.0' % fn, '%s: constant divisor is %s' % (fn, c[1]), span)
                continue
            clamped = match(c, Call('Ord::max', ANY, Const(1))) or match(c, Call('Ord::max', Const(1), ANY))
            guarded = False
            if not clamped:
                # the same protection as a guard: the length is used as divisor only under `len > 0` (otherwise 1.0)
                for tt_, pol_ in alt.atoms:
                    ct_ = core(tt_)
                    if ct_[0] == 'bin' and ((ct_[1] in ('Gt', 'Ne') and pol_ and match(core(ct_[3]), Const(0))) or (ct_[1] == 'Ge' and pol_ and match(core(ct_[3]), Const(1))) or
                                            (ct_[1] == 'Eq' and not pol_ and match(core(ct_[3]), Const(0)))) and nosite(core(ct_[2])) == nosite(c):
                        guarded = True
            if guarded:
                clamped = True
            ctx.require(clamped, b, 'divisor-clamped|' + fn.rsplit('::', 1)[-1],
                        '%s: normalising length is clamped with .max(1)' % fn,
                        '%s divides by %s which is 0 for empty input: the result is NaN' % (fn, show_in(b, dv)), span)
            inner = c if guarded else (c[2][0] if clamped and not (c[2][0][0] == 'const') else (c[2][1] if clamped else c))
            if fn.endswith('::distance'):
                LEN1 = ('bin', 'Add', Call('CharString::len', ANY), Const(1))
                okl = match(inner, Call('Ord::max', Call('CharString::len', ANY), Call('CharString::len', ANY))) or \
                    match(core(init_value(b, inner)), ('bin', 'Sub', Call('max', Pred(lambda u: match(core(init_value(b, u)), LEN1)), Pred(lambda u: match(core(init_value(b, u)), LEN1))), Const(1)))
                ctx.require(okl, b, 'divisor-length|distance', 'distance normalises by max(|a|, |b|) in characters',
                            'distance normalises by %s' % show_in(b, inner), span)
            else:
                okl = match(inner, Call('CharString::len', ANY))
                ctx.require(okl, b, 'divisor-length|prefix', 'prefix_distance normalises by |a| in characters', None, span)
            # under `normalized`
            if len(defs) > 1:
                ok = any(pol is True and core(tt)[0] == 'arg' for tt, pol in alt.atoms) or any(pol is False and core(tt)[0] == 'un' and core(tt)[2][0] == 'arg' for tt, pol in alt.atoms)
                ctx.require(ok, b, 'divisor-flag|' + fn.rsplit('::', 1)[-1], 'the length divisor is used under `normalized`', None, span)
        # DP arguments
        if len(dps) == 1:
            a = [core(x) for x in args_of(b, dps[0])]
            ok = match(a[0], Call('CharString::new', ('arg', 1, ANY), ('arg', 3, ANY))) and match(a[1], Call('CharString::new', ('arg', 2, ANY), ('arg', 3, ANY))) \
                and match(a[2], ('arg', 4, ANY)) and match(a[3], ('arg', 5, ANY))
            ctx.require(ok, b, 'dp-args|' + fn.rsplit('::', 1)[-1], '%s runs the DP on CS(a), CS(b) with the caller\'s flags' % fn, None, dps[0].span)
    # prefix row
    b = ctx.body('edit::prefix_distance')
    idx = [t for t in b.calls(r'ops::Index>::index$')]
    ok = False
    for t in idx:
        r = core(sym(b, t.args[1]))
        if r[0] == 'agg' and (r[2].endswith('Range::Range') or r[2].endswith('RangeFrom::RangeFrom')):
            lo = r[3][0]
            hi = r[3][1] if len(r[3]) > 1 else None
            xa = [y for y in walk(lo) if isinstance(y, tuple) and y and match(y, Call('CharString::len', Call('CharString::new', ('arg', 1, ANY), ANY)))]
            xb = [y for y in walk(lo) if isinstance(y, tuple) and y and match(y, Call('CharString::len', Call('CharString::new', ('arg', 2, ANY), ANY)))]
            if xa and xb:
                pa, pcols = poly.poly(xa[0]), poly._add(poly.poly(xb[0]), {(): 1}, 1)
                ok = poly.poly(lo) == poly._mul(pa, pcols) and (hi is None or poly.poly(hi) == poly._mul(poly._add(pa, {(): 1}, 1), pcols))
    if not ok:
        # the last row as the last `cols` cells of the matrix: d.iter().rev().take(cols)
        for t in b.calls(r'Iterator::take$'):
            src_ = core(sym(b, t.args[0]))
            k_ = core(init_value(b, sym(b, t.args[1])))
            if match(src_, Call('Iterator::rev', ANY)) and match(k_, ('bin', 'Add', Call('CharString::len', Call('CharString::new', ('arg', 2, ANY), ANY)), Const(1))):
                ok = True
    ctx.require(ok, b, 'prefix-row', 'prefix_distance takes the minimum over the last row d[|a|*cols .. (|a|+1)*cols]', None)


@rule('C12', 'R-C12-2', 'T14 RECURRENCE',
      'the DP cell d[i][j] is the minimum (first minimum, compared on the cost component) of: d[i-1][j]+1 Delete, d[i][j-1]+1 '
      'Insert, d[i-1][j-1] Keep if a_i == b_j, d[i-1][j-1]+1 Replace if a_i != b_j and (not sido or neither is whitespace), '
      'd[i-2][j-2]+1 Swap if with_swap, i>1, j>1, a_i == b_{j-1}, a_{i-1} == b_j and (not sido or neither swapped char is '
      'whitespace); first row/column are 0..n; the op matrix records the chosen candidate')
def r2(ctx):
    info = dp_info(ctx)
    b = info.b
    ctx.require(info.cols_ok, b, 'cols', 'cols = |b| + 1', None)
    # loop sources
    oka = match(core(info.src_a), Call('Iterator::enumerate', Pred(lambda u: has(u, Call('CharString::chars', ('arg', 1, ANY))))))
    okb = match(core(init_value(b, info.src_b)), Call('Iterator::enumerate', Pred(lambda u: has(u, Call('CharString::chars', ('arg', 2, ANY))))))
    ctx.require(oka and okb, b, 'loops', 'outer loop enumerates the characters of a, inner loop those of b', 'loops iterate %s / %s' % (
        show_in(b, info.src_a), show_in(b, info.src_b)))
    a_ch = nosite(core(('field', info.a_item, 1)))
    b_ch = nosite(core(('field', info.b_item, 1)))
    # target store d[TARGET] = min.0 ; ops[TARGET] = min.1
    sel = nosite(sym(b, info.min.dest))
    tgt = {}
    for s, t, v in _stores(b, info.inner.blocks):
        ct = core(t)
        if ct[0] == 'index' and ct[1][0] == 'var' and _role(ct[1][2]) in ('d', 'ops'):
            cv = core(v)
            if has(cv, Pred(lambda u: nosite(u) == nosite(core(sel)))):
                tgt[_role(ct[1][2])] = (s, ct, cv)
    if 'd' not in tgt or 'ops' not in tgt:
        raise AnchorMissing('stores d[i*cols+j] = min_cost / ops[i*cols+j] = min_op')
    target = tgt['d'][1][2]
    pt = _idx_poly(info, target)
    # (a_idx+1)*cols + b_idx + 1
    want = poly._add(poly._add(poly._mul(poly._add(poly.var(info.ka), poly.const(1), 1), info.cols_poly), poly.var(info.kb), 1), poly.const(1), 1)
    ctx.require(pt == want, b, 'target-cell', 'the cell written is d[(a_idx+1)*cols + (b_idx+1)]', 'target index polynomial is %s' % pt, tgt['d'][0].span)
    ctx.require(poly.sub(_idx_poly(info, tgt['ops'][1][2]), pt) == {}, b, 'target-op-cell', 'ops is written at the same cell', None, tgt['ops'][0].span)
    ctx.require(match(tgt['d'][2], ('field', ANY, 0)) and match(tgt['ops'][2], ('field', ANY, 1)), b, 'target-components',
                'd gets the cost component, ops the operation component of the selected candidate', None)
    # candidates: tuple aggregates (cost, EditOp::X) inside the inner loop
    cands = []
    z = symbolizer(b)
    for s in b.stmts():
        if s.bb not in info.inner.blocks or s.kind != 'assign' or s.rv.kind != 'agg' or s.rv.agg != 'tuple' or len(s.rv.ops) != 2:
            continue
        t = simplify(z.rvalue(s.rv, 0, ()))
        opn = t[3][1]
        if opn[0] == 'agg' and '::EditOp::' in opn[2]:
            cands.append((s, core(t[3][0]), opn[2].rsplit('::', 1)[-1]))
    names = sorted(c[2] for c in cands)
    ctx.require(names == ['Delete', 'Insert', 'Keep', 'Replace', 'Swap'], b, 'candidate-set', 'candidates: Delete, Insert, Keep, Replace, Swap',
                'candidates found: %s' % names)
    ref = {'Delete': ((-1, 0), 1), 'Insert': ((0, -1), 1), 'Keep': ((-1, -1), 0), 'Replace': ((-1, -1), 1), 'Swap': ((-2, -2), 1)}
    entry = info.nx_b.target
    some_b = [tg for (val, tg) in b.blocks[info.nx_b.target].term.arms if val == 1]
    entry = some_b[0] if some_b else entry

    def edges(pred):
        return [(g.block, g.target) for g in edge_guards(b) if g.block in info.inner.blocks and pred(g)]

    def is_ws_of(u, classes):
        return u[0] == 'call' and u[1] == WS and any(nosite(core(u[2][0])) == c for c in classes)

    def flag_table_guards():
        """guards of the cell loop that read a precomputed Vec<bool> (`a_space[a_idx]`): the whitespace test was moved into a table"""
        out = []
        for g in edge_guards(b):
            t_ = core(g.atom()[0])
            if g.block in info.inner.blocks and t_[0] == 'index' and core(t_[1])[0] in ('var', 'field') and g.atom()[1] is not None:
                base = core(t_[1])
                while base[0] == 'field':
                    base = core(base[1])
                if base[0] in ('var', 'phi'):
                    out.append(g)
        return out

    i_poly = poly._add(poly.var(info.ka), poly.const(1), 1)
    j_poly = poly._add(poly.var(info.kb), poly.const(1), 1)

    def chars_at(vec_arg, which_poly, k):
        """tree class of a_chars[i-k-1+...]: index into the collected chars with polynomial idx == which - k"""
        def f(u):
            if u[0] != 'index':
                return False
            base = core(init_value(b, u[1]))
            if not has(base, Call('CharString::chars', ('arg', vec_arg, ANY))):
                return False
            return poly.sub(poly.poly(u[2]), which_poly) == poly.const(-k)
        return f
    for s, cost, name in cands:
        if name not in ref:
            continue
        (di, dj), add = ref[name]
        c = cost
        got_add = 0
        if c[0] == 'bin' and c[1] == 'Add' and c[3][0] == 'const':
            got_add = c[3][2]
            c = c[2]
        elif c[0] == 'bin' and c[1] == 'Add' and c[2][0] == 'const':
            got_add = c[2][2]
            c = c[3]
        rel = None
        if c[0] == 'index' and c[1][0] == 'var' and _role(c[1][2]) == 'd':
            rel = _rel(info, c[2], target)
        ctx.require(rel == (di, dj) and got_add == add, b, 'candidate|' + name,
                    '%s: cost d[i%+d][j%+d] + %d' % (name, di, dj, add),
                    '%s: cost is d[i%s][j%s] + %d (expected d[i%+d][j%+d] + %d)' % (
                        name, '%+d' % rel[0] if rel else '?', '%+d' % rel[1] if rel else '?', got_add, di, dj, add), s.span)
        # guards
        atoms = [(core(t), pol) for t, pol, g in atoms_at(b, s.bb)]
        if name == 'Keep':
            ok = any(pol is True and t[0] == 'bin' and t[1] == 'Eq' and {nosite(t[2]), nosite(t[3])} == {a_ch, b_ch} for t, pol in atoms)
            ctx.require(ok, b, 'guard|Keep', 'Keep only if a_i == b_j', None, s.span)
        elif name == 'Replace':
            ok = any(pol is False and t[0] == 'bin' and t[1] == 'Eq' and {nosite(t[2]), nosite(t[3])} == {a_ch, b_ch} for t, pol in atoms)
            ctx.require(ok, b, 'guard|Replace-neq', 'Replace only if a_i != b_j', None, s.span)
            sido_f = edges(lambda g: g.atom()[1] is False and match(g.atom()[0], ('arg', 4, ANY)))
            wa = edges(lambda g: g.atom()[1] is False and is_ws_of(core(g.atom()[0]), [a_ch]))
            wb = edges(lambda g: g.atom()[1] is False and is_ws_of(core(g.atom()[0]), [b_ch]))
            ok = bool(sido_f) and bool(wa) and bool(wb) and cfg.must_pass(b, entry, s.bb, via_edges=sido_f + wa) and \
                cfg.must_pass(b, entry, s.bb, via_edges=sido_f + wb)
            if not ok and not (wa or wb) and flag_table_guards():
                raise AnchorMissing('the whitespace tests of the Replace candidate (the cell loop branches on a precomputed boolean table instead of Character::is_whitespace)')
            ctx.require(ok, b, 'guard|Replace-ws', 'Replace under spaces_insert_delete_only only if neither a_i nor b_j is whitespace',
                        'Replace can substitute a whitespace character although spaces_insert_delete_only is set', s.span)
        elif name == 'Swap':
            ok = any(pol is True and match(t, ('arg', 3, ANY)) for t, pol in atoms)
            ctx.require(ok, b, 'guard|Swap-flag', 'Swap only if with_swap', None, s.span)
            gi = any(pol is True and t[0] == 'bin' and t[1] == 'Gt' and poly.poly(t[2]) == i_poly and t[3][0] == 'const' and t[3][2] == 1 for t, pol in atoms)
            gj = any(pol is True and t[0] == 'bin' and t[1] == 'Gt' and poly.poly(t[2]) == j_poly and t[3][0] == 'const' and t[3][2] == 1 for t, pol in atoms)
            ctx.require(gi and gj, b, 'guard|Swap-bounds', 'Swap only if i > 1 and j > 1', None, s.span)
            prev_b = chars_at(2, j_poly, 2)   # b_chars[j-2]
            prev_a = chars_at(1, i_poly, 2)   # a_chars[i-2]
            e1 = any(pol is True and t[0] == 'bin' and t[1] == 'Eq' and ((nosite(t[2]) == a_ch and prev_b(t[3])) or (nosite(t[3]) == a_ch and prev_b(t[2]))) for t, pol in atoms)
            e2 = any(pol is True and t[0] == 'bin' and t[1] == 'Eq' and ((nosite(t[2]) == b_ch and prev_a(t[3])) or (nosite(t[3]) == b_ch and prev_a(t[2]))) for t, pol in atoms)
            ctx.require(e1 and e2, b, 'guard|Swap-match', 'Swap only if a_i == b_{j-1} and a_{i-1} == b_j', None, s.span)
            sido_f = edges(lambda g: g.atom()[1] is False and match(g.atom()[0], ('arg', 4, ANY)))

            def ws_false_of(cls_pred):
                return edges(lambda g: g.atom()[1] is False and core(g.atom()[0])[0] == 'call' and core(g.atom()[0])[1] == WS and cls_pred(core(core(g.atom()[0])[2][0])))
            # the two swapped characters of a are a_i (== b_{j-1}) and a_{i-1} (== b_j)
            w1 = ws_false_of(lambda u: nosite(u) == a_ch or prev_b(u))
            w2 = ws_false_of(lambda u: nosite(u) == b_ch or prev_a(u))
            ok = bool(sido_f) and bool(w1) and bool(w2) and cfg.must_pass(b, entry, s.bb, via_edges=sido_f + w1) and \
                cfg.must_pass(b, entry, s.bb, via_edges=sido_f + w2)
            if not ok and not (w1 or w2) and flag_table_guards():
                raise AnchorMissing('the whitespace tests of the Swap candidate (the cell loop branches on a precomputed boolean table instead of Character::is_whitespace)')
            ctx.require(ok, b, 'guard|Swap-ws', 'Swap under spaces_insert_delete_only only if neither swapped character is whitespace',
                        'under spaces_insert_delete_only a transposition that involves a whitespace character is still accepted '
                        '(one of the two swapped characters is never tested)', s.span)
        else:
            # Delete / Insert are unconditional: they belong to the initial vec![] of every cell
            ok = all(cfg.must_pass(b, entry, l, via_blocks=[s.bb]) for l in info.inner.latches)
            ctx.require(ok, b, 'unconditional|' + name, '%s is a candidate of every cell' % name, None, s.span)
    # selector
    ok = (info.min.callee_res() or '').endswith('Iterator::min_by')
    if ok:
        clo = closure_of(ctx, sym(b, info.min.args[1]))
        rv = ret_values(clo)
        ok = len(rv) == 1 and match(core(rv[0][0]), Call('cmp', ('field', ('arg', 2, ANY), 0), ('field', ('arg', 3, ANY), 0)))
    ctx.require(ok, b, 'selector', 'selection = min_by(|x, y| x.cost.cmp(y.cost)) over the candidate list', None, info.min.span)
    # initialisation
    init = {}
    for s, t, v in _stores(b):
        ct = core(t)
        if s.bb in info.outer.blocks or not (ct[0] == 'index' and ct[1][0] == 'var' and _role(ct[1][2]) == 'd'):
            continue
        init[repr(poly.poly(ct[2]))] = (s, ct, core(v))
    vals = list(init.values())
    z0 = [x for x in vals if poly.poly(x[1][2]) == {} and x[2][0] == 'const' and x[2][2] == 0]
    ctx.require(len(z0) == 1, b, 'init-origin', 'd[0] = 0', None)
    col = [x for x in vals if x not in z0 and poly.poly(x[1][2]) == poly._mul(poly.poly(x[2]), info.cols_poly)]
    okc = len(col) == 1
    ctx.require(okc, b, 'init-column', 'd[i*cols] = i for i in 1..=|a|', None)
    row = [x for x in vals if x not in col and x not in z0]
    okr = len(row) == 1 and poly.poly(row[0][1][2]) == poly.poly(row[0][2])
    ctx.require(okr, b, 'init-row', 'd[j] = j for j in 1..=|b|', None)
    for x, which, arg in ((col, 'column', 1), (row, 'row', 2)):
        if len(x) == 1:
            lp = cfg.innermost_loop(b, x[0][0].bb)
            nx = [t for t in b.calls(r'::next$') if lp and t.bb in lp.blocks]
            from rules.common import range_bounds
            src = loop_source(b, nx[0]) if nx else None
            rb = None
            for x_ in walk(src) if src is not None else ():
                if isinstance(x_, tuple) and x_:
                    rb = range_bounds(x_)
                    if rb is not None:
                        break
            ok = False
            if rb is not None and rb[0] == 1 and not isinstance(rb[1], int):
                # upper bound (exclusive) = len + 1, however it is spelled (1..=len, 1..len + 1, 1..rows with rows = len + 1)
                lens = [y for y in walk(rb[1]) if isinstance(y, tuple) and y and match(core(y), Call('CharString::len', ('arg', arg, ANY)))]
                ok = bool(lens) and poly.poly(rb[1]) == poly._add(poly.poly(lens[0]), {(): 1}, 1)
            ctx.require(ok, b, 'init-range|' + which, 'the %s initialisation runs over 1..=len' % which,
                        'the %s initialisation runs over %s' % (which, show_in(b, src)[:100] if src is not None else 'an unrecognised range'))
    rv = ret_values(b)
    ok = len(rv) == 1 and match(core(rv[0][0]), ('agg', 'tuple', '', (_var('d'), _var('ops'))))
    ctx.require(ok, b, 'result', 'returns (d, ops)', None)


@rule('C12', 'R-C12-3', 'T13 PAIR (backtrace)',
      'operations(): from (|a|, |b|), each recorded op moves (i, j) by Keep (1,1), Insert (0,1), Delete (1,0), Replace (1,1), '
      'Swap (2,2); every op except Keep pushes (the matching EditOperation, i, j) with the decremented positions; the list is '
      'reversed once; the loop runs while i > 0 || j > 0')
def r3(ctx):
    b = ctx.body('edit::operations')
    _roles_bt(b)
    pushes = [t for t in b.calls(r'Vec::push$')]
    if not pushes:
        raise AnchorMissing('pushes of the backtrace')
    loop = cfg.innermost_loop(b, pushes[0].bb)
    if loop is None:
        raise AnchorMissing('backtrace loop')
    table = {'Keep': (1, 1, None), 'Insert': (0, 1, 'Insert'), 'Delete': (1, 0, 'Delete'), 'Replace': (1, 1, 'Replace'), 'Swap': (2, 2, 'Swap')}
    from rules.common import iteration_table
    rows = iteration_table(b, loop, {'i': R['i'], 'j': R['j']})
    if rows is None:
        raise AnchorMissing('paths of the backtrace loop (too many)')
    iv, jv = ('var', b.var_name(R['i']) or '', R['i']), ('var', b.var_name(R['j']) or '', R['j'])
    byname = {}
    for r in rows:
        cell = [n for t, n in r['variants'] if len(n) == 1 and list(n)[0] in table or list(n)[0:1] == ['None']]
        names = [list(n)[0] for t, n in r['variants'] if len(n) == 1 and list(n)[0] in table and peel(t)[0] in ('index', 'call', 'unwrap', 'field')]
        if names:
            byname.setdefault(names[0], []).append(r)
    for name, (di, dj, pushed) in table.items():
        rs = byname.get(name)
        if not rs:
            ctx.fail(b, 'arm-missing|' + name, 'backtrace has no path for EditOp::%s' % name)
            continue
        steps = {(r['delta']['i'], r['delta']['j']) for r in rs}
        ctx.require(steps == {(-di, -dj)}, b, 'step|' + name, '%s moves (i, j) by (-%d, -%d)' % (name, di, dj),
                    '%s moves (i, j) by %s (expected (-%d, -%d))' % (name, sorted(steps, key=str), di, dj))
        okp = True
        shown = []
        for r in rs:
            ps = [(t, a) for t, a in r['calls'] if (t.callee_res() or '').endswith('Vec::push')]
            shown += [show_in(b, a[1])[:80] for t, a in ps]
            if pushed is None:
                okp = okp and not ps
                continue
            if len(ps) != 1:
                okp = False
                continue
            v = peel(ps[0][1][1])
            okp = okp and v[0] == 'agg' and len(v[3]) == 3 and core(v[3][0])[0] == 'agg' and core(v[3][0])[2].endswith('EditOperation::' + pushed) and \
                poly.poly(v[3][1]) == poly._add(poly.poly(iv), {(): di}, -1) and poly.poly(v[3][2]) == poly._add(poly.poly(jv), {(): dj}, -1)
        ctx.require(okp, b, 'push|' + name, ('%s pushes nothing' % name) if pushed is None else '%s pushes (EditOperation::%s, i, j) with the decremented positions' % (name, pushed),
                    '%s pushes %s' % (name, sorted(set(shown))))
    # loop condition: left exactly when i == 0 and j == 0
    ok = False
    for (u, w) in loop.exits(b):
        at = [(core(t), pol) for t, pol, g in atoms_at(b, w)]
        zero = lambda vv: any((pol is False and match(t, ('bin', 'Gt', _var(vv), Const(0)))) or (pol is True and match(t, ('bin', 'Eq', _var(vv), Const(0)))) or
                              (pol is False and match(t, ('bin', 'Ne', _var(vv), Const(0)))) for t, pol in at)
        if zero('i') and zero('j'):
            ok = True
    ctx.require(ok, b, 'loop-condition', 'the backtrace runs while i > 0 || j > 0', None)
    inits = {}
    for nm in ('i', 'j'):
        for site, v in local_defs(b, R[nm]):
            if site.bb not in loop.blocks:
                inits[nm] = core(v)
    ok = match(inits.get('i', ()), Call('CharString::len', Call('CharString::new', ('arg', 1, ANY), ANY))) and \
        match(inits.get('j', ()), Call('CharString::len', Call('CharString::new', ('arg', 2, ANY), ANY)))
    ctx.require(ok, b, 'start', 'the backtrace starts at (|a|, |b|)', 'starts at %s' % {k: show_in(b, v) for k, v in inits.items()})
    # cell read: ops[i*cols + j], cols = |b| + 1
    reads = [t for t in b.calls(r'ops::Index>::index$') if t.bb in loop.blocks]
    ok = False
    for t in reads:
        p = poly.poly(core(sym(b, t.args[1])))
        for m in p:
            pass
        c = core(sym(b, t.args[1]))
        ok = ok or match(c, ('bin', 'Add', ('bin', 'Mul', _var('i'), ('bin', 'Add', Call('CharString::len', Call('CharString::new', ('arg', 2, ANY), ANY)), Const(1))), _var('j')))
    ctx.require(ok, b, 'cell', 'the op read is ops[i * (|b|+1) + j]', None)
    rev = [t for t in b.calls(r'slice::reverse$')]
    ok = len(rev) == 1 and rev[0].bb not in loop.blocks and all(cfg.must_pass(b, w, r, via_blocks=[rev[0].bb]) for (u, w) in loop.exits(b) for r in b.returns)
    ctx.require(ok, b, 'reverse-once', 'the collected operations are reversed once after the loop (script sorted by position)',
                'found %d reverse calls' % len(rev))
    dps = [t for t in b.calls(DP + '$')]
    ok = len(dps) == 1
    if ok:
        a = [core(x) for x in args_of(b, dps[0])]
        ok = match(a[0], Call('CharString::new', ('arg', 1, ANY), ('arg', 3, ANY))) and match(a[1], Call('CharString::new', ('arg', 2, ANY), ('arg', 3, ANY))) \
            and match(a[2], ('arg', 4, ANY)) and match(a[3], ('arg', 5, ANY))
    ctx.require(ok, b, 'dp-args', 'operations() backtraces the DP of (a, b) with the caller\'s flags', None)


@rule('C12', 'R-C12-4', 'T11 SIBLING (one segmentation)',
      'every CharString::new of the edit distance code receives the caller\'s grapheme flag unchanged (a parameter, configuration field or '
      'captured variable): a site that "optimises" the flag (e.g. `use_graphemes && !s.is_ascii()`) segments "\\r\\n" and friends '
      'differently from the sites it must agree with')
def r_segflag(ctx):
    from rules.common import check_segmentation_flag
    n = check_segmentation_flag(ctx, [ctx.body(n) for n in ['edit::distance', 'edit::operations', 'edit::prefix_distance']], 'edit distance')
    if n == 0:
        raise AnchorMissing('CharString::new sites of the edit distance code')


@rule('C12', 'R-C12-5', 'prerequisite (the segmentation primitive)',
      'CharString::new segments by graphemes(true) / chars() selected by the flag alone and keeps byte lengths at full width '
      '(R-C11-6 re-evaluated): every index, length and range of this property is counted in its characters')
def r_charstring(ctx):
    from rules import c11
    c11.charstring_primitive(ctx)


@rule('C12', 'R-C12-6', 'prerequisite (the whitespace predicate of the restricted alignment)',
      'Character::is_whitespace -- consulted by the DP under spaces_insert_delete_only to forbid substitutions and swaps of whitespace -- is '
      '"every code point is Unicode White_Space" (R-C11-1 re-evaluated): a predicate that looks at the first code point only classifies the cluster '
      '" \\u{301}" as whitespace, the reference metric allows substituting it, and the computed distance is too large')
def r_wspred(ctx):
    from rules import c11
    c11.r1(ctx)


@rule('C12', 'R-C12-7', 'T11 SIBLING (the Python encoding of an edit operation: writer and reader agree)',
      'EditOperation::into_pyobject writes "i" / "d" / "r" / "s" and extract_bound reads each back as the same variant: the script operations() hands '
      'to Python names the operations that were computed')
def r7(ctx):
    from rules.common import py_encoding_agrees
    py_encoding_agrees(ctx, 'edit::EditOperation', {'Insert', 'Delete', 'Replace', 'Swap'})


@rule('C12', 'R-C12-8', 'T15 TYPE (costs and positions keep their width)',
      'no length, position or cost of the edit-distance functions is narrowed (`as u16`, `as u32`, ...): the first row / column hold 0..n, so a cell '
      'type narrower than usize truncates silently for long inputs while operations(), which only reads the op matrix, still returns the full script')
def r8(ctx):
    from rules.common import narrowing_casts, closures_in
    n = 0
    for fn in ('edit::_calculate_edit_matrices', 'edit::distance', 'edit::prefix_distance', 'edit::operations'):
        x0 = ctx.body(fn)
        for x in [x0] + closures_in(ctx, x0):
            ctx.stats['bodies_inspected'].add(x.path)
            for s_, f_, t_ in narrowing_casts(x):
                if s_.span['exp']:
                    continue
                n += 1
                ctx.fail(x, 'narrowing|%s->%s' % (f_, t_), '%s narrows a %s to %s at line %d: distances and positions above %s wrap around, distance() no longer equals the length of '
                         'the script operations() returns' % (fn, f_, t_, s_.span['line'], t_), s_.span)
    ctx.ok(None, 'no narrowing integer cast in the edit-distance functions (%d found)' % n)
