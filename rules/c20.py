"""C20 Dictionary creation counts exactly, keeps the top entries, for any thread count."""
import re
from analysis.engine import rule, AnchorMissing
from analysis import cfg
from analysis.facts import norm_path, Operand
from analysis.sym import sym, show_in, nosite, peel, core, walk, ret_values, args_of, guards_at, atoms_at, \
    variant_facts_at, cmp_facts_at, init_value, edge_guards, symbolizer, simplify, loop_source, defs_of, var_defs, agg_field, const_str
from analysis.pat import match, Call, Cap, ANY, Pred, Const, has, chain_names
from rules.common import closure_of, closures_in, state_locals, local_defs, V
from rules import pipe

D = 'dictionary::Dictionary::'


R = {}


def _var(name):
    """role based (never the debug name): R maps a role to the local chosen by type / structure"""
    return Pred(lambda t: isinstance(t, tuple) and t and t[0] == 'var' and len(t) > 2 and R.get(name) == t[2])


def _one(b, ty, what):
    c = state_locals(b, ty)
    if len(c) != 1:
        raise AnchorMissing('%s (mutable local of type %s): found %d' % (what, ty, len(c)))
    return c[0]


def N(b, name):
    d = [nosite(core(v)) for site, v in var_defs(b, name)]

    def f(t):
        if t[0] == 'var' and t[1] == name:
            return True
        ct = nosite(core(t))
        return any(ct == x for x in d)
    return Pred(f)


def _is_sentinel(t):
    """value is `opt.unwrap_or(usize::MAX)` (the "unlimited" sentinel)"""
    return any(isinstance(x, tuple) and x and x[0] == 'call' and x[1].endswith('Option::unwrap_or') and len(x[2]) == 2 and
               ('MAX' in repr(x[2][1]) or (x[2][1][0] == 'const' and x[2][1][2] is not None and x[2][1][2] >= 2 ** 63)) for x in walk(t))


@rule('C20', 'R-C20-1', 'T4c GUARD (unlimited sentinel)',
      'the `None -> usize::MAX` sentinels of max_size / max_sequences reach neither an allocation capacity nor a checked '
      'addition / multiplication (an absent limit means unlimited, not a failure)')
def r1(ctx):
    b = ctx.body(D + 'create')
    sent = [t for t in b.calls(r'Option::unwrap_or$') if _is_sentinel(sym(b, t.dest))]
    if len(sent) < 2:
        raise AnchorMissing('the unwrap_or(usize::MAX) sentinels of max_size / max_sequences (found %d)' % len(sent))
    for t in b.calls(r'::with_capacity$|::reserve$|::reserve_exact$|vec::from_elem$'):
        bad = [a for a in args_of(b, t) if _is_sentinel(a)]
        ctx.require(not bad, b, 'sentinel-capacity|' + (t.callee_res() or '').rsplit('::', 2)[-2], '%s at line %d does not take the sentinel as capacity' % (t.callee_res(), t.span['line']),
                    '%s(%s) at line %d: with max_size = None this asks for usize::MAX capacity (capacity overflow panic)' % (
                        t.callee_res(), show_in(b, bad[0]) if bad else '', t.span['line']), t.span)
    n = 0
    for t in b.terms('assert'):
        if t.msg['k'] != 'overflow' or t.span['exp']:
            continue
        n += 1
        ops = [sym(b, Operand(t.msg['a'])), sym(b, Operand(t.msg['b']))]
        bad = [o for o in ops if _is_sentinel(o)]
        ctx.require(not bad, b, 'sentinel-arith|' + t.msg.get('op', ''), 'checked %s at line %d does not involve the sentinel' % (t.msg.get('op'), t.span['line']),
                    'checked %s at line %d operates on the usize::MAX sentinel: overflow panic when the limit is absent' % (t.msg.get('op'), t.span['line']), t.span)
    ctx.ok(b, 'sentinels: %d, capacity calls and %d checked operations inspected' % (len(sent), n))


@rule('C20', 'R-C20-2', 'T15/T13 (top-k heap)',
      'the entries kept are selected with a min-heap of Reverse((freq, word)): push every entry, pop the smallest only when '
      'the heap holds more than max_size entries (strict >), then move everything that is left into the result')
def r2(ctx):
    b = ctx.body(D + 'create')
    R.clear()
    R['inner'] = _one(b, r'^std::collections::HashMap<std::string::String, usize>$', 'result map')
    pushes = [t for t in b.calls(r'BinaryHeap::push$')]
    if len(pushes) != 1:
        raise AnchorMissing('heap.push in Dictionary::create')
    p = pushes[0]
    v = core(sym(b, p.args[1]))
    lp = cfg.innermost_loop(b, p.bb)
    nx = [t for t in b.calls(r'::next$') if lp and t.bb in lp.blocks]
    item = ('unwrap', nosite(sym(b, nx[0].dest))) if nx else None
    ok = item is not None and match(v, ('agg', 'adt', Pred(lambda n: n.endswith('Reverse::Reverse')), (('agg', 'tuple', '', (
        Pred(lambda u: nosite(core(u)) == nosite(core(('field', item, 1)))), Pred(lambda u: nosite(core(u)) == nosite(core(('field', item, 0)))))),)))
    ctx.require(ok, b, 'heap-entry', 'heap entries are Reverse((freq, word)): the least frequent entry is on top', 'heap entry is %s' % show_in(b, v), p.span)
    src = core(loop_source(b, nx[0])) if nx else ()
    ctx.require(has(src, Call('fold', ANY, ANY, ANY)), b, 'heap-source', 'every counted entry is pushed', None)
    # the selection uses the TOTAL order of the entries (freq, then word): a shortcut that compares the frequency component with the
    # heap top decides ties by arrival order, i.e. by the iteration order of the merged HashMap -- different from call to call
    for g in edge_guards(b):
        t_, pol_ = g.atom()
        c_ = peel(t_)
        if pol_ is None or lp is None or g.block not in lp.blocks or c_[0] != 'bin' or c_[1] not in ('Lt', 'Le', 'Gt', 'Ge', 'Eq', 'Ne'):
            continue
        # a comparison of whole entries is a PartialOrd call on the tuple / Reverse; a component comparison is a primitive integer comparison
        sw = b.blocks[g.block].term
        prim = True
        if sw.kind == 'switch' and sw.discr.place is not None and not sw.discr.place.proj:
            dw, dp = defs_of(b, sw.discr.place.local)
            prim = not any(not hasattr(d_, 'rv') for d_ in dw)     # defined by a call (PartialOrd::lt ..) -> compound operands
        if not prim:
            continue
        if any(has(init_value(b, x), Call('BinaryHeap::peek', ANY)) or has(init_value(b, x), Call('BinaryHeap::peek_mut', ANY)) or
               has(x, Call('BinaryHeap::peek', ANY)) or has(x, Call('BinaryHeap::peek_mut', ANY)) for x in (c_[2], c_[3])):
            ctx.fail(b, 'selection-total-order', 'Dictionary::create compares a component of the heap top (`%s`, line %d) instead of whole entries: among equally frequent '
                     'words the ones kept depend on the order in which the merged HashMap is iterated, which differs from call to call and between thread counts'
                     % (show_in(b, t_)[:100], b.blocks[g.block].term.span['line']), b.blocks[g.block].term.span)
    pops = [t for t in b.calls(r'BinaryHeap::pop$')]
    inl = [t for t in pops if lp and t.bb in lp.blocks]
    pk = [t for t in b.calls(r'BinaryHeap::peek_mut$') if lp and t.bb in lp.blocks]
    if not inl and len(pk) == 1:
        # bounded form: push while the heap holds fewer than max_size entries, otherwise overwrite the top (the smallest kept entry) in place
        # when the new entry ranks higher -- the same max_size largest entries under the total order (the comparison is checked above)
        from analysis.pat import holds
        room = holds(b, p.bb, ('bin', 'Lt', Call('BinaryHeap::len', ANY), Pred(lambda u: _is_sentinel(u) and has(u, ('arg', 2, ANY)))))
        wr = [s_ for s_ in b.stmts() if s_.kind == 'assign' and s_.lhs.proj and s_.bb in lp.blocks and has(sym(b, s_.lhs), Call('PeekMut', ANY)) or
              (s_.kind == 'assign' and s_.lhs.proj and s_.bb in lp.blocks and has(init_value(b, sym(b, s_.lhs)), Call('BinaryHeap::peek_mut', ANY)))]
        ctx.require(room and bool(wr), b, 'evict-strict', 'an entry is pushed only while heap.len() < max_size, otherwise it can only replace the top in place (max_size entries are kept)',
                    'bounded heap form: push under room = %s, in-place replacements of the top: %d' % (room, len(wr)), p.span)
        ok = None
    else:
        ok = len(inl) == 1
    if ok:
        at = [(core(tt), pol) for tt, pol, g in atoms_at(b, inl[0].bb)]
        ok = any(pol is True and match(tt, ('bin', 'Gt', Call('BinaryHeap::len', ANY), Pred(lambda u: _is_sentinel(u) and has(u, ('arg', 2, ANY))))) for tt, pol in at)
    if ok is not None:
        ctx.require(ok, b, 'evict-strict', 'an entry is evicted only under heap.len() > max_size (max_size entries are kept)',
                    'eviction condition is not the strict heap.len() > max_size')
        ctx.require(lp is not None and cfg.dominates(b, p.bb, inl[0].bb) if inl else False, b, 'push-then-evict', 'push first, then evict the smallest', None)
    drain = [t for t in pops if t not in inl]
    ok = len(drain) == 1
    if ok:
        dl = cfg.innermost_loop(b, drain[0].bb)
        ins = [t for t in b.calls(r'HashMap::insert$') if dl and t.bb in dl.blocks]
        popped = ('unwrap', nosite(sym(b, drain[0].dest)))
        ok = dl is not None and len(ins) == 1 and nosite(core(sym(b, ins[0].args[1]))) == nosite(core(('field', ('field', popped, 0), 1))) and \
            nosite(core(sym(b, ins[0].args[2]))) == nosite(core(('field', ('field', popped, 0), 0)))
        # drain loop exits only on None
        if ok:
            ok = all(any(g.block == u and g.t[0] == 'discr' and nosite(g.t[1]) == nosite(sym(b, drain[0].dest)) for g in edge_guards(b)) for (u, w) in dl.exits(b))
    ctx.require(ok, b, 'drain', 'the remaining heap is drained completely into inner[word] = freq', None)
    rv = [v for v, blk in ret_values(b) if v[0] == 'agg' and v[2].endswith('Result::Ok')]
    ctx.require(len(rv) == 1 and match(core(rv[0][3][0]), Call('Dictionary::new', _var('inner'))), b, 'result', 'Ok(Dictionary::new(inner))', None)
    nw = ctx.body(D + 'new')
    rvn = ret_values(nw)
    from analysis.reduce import reduce_of
    from analysis.seq import ITEM, unhash as _unhash
    ok = len(rvn) == 1 and rvn[0][0][0] == 'agg' and match(core(agg_field(ctx.facts, rvn[0][0], 'inner')), ('arg', 1, ANY))
    if ok:
        rd = reduce_of(ctx.facts, nw, agg_field(ctx.facts, rvn[0][0], 'freq_sum'))
        ok = rd is not None and rd.op == 'add' and rd.init is not None and match(core(rd.init), Const(0)) and len(rd.segs) == 1 and rd.segs[0].kind == 'each' and \
            not rd.segs[0].conds and match(core(_unhash(rd.segs[0].src)), Call('HashMap::values', ('arg', 1, ANY))) and core(rd.segs[0].elem) == ITEM
    ctx.require(ok, nw, 'freq-sum', 'freq_sum = sum of the kept frequencies', None)


@rule('C20', 'R-C20-3', 'T2 CHAIN (first max_sequences lines)',
      'the shared line iterator is files.flat_map(lines).take(max_sequences) wrapped as a whole in the mutex: the cut is on the '
      'concatenated stream and is made under the lock')
def r3(ctx):
    b = ctx.body(D + 'create')
    mx = [t for t in b.calls(r'Mutex::new$')]
    if len(mx) != 1:
        raise AnchorMissing('Mutex::new in Dictionary::create')
    t = core(init_value(b, sym(b, mx[0].args[0])))
    e = {}
    ok = (match(t, Call('Iterator::take', Call('Iterator::flat_map', ANY, Cap('clo')), Cap('n')), e) or
          match(t, Call('Iterator::take', Call('Iterator::flatten', Call('Iterator::map', ANY, Cap('clo'))), Cap('n')), e)) and _is_sentinel(e['n']) and has(e['n'], ('arg', 3, ANY))
    ctx.require(ok, b, 'line-iterator', 'shared iterator = path_bufs.into_iter().flat_map(lines).take(max_sequences.unwrap_or(MAX))',
                'shared iterator is %s: the first-max_sequences cut is not part of the iterator protected by the mutex (workers racing on a separate '
                'counter count a different number of lines for different thread counts)' % show_in(b, t), mx[0].span)
    if ok:
        fobj = peel(e['clo'])
        if isinstance(fobj, tuple) and fobj and fobj[0] == 'fn':
            # the per-file step as a named function instead of a closure
            cands_ = [x for x in ctx.facts.bodies if norm_path(x.path) == norm_path(fobj[1])]
            if len(cands_) != 1:
                raise AnchorMissing('the per-file function `%s` of the line iterator' % fobj[1])
            clo = cands_[0]
        else:
            clo = closure_of(ctx, e['clo'])
        crv = ret_values(clo)
        ok2 = len(crv) == 1 and has(core(crv[0][0]), Call('BufRead::lines', ANY))
        ctx.require(ok2, clo, 'lines', 'each file contributes its lines in order', None)
        # ... ALL its lines: whatever drops or limits lines inside the per-file closure acts before the max_sequences cut, which then counts
        # other lines than the first max_sequences of the input (a blank-line filter reads past the prefix, into later files)
        from rules.common import closures_in as _cin
        for x in [clo] + _cin(ctx, clo):
            for t_ in x.calls(r'Iterator::(filter|skip|take|step_by|skip_while|take_while|filter_map)$|Itertools::(dedup|unique)\w*$'):
                nm = (t_.callee_res() or '').rsplit('::', 1)[-1]
                if nm == 'filter_map' and match(peel(sym(x, t_.args[1])), ('fn', Pred(lambda n: n.endswith('Result::ok')))):
                    continue
                ctx.fail(x, 'lines-selected-before-cut|' + nm, 'the lines of a file pass through `%s` (line %d) before the max_sequences cut: the cut no longer takes the '
                         'first max_sequences lines of the input' % (nm, t_.span['line']), t_.span)
    src = t
    ctx.require(has(src, ('arg', 1, ANY)), b, 'file-order', 'files are visited in the given order', None)


@rule('C20', 'R-C20-4', 'T5/T12 (workers and reducer)',
      'workers leave their loop only on exhaustion or a closed channel and send the counts of every pulled line; the '
      'reducer only adds per key and never removes or rewrites an entry')
def r4(ctx):
    b = ctx.body(D + 'create')
    sp = [t for t in b.calls(r'thread::Builder::spawn$|thread::spawn$')]
    if len(sp) != 1:
        raise AnchorMissing('worker spawn in Dictionary::create')
    w = closure_of(ctx, sym(b, sp[0].args[-1]))
    pull, send, loop = pipe.worker_exit_check(ctx, w, 'Dictionary::create worker')
    # worker count >= 1
    lp = cfg.innermost_loop(b, sp[0].bb)
    nx = [t for t in b.calls(r'::next$') if lp and t.bb in lp.blocks]
    src = core(loop_source(b, nx[0])) if nx else ()
    ok = has(src, ('agg', 'adt', Pred(lambda n: n.endswith('Range::Range')), (Const(0), Call('Ord::max', ANY, Const(1)))))
    ctx.require(ok, b, 'worker-count', 'at least one worker is spawned (0..num_threads.max(1))', 'workers: %s' % show_in(b, src))
    folds = [t for t in b.calls(r'::fold$') if has(sym(b, t.args[0]), Pred(lambda u: isinstance(u, tuple) and u and u[0] == 'call' and 'Receiver' in u[1]))]
    if len(folds) != 1:
        raise AnchorMissing('reducer fold over the receiver')
    fc = closure_of(ctx, sym(b, folds[0].args[2]))
    acc_calls = [t for t in fc.terms('call') if t.args and t.args[0].place is not None and fc.local_ty(t.args[0].place.local).startswith('&mut') and
                 match(core(sym(fc, t.args[0])), Pred(lambda u: u[0] in ('arg', 'var') and (u[1] == 2 or (u[0] == 'var' and u[1] == 'acc'))))]
    bad = [t for t in acc_calls if not re.search(r'HashMap::entry$|HashMap::get_mut$|HashMap::insert$', t.callee_res() or '')]
    ctx.require(not bad, fc, 'reducer-only-adds', 'the reducer touches the accumulator only through entry()/insert()',
                'the reducer calls %s on the accumulator (line %d): counts collected so far are dropped or rewritten, frequencies become too low'
                % (bad[0].callee_res() if bad else '', bad[0].span['line'] if bad else 0), bad[0].span if bad else None)
    zz = symbolizer(fc)
    adds = []
    for s in fc.stmts():
        if s.kind == 'assign' and s.lhs.proj:
            val = core(simplify(zz.rvalue(s.rv, 0, ())))
            tgt = nosite(core(sym(fc, s.lhs)))
            if val[0] == 'bin' and val[1] == 'Add' and tgt in (nosite(val[2]), nosite(val[3])):
                adds.append(s)
    ent = [t for t in fc.calls(r'Entry.*::or_insert$')]
    ctx.require(len(adds) == 1 and len(ent) == 1 and match(core(sym(fc, ent[0].args[1])), Const(0)), fc, 'reducer-adds', '*acc.entry(word).or_insert(0) += count', None)
    rvf = ret_values(fc)
    ctx.require(len(rvf) == 1 and match(core(rvf[0][0]), Pred(lambda u: u[0] in ('arg', 'var'))), fc, 'reducer-returns-acc', 'the fold returns the accumulator', None)
    ini = core(sym(b, folds[0].args[1]))
    ctx.require(match(ini, Call('HashMap::new')), b, 'reducer-init', 'the accumulator starts empty', None)
    # per-line counting closures: start at 1 / += 1
    inner = [c for c in closures_in(ctx, w) if list(c.calls(r'HashMap::insert$'))]
    for c in inner:
        ins = list(c.calls(r'HashMap::insert$'))
        ctx.require(len(ins) == 1 and match(core(sym(c, ins[0].args[2])), Const(1)), c, 'line-count-init', 'a new word starts with count 1', None, ins[0].span)


@rule('C20', 'R-C20-5', 'T11 SIBLING (save / load)',
      'save writes `key TAB value` lines and load splits on TAB and expects exactly two fields')
def r5(ctx):
    s = ctx.body(D + 'save')
    fm = [t for t in s.calls(r'fmt::Arguments::new$|Arguments::new_v1$')]
    ok = False
    for t in fm:
        a = sym(s, t.args[0])
        if a[0] == 'const' and '\\t' in a[1] and '\\n' in a[1]:
            ok = True
    ctx.require(ok, s, 'save-format', 'save writes "{key}\\t{value}\\n"', None)
    l = ctx.body(D + 'load')
    sp = [t for t in l.calls(r'str::split$')]
    ok = len(sp) == 1 and match(sym(l, sp[0].args[1]), Pred(lambda u: u[0] == 'const' and u[2] == 9))
    ctx.require(ok, l, 'load-separator', 'load splits on TAB', 'load splits on %s' % [show_in(l, sym(l, t.args[1])) for t in sp])
    islen = Pred(lambda u: match(u, Call('Vec::len', ANY)) or match(u, Call('slice::len', ANY)) or (u[0] == 'un' and u[1] in ('PtrMetadata', 'Len')) or
                 (u[0] == 'call' and u[1].endswith('PtrMetadata')))
    ok = any(pol is not None and (match(core(tt), ('bin', 'Ne', islen, Const(2))) or match(core(tt), ('bin', 'Eq', islen, Const(2)))) for g in edge_guards(l) for tt, pol in [g.atom()])
    ins = [t for t in l.calls(r'HashMap::insert$')]
    # the fields pulled one by one: `match (it.next(), it.next(), it.next()) { (Some(word), Some(freq), None) => insert(word, freq) .. }`
    pulls = sorted([t for t in l.calls(r'Split.*::next$')], key=lambda t: sum(1 for u in l.calls(r'Split.*::next$') if cfg.dominates(l, u.bb, t.bb)))
    if not ok and len(pulls) == 3 and len(ins) == 1:
        vf = variant_facts_at(l, ins[0].bb)
        st = lambda t: [n_ for tt, n_ in vf if tt == sym(l, t.dest)]
        ok = st(pulls[0]) == [{'Some'}] and st(pulls[1]) == [{'Some'}] and st(pulls[2]) == [{'None'}]
        via_tuple = False
        if not ok:
            # the entry parsed by a (spliced) helper that returns Ok((word, freq)): the (Some, Some, None) test guards the construction of that
            # tuple, and the insert is reached only through it
            from analysis.sym import symbolizer as _sz, simplify as _sp
            for s_ in l.stmts():
                if s_.kind != 'assign' or s_.rv.kind != 'agg':
                    continue
                try:
                    v_ = _sp(_sz(l).rvalue(s_.rv, 0, ()))
                except Exception:
                    continue
                def deep(t_, d_=0):
                    # named locals on the way (`word`, `freq`, `val`) opened up to what they were bound to
                    out_ = [t_]
                    if d_ < 4:
                        for x_ in walk(t_):
                            if isinstance(x_, tuple) and x_ and x_[0] == 'var' and len(x_) > 2:
                                iv_ = init_value(l, x_)
                                if iv_ != x_:
                                    out_ += deep(iv_, d_ + 1)
                    return out_
                mentions = lambda comp, pull: any(has(y_, Pred(lambda x: nosite(x) == nosite(sym(l, pull.dest)))) for y_ in deep(comp))
                if v_[0] == 'agg' and v_[1] == 'tuple' and len(v_[3]) == 2 and mentions(v_[3][0], pulls[0]) and mentions(v_[3][1], pulls[1]):
                    vf2 = variant_facts_at(l, s_.bb)
                    st2 = lambda t: [n_ for tt, n_ in vf2 if tt == sym(l, t.dest)]
                    if st2(pulls[0]) == [{'Some'}] and st2(pulls[1]) == [{'Some'}] and st2(pulls[2]) == [{'None'}]:
                        # ... and that tuple is the only success value of what the insert unpacks (every other alternative is an error)
                        from analysis.alts import expand as _ex, flatten as _fl
                        a1_ = core(sym(l, ins[0].args[1]))
                        base_ = a1_[1] if a1_[0] == 'field' else a1_
                        while isinstance(base_, tuple) and base_ and base_[0] in ('unwrap', 'ref', 'deref', 'copy', 'move') and isinstance(base_[1], tuple):
                            base_ = base_[1]
                        alts_ = [peel(x_.value) for x_ in _fl(_ex(ctx.facts, l, nosite(base_)))] if base_[0] in ('var', 'phi') else [peel(base_)]
                        iserr_ = lambda y: (y[0] == 'agg' and y[1] == 'adt' and (y[2].endswith('Result::Err') or y[2].endswith('Option::None'))) or \
                            (y[0] == 'call' and y[1].rsplit('::', 1)[-1] == 'from_residual')
                        good_ = [y for y in alts_ if not iserr_(y)]
                        if len(good_) == 1 and good_[0][0] == 'agg' and good_[0][1] == 'adt' and good_[0][2].endswith('Result::Ok') and \
                                nosite(peel(good_[0][3][0])) == nosite(v_):
                            ok = via_tuple = True
        ctx.require(ok, l, 'load-two-fields', 'load rejects lines that do not have exactly two fields', 'the insert runs under %s' % [st(t) for t in pulls])
        f0 = Pred(lambda u: has(u, Pred(lambda x: x == sym(l, pulls[0].dest))))
        f1 = Pred(lambda u: has(u, Pred(lambda x: x == sym(l, pulls[1].dest))))
        okf = match(sym(l, ins[0].args[1]), f0) and match(sym(l, ins[0].args[2]), f1)
        if via_tuple and not okf:
            # the two components of the helper's tuple, in order
            a1, a2 = core(sym(l, ins[0].args[1])), core(sym(l, ins[0].args[2]))
            okf = a1[0] == 'field' and a1[2] == 0 and a2[0] == 'field' and a2[2] == 1 and nosite(a1[1]) == nosite(a2[1])
        ctx.require(okf, l, 'load-fields', 'load inserts (field 0, parsed field 1)', None)
    else:
        ctx.require(ok, l, 'load-two-fields', 'load rejects lines that do not have exactly two fields', None)
        ok = len(ins) == 1 and match(core(sym(l, ins[0].args[1])), ('index', ANY, Const(0))) and has(core(sym(l, ins[0].args[2])), ('index', ANY, Const(1)))
        ctx.require(ok, l, 'load-fields', 'load inserts (field 0, parsed field 1)', None)
    # save iterates all entries
    wr = [t for t in s.calls(r'write_fmt$')]
    ctx.require(len(wr) == 1 and cfg.innermost_loop(s, wr[0].bb) is not None, s, 'save-all', 'save writes one line per entry', None)
    # the file save() writes holds nothing but this dictionary: it is created / truncated, never opened over old contents or for appending
    # (a longer file left from an earlier save keeps its tail, and load() reads entries that are not in the dictionary)
    creates = [t for t in s.calls(r'fs::File::create$|File::create_new$|fs::write$')]
    opens = [t for t in s.calls(r'OpenOptions::open$')]
    if not creates and not opens:
        raise AnchorMissing('Dictionary::save: how the output file is opened')
    for t in opens:
        chain_ = chain_names(sym(s, t.args[0])) if t.args else []
        tr = [u for u in s.calls(r'OpenOptions::truncate$') if match(core(sym(s, u.args[1])), Const(1))]
        ap = [u for u in s.calls(r'OpenOptions::append$') if match(core(sym(s, u.args[1])), Const(1))]
        ctx.require(bool(tr) and not ap, s, 'save-truncates', 'save() opens its file truncating',
                    'save() opens its file with OpenOptions %s: old contents beyond the new entries stay in the file and are read back by load()' % (
                        'in append mode' if ap else 'without truncate(true)'), t.span)
    if creates and not opens:
        ctx.ok(s, 'save() creates (truncates) its file with %s' % (creates[0].callee_res() or '').rsplit('::', 2)[-2], creates[0].span)


@rule('C20', 'R-C20-6', 'T13 PAIR (get_closest)',
      'get_closest keeps the entries at minimal distance (strict < resets the candidate list, == extends it) and returns '
      'the most frequent among them')
def r6(ctx):
    b = ctx.body(D + 'get_closest')
    R.clear()
    R['min_dist'] = _one(b, r'^f64$', 'running minimum')
    R['terms'] = _one(b, r'^std::vec::Vec<&str>$', 'candidate terms') if len(state_locals(b, r'^std::vec::Vec<&str>$')) == 1 else None
    tl = [l for l in state_locals(b, r'^std::vec::Vec<&str>$') if len(local_defs(b, l)) > 1]
    fl = [l for l in state_locals(b, r'^std::vec::Vec<usize>$') if len(local_defs(b, l)) > 1]
    if len(tl) != 1 or len(fl) != 1:
        raise AnchorMissing('candidate term / frequency lists of get_closest (found %d / %d)' % (len(tl), len(fl)))
    R['terms'], R['freqs'] = tl[0], fl[0]
    md = local_defs(b, R['min_dist'])
    init = [core(v) for site, v in md if cfg.innermost_loop(b, site.bb) is None]
    upd = [(site, core(v)) for site, v in md if cfg.innermost_loop(b, site.bb) is not None]
    ok = len(init) == 1 and 'INFINITY' in repr(init[0]) and len(upd) == 1
    ctx.require(ok, b, 'min-init', 'min_dist starts at +infinity and is updated at one place', None)
    if not ok:
        return
    site, v = upd[0]
    at = [(core(tt), pol) for tt, pol, g in atoms_at(b, site.bb)]
    dist = Pred(lambda u: nosite(u) == nosite(v))
    ok = any(pol is True and match(tt, ('bin', 'Lt', dist, _var('min_dist'))) for tt, pol in at)
    ctx.require(ok, b, 'strict-less', 'a strictly smaller distance resets the candidates', 'min_dist is updated under %s' % [show_in(b, t) for t, p in at], site.span)
    pushes = [t for t in b.calls(r'Vec::push$') if match(core(sym(b, t.args[0])), _var('terms')) or match(core(sym(b, t.args[0])), _var('freqs'))]
    ok = len(pushes) == 2
    for p in pushes:
        at = [(core(tt), pol) for tt, pol, g in atoms_at(b, p.bb)]
        ok = ok and any(pol is True and tt[0] == 'bin' and tt[1] == 'Eq' and has(tt, _var('min_dist')) for tt, pol in at) and \
            any(pol is False and tt[0] == 'bin' and tt[1] == 'Lt' for tt, pol in at)
    ctx.require(ok, b, 'equal-extends', 'an equal distance extends the candidate list (terms and freqs together)', None)
    mb = [t for t in b.calls(r'Iterator::max_by$|Iterator::max_by_key$')]
    ok = len(mb) == 1 and match(core(sym(b, mb[0].args[0])), Call('Iterator::zip', _var('terms'), _var('freqs')))
    if ok and (mb[0].callee_res() or '').endswith('max_by'):
        clo = closure_of(ctx, sym(b, mb[0].args[1]))
        crv = ret_values(clo)
        ok = len(crv) == 1 and match(core(crv[0][0]), Call('cmp', ('field', ('arg', 2, ANY), 1), ('field', ('arg', 3, ANY), 1)))
    ctx.require(ok, b, 'most-frequent', 'among the closest entries the one with maximal frequency is returned', None)
    ds = [t for t in b.calls(r'edit::distances$')]
    ok = len(ds) == 1 and match(core(sym(b, ds[0].args[3])), Const(0)) and match(core(sym(b, ds[0].args[4])), Const(0))
    ctx.require(ok, b, 'distance-kind', 'distances are plain edit distances (no swaps, no whitespace restriction)', None)


@rule('C20', 'R-C20-7', 'T15 TYPE (distances are compared as floats)',
      'get_closest never converts a distance to an integer: a normalised distance lies in [0, 1] and truncates to 0, which makes '
      'every entry tie')
def r7(ctx):
    from rules.common import closures_in
    b = ctx.body(D + 'get_closest')
    n = 0
    for x in [b] + closures_in(ctx, b):
        for s in x.stmts():
            if s.kind == 'assign' and s.rv.kind == 'cast':
                n += 1
                ck = str(s.rv.raw.get('cast', s.rv.raw.get('ck', ''))) if hasattr(s.rv, 'raw') else ''
                src_ty = x.local_ty(s.rv.ops[0].place.local) if s.rv.ops and s.rv.ops[0].place is not None else ''
                dst_ty = x.local_ty(s.lhs.local) if not s.lhs.proj else ''
                if ('FloatToInt' in ck) or (src_ty in ('f64', 'f32') and re.match(r'^[ui](8|16|32|64|128|size)$', dst_ty or '')):
                    ctx.fail(x, 'float-to-int', 'a float (%s) is truncated to %s at line %d in get_closest: distances that differ only by a fraction compare equal' % (
                        src_ty, dst_ty, s.span['line']), s.span)
    ctx.ok(b, 'get_closest: %d casts inspected, none truncates a float' % n)


@rule('C20', 'R-C20-8', 'T11 SIBLING (one unit of length in the dictionary module)',
      'every constant segmentation flag handed to a function of the crate from src/dictionary.rs (the `use_graphemes` parameter of '
      'CharString::new, edit::distance(s), ...) has the same value: average length, candidate distances and normalisation all count '
      'the same characters. A site that switches to code points disagrees with its siblings on every entry with a combining mark or CRLF')
def r8(ctx):
    segmentation_flags_agree(ctx, lambda b: b.file() == 'src/dictionary.rs', 'src/dictionary.rs', 'the dictionary module')


def segmentation_flags_agree(ctx, in_scope, where, what):
    sites = []
    for b in ctx.facts.bodies:
        if not in_scope(b) or b.span['exp'] or b.path in ctx.facts.inlined_paths:
            continue
        ctx.stats['bodies_inspected'].add(b.path)
        for t in b.terms('call'):
            cands = ctx.facts.by_path.get(t.callee_res() or '', [])
            if len(cands) != 1:
                continue
            cal = cands[0]
            for i, a in enumerate(t.args):
                if cal.var_name(i + 1) != 'use_graphemes':
                    continue
                v = core(sym(b, a))
                if v[0] == 'const' and len(v) > 2 and v[2] in (0, 1):
                    sites.append((b, t, bool(v[2])))
    if len(sites) < 2:
        raise AnchorMissing('constant segmentation flags in %s (found %d, expected at least two)' % (where, len(sites)))
    vals = {v for _, _, v in sites}
    major = max(vals, key=lambda x: sum(1 for s_ in sites if s_[2] == x))
    for b, t, v in sites:
        ctx.require(v == major, b, 'segmentation-flag|' + norm_path(b.path).rsplit('::', 1)[-1] + '|' + (t.callee_res() or '').rsplit('::', 1)[-1],
                    '%s (line %d) segments with use_graphemes = %s like the other sites of %s' % ((t.callee_res() or '').rsplit('::', 2)[-1], t.span['line'], major, what),
                    '%s at line %d is called with use_graphemes = %s while the other %d sites of %s use %s: lengths and distances are measured in '
                    'different units (a cluster of several code points counts once at one site and several times at the other)' % (
                        (t.callee_res() or '').rsplit('::', 2)[-1], t.span['line'], v, len(sites) - 1, where, major), t.span)


@rule('C20', 'R-C20-9', 'prerequisite (the distance get_closest minimises)',
      'the edit distance recurrence and its normalisation divisor (R-C12-1, R-C12-2 re-evaluated): get_closest returns the entry of minimal '
      'distance, which is only meaningful when distances() computes the metric')
def r9(ctx):
    from rules import c12
    c12.r1(ctx)
    c12.r2(ctx)


def normalize_total(ctx):
    """unicode::normalize always normalises: every value it returns comes out of nfc()/nfd()/nfkc()/nfkd() (directly or per grapheme cluster
    through the recursive call); the input may be handed back unchanged only where a quick check answered IsNormalized::Yes -- `Maybe`
    means "run the full normalisation" (decomposed sequences such as e + U+0301 answer Maybe)"""
    from rules.common import is_variant_at
    b = ctx.body('unicode::normalize')
    rv = ret_values(b)
    if not rv:
        raise AnchorMissing('return values of unicode::normalize')
    NF = Pred(lambda u: isinstance(u, tuple) and u and u[0] == 'call' and re.search(r'::(nfc|nfd|nfkc|nfkd)$|unicode::normalize$', u[1]))
    n = 0
    from analysis.alts import expand as _expand, flatten as _flatten
    rv2 = []
    for v, blk in rv:
        # a result chosen on exclusive branches (the arms of a spliced helper): every alternative on its own
        al = _flatten(_expand(ctx.facts, b, nosite(v))) if core(v)[0] in ('phi', 'var') else []
        rv2 += [(a_.value, blk) for a_ in al] if len(al) > 1 else [(v, blk)]
    for v, blk in rv2:
        n += 1
        iv = init_value(b, v)
        done = has(iv, NF) or any(has(core(init_value(c_, x)), NF) or has(x, NF) for c_ in closures_in(ctx, b) for x, _ in ret_values(c_)
                                   if has(iv, Pred(lambda u: isinstance(u, tuple) and u and u[0] == 'agg' and u[1] == 'closure' and u[2] == c_.path)))
        if not done:
            # the result assembled piece by piece (a loop pushing the normalised clusters)
            from analysis.seq import seq_of
            segs = seq_of(ctx.facts, b, v)
            done = bool(segs) and all(sg.kind in ('each', 'nest', 'one') and not sg.conds and
                                      all(leaf.elem is not None and has(leaf.elem, NF) for leaf in sg.flat()) for sg in segs)
        if done:
            ctx.ok(b, 'normalize: the value returned at line %d is normalised' % b.blocks[blk].term.span['line'], b.blocks[blk].term.span)
            continue
        yes = is_variant_at(b, blk, 'Yes')
        ctx.require(bool(yes), b, 'identity-only-if-normalised', 'the input is returned unchanged only under IsNormalized::Yes',
                    'unicode::normalize returns `%s` (line %d) without normalising, and not under a quick check that answered Yes: text in a form the quick check '
                    'calls Maybe (base letter + combining mark) stays unnormalised, so equal words get different dictionary keys' % (
                        show_in(b, v)[:60], b.blocks[blk].term.span['line']), b.blocks[blk].term.span)
    # each form is produced by the method of its own name (NFKC by nfkc(), ...): the variant decides the arm, the arm calls the namesake
    from analysis.alts import ret_variant_alts
    tbl = ret_variant_alts(ctx.facts, b, lambda c: c[0] == 'arg' and c[1] == 2) or {}
    seen = 0
    for var, als in sorted(tbl.items()):
        forms = set()
        for a_ in als:
            for x in walk(a_.value):
                if isinstance(x, tuple) and x and x[0] == 'call':
                    m_ = re.search(r'::(nfc|nfd|nfkc|nfkd)$', x[1])
                    if m_:
                        forms.add(m_.group(1))
        if not forms:
            continue
        seen += 1
        ctx.require(forms == {var.lower()}, b, 'form-of-variant|' + var, 'Normalization::%s is computed with %s()' % (var, var.lower()),
                    'Normalization::%s is computed with %s(): the text is brought into another normal form than the one asked for (dictionary keys, BPE corpus and '
                    'metrics all ask for NFKC)' % (var, ' / '.join(sorted(forms))))
    if seen and seen < 4:
        ctx.note('normalize: only %d of the 4 normal forms could be attributed to a variant' % seen)
    return n


@rule('C20', 'R-C20-10', 'prerequisite (words are counted in normal form)',
      'unicode::normalize, through which Dictionary::create / get / contains / get_closest bring every word to NFKC, always normalises '
      '(an unchanged return only under IsNormalized::Yes)')
def r10(ctx):
    normalize_total(ctx)


@rule('C20', 'R-C20-11', 'prerequisite (lines are cleaned over one definition of "character")',
      'text::clean, applied to every line before it is normalised and split, keeps every non-whitespace character in order (R-C11-1, R-C11-2 '
      're-evaluated) over the shared CharString segmentation (R-C11-6)')
def r11(ctx):
    from rules import c11
    c11.r1(ctx)
    c11.r2(ctx)
    c11.charstring_primitive(ctx)


@rule('C20', 'R-C20-12', 'T1 ORDER (word splitting)',
      'text::split_words yields one entry per whitespace-separated word, in order and without a filter, and its word parts are ALL regex matches '
      'inside that word with their start offsets (no take / skip / filter / dedup): a dropped word or part is a frequency that is not counted')
def r12(ctx):
    from analysis.seq import seq_of, seq_of_iter, ITEM
    b = ctx.body('text::split_words')
    rv = ret_values(b)
    if len(rv) != 1:
        raise AnchorMissing('single result of text::split_words')
    segs = seq_of(ctx.facts, b, rv[0][0])
    if segs is None:
        raise AnchorMissing('text::split_words: the result as a sequence')
    ok = len(segs) == 1 and segs[0].kind == 'each' and not segs[0].conds and match(core(segs[0].src), Call('str::split_whitespace', ('arg', 1, ANY)))
    loop_form = False
    if not ok and len(segs) == 1 and segs[0].kind == 'nest' and not segs[0].conds and match(core(segs[0].src), Call('str::split_whitespace', ('arg', 1, ANY))):
        # the explicit loop: per word exactly one push -- two pushes under complementary conditions (`if parts.is_empty() { (w, None) } else { (w, Some(parts)) }`)
        inn = segs[0].inner
        if len(inn) == 1 and inn[0].kind == 'one' and not inn[0].conds:
            ok = loop_form = True
        elif len(inn) == 2 and all(x.kind == 'one' and len(x.conds) == 1 for x in inn) and nosite(inn[0].conds[0][0]) == nosite(inn[1].conds[0][0]) and \
                inn[0].conds[0][1] != inn[1].conds[0][1]:
            ok = loop_form = True
    ctx.require(ok, b, 'every-word', 'split_words: one entry per element of s.split_whitespace()', 'split_words builds %s' % [repr(x)[:160] for x in segs])
    if not ok:
        return
    entries = [segs[0]] if not loop_form else list(segs[0].inner)
    for en_ in entries:
        e = peel(en_.elem)
        ok = e[0] == 'agg' and e[1] == 'tuple' and len(e[3]) == 2 and core(e[3][0]) == ITEM
        ctx.require(ok, b, 'word-entry', 'split_words: the entry is (word, parts)', 'the entry is %s' % show_in(b, e)[:160])
        if loop_form and ok and en_.conds:
            second = peel(e[3][1])
            c_, p_ = en_.conds[0]
            emp_ = core(c_)[0] == 'call' and core(c_)[1].rsplit('::', 1)[-1] == 'is_empty'
            if second[0] == 'agg' and second[1] == 'adt' and second[2].endswith('Option::None'):
                ctx.require(emp_ and p_ is True, b, 'none-only-without-parts', 'a word gets None only when it has no part', None)
            elif second[0] == 'agg' and second[1] == 'adt' and second[2].endswith('Option::Some'):
                ctx.require(emp_ and p_ is False, b, 'some-iff-parts', 'a word with parts gets Some(parts)', None)
    # the parts: inside the per-word closure, collect(map(find_iter(re, word), |m| (m.as_str(), m.start()))) and Some(parts) iff non-empty
    clos = closures_in(ctx, b) + ([b] if loop_form else [])
    found = 0
    word_item = ('unwrap', ANY) if loop_form else ('arg', 2, ANY)
    for c in clos:
        for t in c.calls(r'Regex::find_iter$'):
            found += 1
            okw_ = match(core(sym(c, t.args[1])), ('arg', 2, ANY)) if c is not b else has(sym(c, t.args[1]), Call('::next', ANY))
            ctx.require(okw_, c, 'parts-of-the-word', 'the parts are searched in the word itself',
                        'find_iter runs over %s' % show_in(c, sym(c, t.args[1]))[:80], t.span)
            # every consumer between find_iter and the collect is a map (no filter / take / skip / step_by)
            bad = [u for u in c.calls(r'Iterator::(filter|filter_map|take|skip|step_by|take_while|skip_while|rev|dedup\w*)$|Itertools::(unique|dedup)\w*$|Vec::(truncate|dedup\w*|retain|pop|remove|drain)$')]
            ctx.require(not bad, c, 'all-parts', 'every match is kept as a part',
                        'the parts of a word pass through `%s` (line %d): some matches are not counted' % ((bad[0].callee_res() or '').rsplit('::', 1)[-1] if bad else '', bad[0].span['line'] if bad else 0),
                        bad[0].span if bad else t.span)
        from analysis.alts import expand as _ex, flatten as _fl
        for v, blk in ret_values(c):
            for a_ in _fl(_ex(ctx.facts, c, nosite(v))):
                av = peel(a_.value)
                if not (av[0] == 'agg' and av[1] == 'tuple' and len(av[3]) == 2):
                    continue
                second = peel(av[3][1])
                isnone = second[0] == 'agg' and second[1] == 'adt' and second[2].endswith('Option::None')
                issome = second[0] == 'agg' and second[1] == 'adt' and second[2].endswith('Option::Some')
                emp = [pol for tt, pol in a_.atoms if core(tt)[0] == 'call' and core(tt)[1].rsplit('::', 1)[-1] == 'is_empty']
                if isnone:
                    ctx.require(emp == [True] or (len(set(emp)) == 1 and emp[0] is True), c, 'none-only-without-parts', 'a word gets None only when it has no part',
                                'a word gets None under %s' % [('' if p_ else '!') + show_in(c, t_)[:60] for t_, p_ in a_.atoms], c.blocks[blk].term.span)
                elif issome:
                    ctx.require(len(set(emp)) == 1 and emp[0] is False, c, 'some-iff-parts', 'a word with parts gets Some(parts)',
                                'a word gets Some under %s' % [('' if p_ else '!') + show_in(c, t_)[:60] for t_, p_ in a_.atoms], c.blocks[blk].term.span)
    if found != 1:
        raise AnchorMissing('text::split_words: the find_iter over the word (found %d)' % found)
    res = [t for t in b.calls(r'Regex::new$')]
    ctx.require(len(res) == 1, b, 'one-pattern', 'split_words compiles one pattern', 'found %d' % len(res))
    if len(res) == 1:
        # the parts are DELIMITED runs: the pattern is anchored with \b on both sides (the class is \w without the digits, so without the anchors
        # the letters of `mp3` would count as the word `mp`)
        pc = core(sym(b, res[0].args[0]))
        lit = pc[1] if pc[0] == 'const' and isinstance(pc[1], str) else None
        if lit is None:
            raise AnchorMissing('split_words: the pattern as a string literal')
        body_ = lit.strip().strip('"')
        body_ = re.sub(r'^r?#*"?', '', body_)
        inner = body_.replace('\\\\', '\\')
        core_ = re.sub(r'^(\(\?:)+', '', inner)
        core_ = re.sub(r'\)+$', '', core_)
        ctx.require(core_.startswith('\\b') and core_.endswith('\\b'), b, 'parts-delimited', 'the word-part pattern is anchored with \\b on both sides',
                    'the word-part pattern `%s` is not anchored at word boundaries on both sides: letter runs touching a digit (`mp3`, `3d`) are counted as words' % inner[:80], res[0].span)


@rule('C20', 'R-C20-13', 'T5 (the reducer waits for every worker)',
      'Dictionary::create folds the per-line counts with blocking receives only: the fold ends when all workers have dropped their senders, not when they are slow')
def r13(ctx):
    from rules.common import blocking_receives_only
    blocking_receives_only(ctx, ctx.body(D + 'create').path, 'Dictionary::create')


@rule('C20', 'R-C20-14', 'T1 ORDER (character n-grams are windows over ALL characters of the word)',
      'in character mode the windows of char_grams characters run over <bow> + every grapheme of the word + <eow> (the markers only for n > 1); which windows '
      'are counted is decided per window by its centre. Dropping characters BEFORE the windows are cut (digits, symbols) makes neighbours out of characters '
      'that are not adjacent in the word: n-grams are counted that do not occur')
def r14(ctx):
    from analysis.seq import seq_of_var, ITEM
    root = ctx.body(D + 'create').path
    sites = []
    for b in ctx.facts.bodies:
        if b.kind == 'Closure' and (getattr(b, 'root', None) == root or (b.parent or '').startswith(root)):
            for t in b.calls(r'slice::windows$'):
                sites.append((b, t))
    if len(sites) != 1:
        raise AnchorMissing('the windows(char_grams) call of Dictionary::create (found %d)' % len(sites))
    b, t = sites[0]
    r = core(sym(b, t.args[0]))
    segs = seq_of_var(ctx.facts, b, r[2]) if r[0] == 'var' and len(r) > 2 else None
    if segs is None:
        raise AnchorMissing('Dictionary::create: the character list the windows are cut from, as a sequence')
    body_ = [s_ for s_ in segs if s_.kind == 'each']
    marks = [s_ for s_ in segs if s_.kind == 'one']
    ok = len(body_) == 1 and match(core(body_[0].src), Call('CharString::split', ANY, Const(1))) and core(body_[0].elem) == ITEM and len(segs) == len(body_) + len(marks)
    ctx.require(ok, b, 'ngram-source', 'the windows are cut from [<bow>] + CS::split(word, true) + [<eow>]', 'the windows are cut from %s' % [repr(x)[:100] for x in segs], t.span)
    if ok:
        ctx.require(not body_[0].conds, b, 'ngram-all-characters', 'every character of the word takes part in the windows',
                    'characters are dropped before the windows are cut (only those with %s stay): the neighbours inside a window are then not neighbours in the word' % (
                        [('' if p_ else '!') + show_in(b, c_)[:60] for c_, p_ in body_[0].conds]), t.span)
        w = core(sym(b, t.args[1]))
        ctx.require(has(w, ('upvar', ANY, ANY)) or has(w, Pred(lambda u: u[0] in ('upvar', 'var') and 'char_grams' in str(u))), b, 'ngram-width', 'the window width is char_grams', None, t.span)


@rule('C20', 'R-C20-15', 'T11 SIBLING (one unit: characters, not bytes, in get_closest)',
      'get_closest measures its candidates with edit::distance(s) over grapheme clusters only: the BYTE length of the query or of an entry '
      '(`key.len()`, `ns.len()`) flows into nothing but capacity hints. A pruning bound or ordering computed from byte lengths agrees with the '
      'distance for ASCII and skips the closest entry when it contains multi-byte characters')
def r15(ctx):
    from rules.common import length_consumers, closures_in, debug_only_blocks
    b = ctx.body(D + 'get_closest')
    n = 0
    for x in [b] + closures_in(ctx, b):
        dbg = debug_only_blocks(x)
        for t in x.calls(r'(?<![A-Za-z])str::len$|(?<![A-Za-z])String::len$'):
            if t.span.get('exp') or t.bb in dbg:
                continue
            n += 1
            cons = length_consumers(x, t)
            ctx.require(not cons, x, 'byte-length|get_closest', 'get_closest: the byte length taken at line %d only sizes a buffer' % t.span['line'],
                        'get_closest: the BYTE length `%s` (line %d) is used in `%s` (line %d): the distances it is weighed against count grapheme clusters' % (
                            show_in(x, sym(x, t.args[0]))[:30] + '.len()', t.span['line'],
                            ((cons[0].callee_res() or '') if cons and cons[0].kind == 'call' else 'a comparison').rsplit('::', 1)[-1], cons[0].span['line'] if cons else 0), t.span)
    ctx.ok(b, '%d byte-length reads in get_closest inspected' % n)
