"""C06 Batching partitions the item stream and respects the batch limit."""
import re
from analysis.engine import rule, AnchorMissing
from analysis import cfg
from analysis.facts import norm_path
from analysis.sym import sym, show_in, nosite, peel, core, walk, ret_values, args_of, guards_at, atoms_at, \
    variant_facts_at, cmp_facts_at, init_value, edge_guards, symbolizer, simplify
from analysis.pat import match, Call, Cap, ANY, Pred, Const, has, chain_names
from rules.common import closure_of, closures_in, V, the_state_local, receiver_var

B = 'data::loading::Batched'
ITEM_TY = re.compile(r'(^|[<(, &])T($|[>), ])')


def _bodies(ctx):
    bb = ctx.body(B + '::build_batch')
    bf = ctx.body(B + '::batch_from')
    return bb, bf


def _var(name):
    """role based: `items` = the Vec<T> that batch_from fills, `batch_limit` = its BatchLimit accumulator"""
    def f(t):
        if not (isinstance(t, tuple) and t and t[0] == 'var'):
            return False
        ty = _TYPES.get(t[2], '')
        if name == 'items':
            return ty == 'std::vec::Vec<T>'
        if name == 'batch_limit':
            return ty.endswith('loading::BatchLimit')
        return False
    return Pred(f)


_TYPES = {}


def _remember_types(b):
    _TYPES.clear()
    for i, l in enumerate(b.locals):
        _TYPES[i] = l['ty']


@rule('C06', 'R-C06-1', 'T12 OWNERSHIP',
      'the item type carries only the ItemSize bound (no Clone/Copy: an item cannot appear in two batches) and no value '
      'containing an item is dropped on a normal path of build_batch / batch_from, except a provably empty Vec')
def r1(ctx):
    bb, bf = _bodies(ctx)
    for b in (bb, bf):
        bad = [p for p in b.preds_decl if re.match(r'^T: .*(Clone|Copy)', p)]
        ctx.require(not bad, b, 'no-clone-bound', 'T has no Clone/Copy bound in %s' % b.path.rsplit('::', 1)[-1], 'bounds: %s' % bad)
    for b in [bb, bf] + closures_in(ctx, bb) + closures_in(ctx, bf):
        for t in b.terms('drop'):
            ty = t.raw['ty']
            if not ITEM_TY.search(ty) and 'Option<T>' not in ty and 'Vec<T>' not in ty:
                continue
            if ty.startswith('impl FnMut') or ty.startswith('{closure@'):
                continue  # dropping the producer closure drops borrows only (captures are &mut)
            # discharged: a Vec<T> dropped under `is_empty()` true edge of the same vector
            pl = sym(b, t.place)
            empty = any(pol is True and match(tt, Call('Vec::is_empty', Pred(lambda u: nosite(u) == nosite(pl))))
                        for tt, pol, g in atoms_at(b, t.bb))
            # drop-flag guarded drops: executed only if the value was not moved out; accept when every path to the drop
            # that still owns the value is under is_empty -- approximated by the dominating guard above
            flag = _drop_flag_guard(b, t)
            if not (empty or flag) and 'Option<T>' in ty:
                flag = _none_by_contradiction(b, t)
            ctx.require(empty or flag, b, 'item-drop|' + re.sub(r'[^A-Za-z]+', '_', ty)[:30],
                        'drop of %s at line %d is of an empty/moved-out value' % (ty, t.span['line']),
                        'a value of type %s (may hold items) is dropped on a normal path at line %d: items are lost' % (ty, t.span['line']), t.span)
    # the producer closures capture buf / iter by mutable reference (not by value)
    for c in closures_in(ctx, bb):
        pass
    ctx.ok(bb, 'drop inventory of build_batch, batch_from and their closures evaluated')


def _none_by_contradiction(b, t):
    """drop of an Option<T> local: every `Some(..)` it was ever assigned was assigned where `v.is_empty()` is known false, the
    drop sits where the same `v.is_empty()` is known true, and nothing appends to `v` in between -- no path carries a Some to
    the drop (the `remainder` of batch_from: set only once the batch holds an item, dropped only on the empty-batch path)"""
    if t.place is None or t.place.proj:
        return False
    from analysis.sym import defs_of
    whole, partial = defs_of(b, t.place.local)
    if partial or not whole:
        return False
    z = symbolizer(b)
    here = [(nosite(core(tt)), pol) for tt, pol, g in atoms_at(b, t.bb) if pol is not None]
    empties_true = [c for c, pol in here if pol is True and c[0] == 'call' and c[1].endswith('::is_empty')]
    for d in whole:
        v = simplify(z.rvalue(d.rv, 0, ())) if hasattr(d, 'rv') else simplify(z.call(d))
        cv = peel(v)
        if cv[0] == 'agg' and cv[2].endswith('Option::None'):
            continue
        # a definition that cannot reach the drop (the loop is left right after it) is irrelevant
        if t.bb not in cfg.reach_from_succ(b, d.bb):
            continue
        if not empties_true:
            return False
        at_def = [(nosite(core(tt)), pol) for tt, pol, g in atoms_at(b, d.bb) if pol is not None]
        contradicted = [c for c in empties_true if (c, False) in at_def]
        if not contradicted:
            return False
        # nothing grows the vector on a path from the definition to the drop
        between = cfg.reach(b, d.bb) & {x for x in b.reachable if t.bb in cfg.reach(b, x)}
        vec = contradicted[0][2][0]
        for u in b.terms('call'):
            if u.bb in between and u.bb != d.bb and u.args and re.search(r'::(push|extend|insert|append|extend_from_slice)$', u.callee_res() or '') and \
                    nosite(core(sym(b, u.args[0]))) == nosite(core(vec)):
                return False
    return True


def _drop_flag_guard(b, t):
    """the drop is reached only through a switch on a bool local that is a drop flag (compiler generated, unnamed)"""
    for g in guards_at(b, t.bb):
        tr, pol = g.atom()
        if g.dty == 'bool' and tr[0] in ('phi', 'const') and pol is True:
            return True
    return False


@rule('C06', 'R-C06-2', 'MUST-PASS (no empty batch)',
      'every Some(batch) is reached only with at least one item in it')
def r2(ctx):
    from rules.common import emptiness_at
    bb, bf = _bodies(ctx)
    _remember_types(bf)
    pushes = [t for t in bf.calls(r'Vec::push$') if match(sym(bf, t.args[0]), _var('items'))]
    if len(pushes) != 1:
        raise AnchorMissing('the single items.push(item) in batch_from (found %d)' % len(pushes))
    for v, blk in ret_values(bf):
        if not (v[0] == 'agg' and v[1] == 'tuple' and len(v[3]) == 2):
            ctx.fail(bf, 'ret-shape', 'batch_from returns %s' % show_in(bf, v))
            continue
        first = v[3][0]
        if first[0] == 'agg' and first[2].endswith('Option::Some'):
            nonempty = emptiness_at(bf, blk, lambda c: match(c, _var('items'))) is False
            ctx.require(nonempty and match(first[3][0], _var('items')), bf, 'some-nonempty',
                        'Some(items) at line %d is returned only under !items.is_empty()' % bf.blocks[blk].term.span['line'],
                        'Some(items) at line %d can be returned with an empty vector' % bf.blocks[blk].term.span['line'],
                        bf.blocks[blk].term.span)
        elif first[0] == 'agg' and first[2].endswith('Option::None'):
            empty = emptiness_at(bf, blk, lambda c: match(c, _var('items'))) is True
            ctx.require(empty and v[3][1][0] == 'agg' and v[3][1][2].endswith('Option::None'), bf, 'none-only-empty',
                        '(None, None) is returned only when no item was collected (nothing is lost)',
                        '(None, ..) is returned although items may have been collected: they are dropped', bf.blocks[blk].term.span)
    # fallback batch in the sort+shuffle path
    for v, blk in ret_values(bb):
        if v[0] == 'agg' and v[2].endswith('Option::Some'):
            inner = init_value(bb, v[3][0])
            if has(inner, Call('Vec::splice')) or has(inner, Call('Vec::drain')):
                continue
            nonempty = any(pol is False and match(tt, Call('Vec::is_empty', ('arg', 2, ANY))) for tt, pol, g in atoms_at(bb, blk))
            pops = [s for s in walk(inner) if isinstance(s, tuple) and s and s[0] == 'unwrap' and match(s[1], Call('Vec::pop', ANY))]
            ctx.require(nonempty, bb, 'fallback-nonempty', 'the single-item fallback batch pops from a non-empty buffer', None, bb.blocks[blk].term.span)


@rule('C06', 'R-C06-3', 'MUST-PASS / T13 (limit, greedy-maximal)',
      'an item is added to a batch only if the updated limit does not exceed the given limit or the batch is still '
      'empty; the comparison is the strict `limit() > limit`; the remainder is exactly the rejected item')
def r3(ctx):
    bb, bf = _bodies(ctx)
    _remember_types(bf)
    pushes = [t for t in bf.calls(r'Vec::push$') if match(sym(bf, t.args[0]), _var('items'))]
    if len(pushes) != 1:
        raise AnchorMissing('items.push(item) in batch_from')
    p = pushes[0]
    upd = [t for t in bf.calls(r'BatchLimit::update$')]
    pull = [t for t in bf.calls(r'FnMut.*::call_mut$|FnOnce.*::call_once$|Fn.*::call$')]
    if len(upd) != 1 or len(pull) != 1:
        raise AnchorMissing('batch_from: one pull f() and one batch_limit.update(&item)')
    item = ('unwrap', nosite(sym(bf, pull[0].dest)))
    ctx.require(nosite(core(sym(bf, p.args[1]))) == nosite(core(item)) and nosite(core(sym(bf, upd[0].args[1]))) == nosite(core(item)),
                bf, 'same-item', 'the item pushed is the item pulled and accounted for', None, p.span)
    ctx.require(cfg.dominates(bf, upd[0].bb, p.bb), bf, 'update-before-push', 'the limit is updated with the item before it is added', None, p.span)
    # the overshoot test
    tests = [g for g in edge_guards(bf) if match(g.atom()[0], ('bin', ANY, Call('BatchLimit::limit', ANY), ANY)) or
             match(g.atom()[0], ('bin', ANY, ANY, Call('BatchLimit::limit', ANY)))]
    if not tests:
        ctx.fail(bf, 'limit-test', 'no comparison of batch_limit.limit() with the limit found in batch_from')
        return
    t0 = tests[0].atom()[0]
    strict = match(t0, ('bin', 'Gt', Call('BatchLimit::limit', _var('batch_limit')), ('arg', 2, ANY))) or \
        match(t0, ('bin', 'Lt', ('arg', 2, ANY), Call('BatchLimit::limit', _var('batch_limit'))))
    ctx.require(strict, bf, 'limit-strict', 'overshoot test is `batch_limit.limit() > limit` (a batch that reaches the limit exactly is allowed: greedy-maximal)',
                'overshoot test is %s' % show_in(bf, t0), bf.blocks[tests[0].block].term.span)
    # paths update -> push: not-overshoot or items empty
    ok = False
    facts = [(tt, pol) for tt, pol, g in atoms_at(bf, p.bb)]
    # push block is reached by (limit <= limit) OR (items.is_empty()): no single edge dominates; check by edge removal
    le_edges = [(g.block, g.target) for g in edge_guards(bf) if g.atom()[1] is False and nosite(g.atom()[0]) == nosite(t0)]
    em_edges = [(g.block, g.target) for g in edge_guards(bf) if g.atom()[1] is True and match(g.atom()[0], Call('Vec::is_empty', _var('items')))
                and cfg.dominates(bf, upd[0].bb, g.block)]
    ok = bool(le_edges) and cfg.must_pass(bf, upd[0].bb, p.bb, via_edges=le_edges + em_edges)
    ctx.require(ok, bf, 'push-within-limit', 'every path from the accounting to the push crosses `!(limit() > limit)` or `items.is_empty()`',
                'an item can be added although the limit is exceeded and the batch is not empty', p.span)
    # the rejected item is returned as remainder on the other path
    from analysis.alts import flatten as _flatten, expand as _expand
    rem = [(v, blk) for v, blk in ret_values(bf) if v[0] == 'agg' and len(v[3]) == 2 and not (v[3][1][0] == 'agg' and v[3][1][2].endswith('Option::None'))]
    ok = len(rem) == 1
    if ok:
        somes = []
        for a_ in _flatten(_expand(ctx.facts, bf, nosite(init_value(bf, rem[0][0][3][1])))):
            av = peel(a_.value)
            if av[0] == 'agg' and av[2].endswith('Option::None'):
                continue
            somes.append(av)
        ok = bool(somes) and all(match(av, ('agg', 'adt', Pred(lambda n: n.endswith('Option::Some')), (Pred(lambda u: nosite(core(u)) == nosite(core(item))),))) for av in somes)
    ctx.require(ok, bf, 'remainder-is-rejected-item', 'the remainder returned is Some(the rejected item)', None)
    # BatchLimit tables
    from analysis.alts import ret_variant_alts, merge_minmax
    is_self = lambda c: c[0] == 'arg' and c[1] == 1

    def one_mul(t):
        """x * 1 is x (`count * size_per_item` with a size of 1 for plain batch sizes)"""
        c = core(t)
        if c[0] == 'bin' and c[1] == 'Mul':
            for x, y in ((c[2], c[3]), (c[3], c[2])):
                if match(core(y), Const(1)):
                    return core(x)
        return c
    lim = ctx.body('data::loading::BatchLimit::limit')
    tbl = {}
    for k, als in (ret_variant_alts(ctx.facts, lim, is_self) or {}).items():
        vals = {repr(one_mul(a_.value)): one_mul(a_.value) for a_ in als}
        if len(vals) == 1:
            tbl[k] = list(vals.values())[0]
    f0 = lambda v: ('field', ('variant', ('arg', 1, ANY), v), 0)
    f1 = lambda v: ('field', ('variant', ('arg', 1, ANY), v), 1)
    ok = 'BatchSize' in tbl and match(tbl['BatchSize'], f0('BatchSize')) and \
        'TotalItemSize' in tbl and (match(tbl['TotalItemSize'], ('bin', 'Mul', f0('TotalItemSize'), f1('TotalItemSize'))) or
                                    match(tbl['TotalItemSize'], ('bin', 'Mul', f1('TotalItemSize'), f0('TotalItemSize'))))
    ctx.require(ok, lim, 'limit-table', 'limit() = count | count * max_length', 'limit() is %s' % {k: show_in(lim, v) for k, v in tbl.items()})
    up = ctx.body('data::loading::BatchLimit::update')
    tbl = {}
    for k, als in (ret_variant_alts(ctx.facts, up, is_self) or {}).items():
        # `if size > max_length { size } else { max_length }` is max(max_length, size)
        v = merge_minmax(als)
        if v is None:
            vals = {repr(a_.value): a_.value for a_ in als}
            v = list(vals.values())[0] if len(vals) == 1 else None
        if v is not None and v[0] == 'agg' and v[1] == 'adt' and v[2].rsplit('::', 1)[-1] == k:
            tbl[k] = tuple(core(x) for x in v[3])
    okb = 'BatchSize' in tbl and match(tbl['BatchSize'][0], ('bin', 'Add', f0('BatchSize'), Const(1)))
    okt = 'TotalItemSize' in tbl and match(tbl['TotalItemSize'][0], ('bin', 'Add', f0('TotalItemSize'), Const(1))) and \
        (match(tbl['TotalItemSize'][1], Call('Ord::max', f1('TotalItemSize'), Call('ItemSize::size', ('arg', 2, ANY)))) or
         match(tbl['TotalItemSize'][1], Call('Ord::max', Call('ItemSize::size', ('arg', 2, ANY)), f1('TotalItemSize'))))
    ctx.require(okb and okt, up, 'update-table', 'update(): count + 1 | (count + 1, max(max_length, item.size()))',
                'update() is %s' % {k: [show_in(up, x) for x in v] for k, v in tbl.items()})
    from analysis.reduce import reduce_of
    from analysis.seq import ITEM
    fi = ctx.body('data::loading::BatchLimit::from_items')
    tbl, raw = {}, {}
    for v, blk in ret_values(fi):
        if v[0] == 'agg' and v[1] == 'adt':
            tbl[v[2].rsplit('::', 1)[-1]] = tuple(core(x) for x in v[3])
            raw[v[2].rsplit('::', 1)[-1]] = v[3]
    if not tbl:
        # the other way to say it: the items folded one by one through update() (whose table is checked above) into the accounting of
        # the empty batch, BatchSize(0) / TotalItemSize(0, 0) according to the limit type
        from analysis.alts import ret_alts_paths, flatten as _fl, Alt as _Alt, consistent as _cons
        folds = []
        for a_ in ret_alts_paths(ctx.facts, fi) or []:
            for x_ in _fl(a_.value):
                m_ = _Alt(nosite(x_.value), list(a_.variants) + list(x_.variants), list(a_.atoms) + list(x_.atoms))
                if _cons(m_):
                    folds.append(m_)
        okf = bool(folds)
        seen = set()
        for m_ in folds:
            v = peel(m_.value)
            good = v[0] == 'call' and v[1].endswith('::fold') and len(v[2]) == 3 and match(core(v[2][0]), ('arg', 1, ANY))
            if good:
                clo = closure_of(ctx, v[2][2])
                crv = ret_values(clo)
                good = len(crv) == 1 and match(nosite(crv[0][0]), Call('BatchLimit::update', ('arg', 2, ANY), ('arg', 3, ANY)))
            if good:
                i_ = peel(v[2][1])
                ty = m_.state_of(lambda c: core(c)[0] == 'arg' and core(c)[1] == 2)
                good = i_[0] == 'agg' and i_[1] == 'adt' and all(match(core(z_), Const(0)) for z_ in i_[3]) and \
                    (ty, i_[2].rsplit('::', 1)[-1], len(i_[3])) in (('BatchSize', 'BatchSize', 1), ('PaddedItemSize', 'TotalItemSize', 2))
                seen.add(ty)
            okf = okf and good
        if not folds or not all(peel(m_.value)[0] == 'call' and peel(m_.value)[1].endswith('::fold') for m_ in folds):
            raise AnchorMissing('from_items(): the BatchLimit values it returns (neither literals nor a fold through update())')
        ctx.require(okf and seen == {'BatchSize', 'PaddedItemSize'}, fi, 'from-items-table',
                    'from_items(): the items folded through update() from BatchSize(0) | TotalItemSize(0, 0)',
                    'from_items() folds %s' % [repr(m_)[:200] for m_ in folds])
        tbl = None
    if tbl is not None:
        okb = 'BatchSize' in tbl and match(tbl['BatchSize'][0], Call('len', ('arg', 1, ANY)))
        okt = 'TotalItemSize' in tbl and match(tbl['TotalItemSize'][0], Call('len', ('arg', 1, ANY)))
        red = reduce_of(ctx.facts, fi, raw['TotalItemSize'][1]) if okt else None
        okt = okt and red is not None and red.op == 'max' and red.init is not None and match(core(red.init), Const(0)) and len(red.segs) == 1 and \
            red.segs[0].kind == 'each' and not red.segs[0].conds and match(core(red.segs[0].src), ('arg', 1, ANY)) and \
            match(core(red.segs[0].elem), Call('ItemSize::size', ITEM))
        ctx.require(okb and okt, fi, 'from-items-table', 'from_items(): len | (len, max size of the items, 0 when empty)',
                    'from_items() is %s (max size: %r)' % ({k: [show_in(fi, x) for x in v] for k, v in tbl.items()}, red))
    # Batched::new clamps the limit to >= 1 and the prefetch factor to >= 1
    nw = ctx.body(B + '::new')
    rv = [v for v, blk in ret_values(nw)]
    from analysis.sym import agg_field
    ok = len(rv) == 1 and match(core(agg_field(ctx.facts, rv[0], 'batch_limit')), Call('Ord::max', ('arg', 5, ANY), Const(1))) and \
        match(core(agg_field(ctx.facts, rv[0], 'prefetch_factor')), Call('Ord::max', ('arg', 4, ANY), Const(1)))
    ctx.require(ok, nw, 'clamps', 'batch_limit and prefetch_factor are clamped to >= 1', None)


@rule('C06', 'R-C06-4', 'T1 ORDER (nothing stranded)',
      'the end of the stream is reported only when the buffer is empty; a remainder is always pushed back; the plain '
      'mode serves the saved remainder before pulling a new item')
def r4(ctx):
    bb, bf = _bodies(ctx)
    nones = [(v, blk) for v, blk in ret_values(bb) if v[0] == 'agg' and v[2].endswith('Option::None')]
    for v, blk in nones:
        empty = any(pol is True and match(tt, Call('Vec::is_empty', ('arg', 2, ANY))) for tt, pol, g in atoms_at(bb, blk))
        ctx.require(empty, bb, 'none-only-if-buffer-empty', 'None is returned only under buf.is_empty()',
                    'None can be returned while the buffer still holds items', bb.blocks[blk].term.span)
    calls = [t for t in bb.calls(B + '::batch_from$')]
    if len(calls) != 2:
        raise AnchorMissing('the two batch_from call sites of build_batch (found %d)' % len(calls))
    for c in calls:
        res = nosite(sym(bb, c.dest))
        # remainder pushed back under Some
        pb = [t for t in bb.calls(r'Vec::push$') if match(sym(bb, t.args[0]), ('arg', 2, ANY)) and
              match(nosite(core(sym(bb, t.args[1]))), ('field', Pred(lambda u: nosite(u) == res), 1))]
        ok = len(pb) == 1
        # `buf.extend(remainder)`: an Option yields its payload or nothing, so this is the push under Some without a branch
        ext = [t for t in bb.calls(r'Extend>::extend$|Vec::extend$') if match(sym(bb, t.args[0]), ('arg', 2, ANY)) and
               match(nosite(core(sym(bb, t.args[1]))), ('field', Pred(lambda u: nosite(u) == res), 1))]
        if not pb and len(ext) == 1:
            ok = all(cfg.must_pass(bb, c.bb, r, via_blocks=[ext[0].bb], from_succ=True) for r in bb.returns if r in cfg.reach(bb, c.bb))
        elif ok:
            # every path from the call to a return passes the push or the None edge of the remainder
            none_edges = [(g.block, g.target) for g in edge_guards(bb)
                          if g.t[0] == 'discr' and match(nosite(g.t[1]), ('field', Pred(lambda u: nosite(u) == res), 1))
                          and (g.values is None or g.values == {0})]
            ok = all(cfg.must_pass(bb, c.bb, r, via_blocks=[pb[0].bb], via_edges=none_edges, from_succ=True) for r in bb.returns
                     if r in cfg.reach(bb, c.bb))
        ctx.require(ok, bb, 'remainder-pushed-back|line', 'the remainder of batch_from (line %d) is pushed back to the buffer on every path' % c.span['line'],
                    'the remainder returned by batch_from at line %d can be dropped' % c.span['line'], c.span)
        # the batch returned is component 0
        rets = [v for v, blk in ret_values(bb) if match(nosite(core(v)), ('field', Pred(lambda u: nosite(u) == res), 0))]
        ctx.require(len(rets) == 1, bb, 'batch-returned', 'the batch of batch_from (line %d) is what build_batch returns' % c.span['line'], None, c.span)
    # plain mode refill closure: pop the buffer first
    plain = [c for c in calls if any(pol is False and match(tt, ('arg', 4, ANY)) for tt, pol, g in atoms_at(bb, c.bb))]
    if len(plain) != 1:
        raise AnchorMissing('plain-mode batch_from call (under !sort && !shuffle)')
    clo = closure_of(ctx, sym(bb, plain[0].args[0]))
    pops = [(v, blk) for v, blk in ret_values(clo) if match(core(v), Call('Vec::pop', ANY))]
    pulls = [(v, blk) for v, blk in ret_values(clo) if match(core(v), Call('Iterator::next', ANY))]
    ok = len(pops) == 1 and len(pulls) == 1 and \
        any(pol is True and match(tt, Call('Vec::is_empty', ANY)) for tt, pol, g in atoms_at(clo, pulls[0][1])) and \
        any(pol is False and match(tt, Call('Vec::is_empty', ANY)) for tt, pol, g in atoms_at(clo, pops[0][1]))
    ctx.require(ok, clo, 'plain-refill', 'plain mode: pop the saved remainder if any, else pull the next item (input order kept)', None)
    both = any(pol is False and match(tt, ('arg', 5, ANY)) for tt, pol, g in atoms_at(bb, plain[0].bb))
    ctx.require(both, bb, 'plain-guard', 'the plain path is taken only under !sort && !shuffle', None, plain[0].span)
    # fill loop: every pulled item is pushed to the buffer
    fl = [l for l in cfg.loops(bb) if any(t.bb in l.blocks for t in bb.calls(r'Iterator::next$'))]
    ok = len(fl) == 1
    if ok:
        pull = [t for t in bb.calls(r'Iterator::next$') if t.bb in fl[0].blocks][0]
        push = [t for t in bb.calls(r'Vec::push$') if t.bb in fl[0].blocks and match(sym(bb, t.args[0]), ('arg', 2, ANY))]
        some = [tg for (val, tg) in bb.blocks[pull.target].term.arms if val == 1]
        ok = len(push) == 1 and bool(some) and all(cfg.must_pass(bb, some[0], l, via_blocks=[push[0].bb]) for l in fl[0].latches) and \
            nosite(core(sym(bb, push[0].args[1]))) == nosite(core(('unwrap', sym(bb, pull.dest))))
    ctx.require(ok, bb, 'fill-loop', 'every item pulled while filling is pushed to the buffer', None)
    # the pull is from the source itself: an adaptor with a look-ahead buffer (peekable, multipeek, tuple_windows, chunks, ..) created
    # over the borrowed source inside build_batch takes items out of the source that die with the adaptor at the end of the call
    for t in bb.calls(r'::next$|::peek$|::next_if$|::peek_mut$'):
        if not any(t.bb in l.blocks for l in fl):
            continue
        recv = init_value(bb, sym(bb, t.args[0]))
        chain = [x[1].rsplit('::', 1)[-1] for x in walk(recv) if isinstance(x, tuple) and x and x[0] == 'call']
        buffering = [n_ for n_ in chain if n_ in ('peekable', 'multipeek', 'peek_nth', 'tuple_windows', 'chunks', 'batching', 'put_back', 'put_back_n', 'tee', 'fuse_chunks')]
        rooted = has(core(recv), ('arg', 1, ANY)) or has(recv, ('arg', 1, ANY))
        if not rooted:
            continue
        ctx.require(not buffering, bb, 'fill-pulls-source', 'the fill loop pulls from the source iterator itself (line %d)' % t.span['line'],
                    'the fill loop pulls through `%s` created inside build_batch over the borrowed source (line %d): an item the adaptor has taken out of the source '
                    'for look-ahead is dropped with the adaptor when build_batch returns -- it reaches no batch' % ('/'.join(buffering), t.span['line']), t.span)
    # progress: with an empty buffer the fill loop pulls at least one item
    if len(fl) == 1:
        conds = [g for g in edge_guards(bb) if g.block in fl[0].blocks and g.target in fl[0].blocks and g.atom()[1] is True and
                 g.atom()[0][0] == 'bin' and has(g.atom()[0], Call('BatchLimit::limit'))]
        okp = False
        why = 'no fill condition found'
        if not conds:
            raise AnchorMissing('the condition of the fill loop of build_batch (a comparison of BatchLimit::limit() inside the loop)')
        if conds:
            t0 = core(conds[0].atom()[0])
            budget = ('bin', 'Mul', ('arg', 6, ANY), ('arg', 8, ANY))
            if match(t0, ('bin', 'Le', Call('BatchLimit::limit', ANY), budget)) or match(t0, ('bin', 'Ge', budget, Call('BatchLimit::limit', ANY))):
                okp = True    # 0 <= anything: an empty buffer always pulls
            elif match(t0, ('bin', 'Lt', Call('BatchLimit::limit', ANY), budget)):
                # strict: needs budget >= 1, i.e. both factors clamped in Batched::new
                nw = ctx.body(B + '::new')
                from analysis.sym import agg_field
                rv = [v for v, blk in ret_values(nw)]
                okp = len(rv) == 1 and match(core(agg_field(ctx.facts, rv[0], 'batch_limit')), Call('Ord::max', ANY, Const(1))) and \
                    match(core(agg_field(ctx.facts, rv[0], 'prefetch_factor')), Call('Ord::max', ANY, Const(1)))
                why = 'strict fill condition with an unclamped budget: with budget 0 nothing is ever pulled and every item is lost'
            else:
                why = 'fill condition is %s' % show_in(bb, conds[0].atom()[0])
        ctx.require(okp, bb, 'fill-progress', 'an empty buffer always leads to at least one pull (0 <= limit * prefetch_factor)', why)


@rule('C06', 'R-C06-5', 'T6 NONDET',
      'the only randomness of batching is the rng seeded from the given seed; sorting is the stable sort_by_key on the item size')
def r5(ctx):
    bb, bf = _bodies(ctx)
    nw = ctx.body(B + '::new')
    for t in nw.calls(r'from_os_rng$|from_entropy$|rand::rng$|thread_rng$'):
        under_none = any(match(tt, ('arg', 7, ANY)) and names == {'None'} for tt, names in variant_facts_at(nw, t.bb))
        ctx.require(under_none, nw, 'os-rng-only-without-seed', 'OS randomness only on the `seed is None` edge', None, t.span)
    sd = [t for t in nw.calls(r'seed_from_u64$')]
    ctx.require(len(sd) == 1 and match(core(sym(nw, sd[0].args[0])), ('arg', 7, ANY)), nw, 'seeded', 'rng = seed_from_u64(seed)', None)
    rnd = []
    for b in [bb, bf] + closures_in(ctx, bb):
        for t in b.calls(r'rand::|Rng::|SliceRandom|shuffle$|from_os_rng|thread_rng'):
            rnd.append((b, t))
    ok = True
    for b, t in rnd:
        rng_args = [a for a in args_of(b, t) if match(core(a), ('arg', 3, ANY))]
        good = bool(rng_args)
        ctx.require(good, b, 'rng-source|' + (t.callee_res() or '').rsplit('::', 1)[-1],
                    'random draw `%s` uses the rng parameter' % (t.callee_res() or '').rsplit('::', 1)[-1],
                    'random draw `%s` does not use the seeded rng' % t.callee_res(), t.span)
    nx = ctx.body('<data::loading::Batched as std::iter::Iterator>::next')
    c = [t for t in nx.calls(B + '::build_batch$')]
    ok = len(c) == 1 and match(core(sym(nx, c[0].args[2])), ('field', ('arg', 1, ANY), 'rng')) and \
        match(core(sym(nx, c[0].args[0])), ('field', ('arg', 1, ANY), 'iter')) and \
        match(core(sym(nx, c[0].args[1])), ('field', ('arg', 1, ANY), 'shuffle_buffer'))
    for i, f in ((3, 'sort'), (4, 'shuffle'), (5, 'batch_limit'), (6, 'batch_limit_type'), (7, 'prefetch_factor')):
        ok = ok and len(c) == 1 and match(core(sym(nx, c[0].args[i])), ('field', ('arg', 1, ANY), f))
    ctx.require(ok, nx, 'next-args', 'next() passes its own iter, buffer, rng and configuration to build_batch', None)
    srt = [t for t in bb.calls(r'sort_by_key$|sort_unstable|sort_by$|slice::sort$|sort_by_cached_key$')]
    ok = len(srt) >= 1
    for st_ in srt:
        ok = ok and (st_.callee_res() or '').endswith('slice::sort_by_key')
        if ok:
            clo = closure_of(ctx, sym(bb, st_.args[1]))
            rv = ret_values(clo)
            ok = len(rv) == 1 and match(core(rv[0][0]), Call('ItemSize::size', ('arg', 2, ANY)))
    ctx.require(ok, bb, 'stable-sort', 'buffer is sorted with the stable sort_by_key(|a| a.size())', None)


def _removed_range(tree):
    """the call that takes a range of items out of a vector and yields them: `v.splice(r, <empty>)` or `v.drain(r)` ->
    (vector tree, range tree, True when nothing is put back in their place)"""
    for s_ in walk(tree):
        if isinstance(s_, tuple) and s_ and s_[0] == 'call' and s_[1].endswith('Vec::splice') and len(s_[2]) == 3:
            return s_[2][0], s_[2][1], bool(match(s_[2][2], Call('Vec::new')))
        if isinstance(s_, tuple) and s_ and s_[0] == 'call' and s_[1].endswith('Vec::drain') and len(s_[2]) == 2:
            return s_[2][0], s_[2][1], True
    return None


@rule('C06', 'R-C06-6', 'T3c PROGRESS',
      'every Some(batch) of build_batch removed at least one item from the iterator or the buffer; the random '
      'sub-sequence is chosen among the computed candidates and spliced out of the buffer')
def r6(ctx):
    bb, bf = _bodies(ctx)
    for v, blk in ret_values(bb):
        if not (v[0] == 'agg' and v[2].endswith('Option::Some')):
            continue
        from analysis.alts import flatten as _flatten, expand as _expand
        alts_ = _flatten(_expand(ctx.facts, bb, nosite(v[3][0])))
        if len(alts_) > 1:
            # the batch is chosen among several values (a helper's two results): judge each alternative
            for a_ in alts_:
                av = init_value(bb, a_.value)
                if _removed_range(av) is not None and _removed_range(av)[2] and match(_removed_range(av)[0], ('arg', 2, ANY)):
                    # the range taken out is a candidate of the search (non-empty by construction) or provably non-empty (hi - lo a positive constant)
                    rg_ = core(_removed_range(av)[1])
                    nonempty = None
                    if rg_[0] == 'agg' and rg_[2].endswith('Range::Range') and len(rg_[3]) == 2:
                        lo_, hi_ = core(rg_[3][0]), core(rg_[3][1])
                        cand_ = lo_[0] == 'field' and hi_[0] == 'field' and lo_[2] == 0 and hi_[2] == 1 and nosite(lo_[1]) == nosite(hi_[1])
                        from analysis import poly as _pl
                        try:
                            d_ = _pl.sub(_pl.poly(hi_), _pl.poly(lo_))
                            const_ = d_.get((), 0) if set(d_.keys()) <= {()} else None
                        except Exception:
                            const_ = None
                        nonempty = True if cand_ else (const_ is not None and const_ >= 1) if const_ is not None else None
                    if nonempty is False:
                        ctx.fail(bb, 'empty-range-batch', 'a returned batch is the range %s of the buffer, which is empty: Some(vec![]) is returned, nothing is removed, and the '
                                 'next call does the same -- empty batches forever while the items stay in the buffer' % show_in(bb, rg_)[:80], bb.blocks[blk].term.span)
                    else:
                        ctx.ok(bb, 'alternative batch: spliced sub-sequence', bb.blocks[blk].term.span)
                elif any(isinstance(x, tuple) and x and x[0] == 'call' and x[1].endswith('into_vec') or (isinstance(x, tuple) and x and x[0] == 'call' and 'box' in x[1]) for x in walk(av)):
                    pops = [t for t in bb.calls(r'Vec::pop$') if match(sym(bb, t.args[0]), ('arg', 2, ANY))]
                    ctx.require(len(pops) >= 1, bb, 'fallback-pops', 'the fallback batch (no candidate range) is one item popped from the buffer', None, bb.blocks[blk].term.span)
                else:
                    ctx.fail(bb, 'fallback-pops', 'a returned batch is %s' % show_in(bb, av)[:100], bb.blocks[blk].term.span)
            continue
        inner = init_value(bb, v[3][0])
        if _removed_range(inner) is not None:
            rm = _removed_range(inner)
            rng_ = core(rm[1])
            ok = match(rm[0], ('arg', 2, ANY)) and rng_[0] == 'agg' and rng_[2].endswith('Range::Range')
            if ok:
                lo, hi = rng_[3]
                ok = match(lo, ('field', ('index', Cap('subs'), Cap('i')), 0)) and match(hi, ('field', ('index', Cap('subs2'), Cap('i2')), 1))
                e = {}
                ok = ok and match(lo, ('field', ('index', Cap('subs'), Cap('i')), 0), e) and match(hi, ('field', ('index', Cap('subs'), Cap('i')), 1), e)
                if ok:
                    ok = match(e['i'], Call('random_range', ('arg', 3, ANY), ('agg', 'adt', ANY, (Const(0), Call('Vec::len', Pred(lambda u: nosite(u) == nosite(e['subs'])))))))
                    ok = ok and match(init_value(bb, e['subs']), Call('find_subsequences_of_max_size_k', ANY, ('arg', 6, ANY), ANY))
            ctx.require(ok, bb, 'subsequence-choice', 'batch = buf.splice(subs[i].0 .. subs[i].1) with i = rng.random_range(0..subs.len())',
                        'sub-sequence batch is %s' % show_in(bb, inner), bb.blocks[blk].term.span)
            # the replacement is empty and the result is collected
            ok2 = rm[2] and match(inner, Call('Iterator::collect', ANY))
            ctx.require(ok2, bb, 'splice-removes', 'the chosen range is removed from the buffer (replaced by nothing) and collected', None)
        else:
            # `vec![buf.pop().unwrap()]`: the element is written through the box pointer; locate the pop by dominance
            pops = [t for t in bb.calls(r'Vec::pop$') if match(sym(bb, t.args[0]), ('arg', 2, ANY)) and cfg.dominates(bb, t.bb, blk)
                    and any(pol is True and match(tt, Call('Vec::is_empty', ANY)) and not match(tt, Call('Vec::is_empty', ('arg', 2, ANY)))
                            for tt, pol, g in atoms_at(bb, t.bb))]
            ctx.require(len(pops) == 1, bb, 'fallback-pops', 'the fallback batch (no candidate range) is one item popped from the buffer',
                        'fallback batch is %s' % show_in(bb, inner), bb.blocks[blk].term.span)
    # the limit function handed to the sub-sequence search is the BatchLimit of the candidate slice
    fs = [t for t in bb.calls(r'find_subsequences_of_max_size_k$')]
    if len(fs) != 1:
        raise AnchorMissing('find_subsequences_of_max_size_k call')
    clo = closure_of(ctx, sym(bb, fs[0].args[2]))
    rv = ret_values(clo)
    ok = len(rv) == 1 and match(core(rv[0][0]), Call('BatchLimit::limit', Call('BatchLimit::from_items', ('arg', 2, ANY), ('upvar', 0, ANY))))
    ctx.require(ok, clo, 'subsequence-size-fn', 'candidate size = BatchLimit::from_items(sub_items, limit_type).limit()', None)
    ctx.require(match(core(sym(bb, fs[0].args[0])), ('arg', 2, ANY)) and match(core(sym(bb, fs[0].args[1])), ('arg', 6, ANY)), bb,
                'subsequence-args', 'candidates are searched in the buffer with the batch limit', None, fs[0].span)
    # sorted before the search
    srt = [t for t in bb.calls(r'sort_by_key$')]
    ctx.require(bool(srt) and cfg.dominates(bb, srt[0].bb, fs[0].bb), bb, 'sorted-before-search', 'the buffer is sorted before candidate ranges are computed', None)


@rule('C06', 'R-C06-7', 'T4 GUARD (dispatch of the plain mode)',
      'the order-preserving direct path of build_batch (batches cut straight from the buffer remainder and the iterator) is taken '
      'exactly when neither sort nor shuffle is requested -- no other parameter (prefetch factor, limits) decides it: the buffered '
      'path pops batches from the back of the buffer and does not preserve input order')
def r7(ctx):
    bb, bf = _bodies(ctx)
    calls = [t for t in bb.calls(B + '::batch_from$')]
    if not calls:
        raise AnchorMissing('batch_from calls of build_batch')
    order = sorted(calls, key=lambda t: len(cfg.dominators(bb)[t.bb]))
    first = order[0]
    at = [(core(tt), pol) for tt, pol, g in atoms_at(bb, first.bb) if pol is not None]
    flags = [(c, pol) for c, pol in at if c[0] == 'arg' and bb.local_ty(c[1]) == 'bool']
    other = [(c, pol) for c, pol in at if not (c[0] == 'arg' and bb.local_ty(c[1]) == 'bool')]
    ok = len({c[1] for c, pol in flags}) == 2 and all(pol is False for c, pol in flags)
    ctx.require(ok, bb, 'plain-under-both-flags', 'the direct path runs under !sort && !shuffle', 'the direct path runs under %s' % [('' if p_ else '!') + show_in(bb, c) for c, p_ in at], first.span)
    ctx.require(not other, bb, 'plain-only-flags', 'nothing but the two flags selects the direct path',
                'the direct path also depends on %s: with sort = shuffle = false and that condition false, batches are cut from the back of the prefetch buffer '
                'and no longer follow the input order' % [('' if p_ else '!') + show_in(bb, c)[:60] for c, p_ in other], first.span)
    # conversely: with both flags false nothing else is reachable -- the flag test dominates every other batch_from
    for t in order[1:]:
        at2 = [(core(tt), pol) for tt, pol, g in atoms_at(bb, t.bb) if pol is not None]
        # a later batch_from must not be reachable with both flags false: reach_const with the two flags set to false
        pass


@rule('C06', 'R-C06-8', 'T2 CHAIN (the size tested against the limit is the size of that window)',
      'find_subsequences_of_max_size_k compares with k only values that are `size_fn(&values[a..b])` of one window: the padded batch size '
      '(count x largest item) handed in by build_batch is not additive, so a size assembled from the previous size plus the size of '
      'the new element under-estimates the window and batches over the limit are emitted')
def r8(ctx):
    from analysis.alts import value_alts
    b = ctx.body('utils::find_subsequences_of_max_size_k')
    n = 0
    APPLY = Call('::call', ('arg', 3, ANY), ('agg', 'tuple', ANY, (Pred(lambda u: has(core(u), ('arg', 1, ANY)) and core(u)[0] in ('call', 'index')),)))
    for g in edge_guards(b):
        t, pol = g.atom()
        c = peel(t)
        if pol is None or c[0] != 'bin' or c[1] not in ('Le', 'Lt', 'Ge', 'Gt'):
            continue
        for x, k in ((c[2], c[3]), (c[3], c[2])):
            if not match(core(k), ('arg', 2, ANY)):
                continue
            n += 1
            alts_ = []
            seen_l = set()

            def gather(tree, depth=0):
                # every value the compared variable can hold: its definitions, through copies of other variables (loop-carried ones too)
                for a in value_alts(ctx.facts, b, nosite(tree), expanded=True):
                    cv = core(a.value)
                    if cv[0] in ('var', 'phi') and depth < 6:
                        l = cv[2] if cv[0] == 'var' else cv[1]
                        if l in seen_l:
                            continue
                        seen_l.add(l)
                        from analysis.sym import defs_of, symbolizer, simplify
                        whole, partial = defs_of(b, l)
                        z = symbolizer(b)
                        for d in whole:
                            gather(simplify(z.rvalue(d.rv, 0, (l,)) if hasattr(d, 'rv') else z.call(d, 0, (l,))), depth + 1)
                        continue
                    alts_.append(a)
            gather(x)
            bad = [a for a in alts_ if not match(core(a.value), APPLY)]
            ctx.require(not bad, b, 'window-size|line', 'the value compared with k at line %d is size_fn of a window of `values`' % b.blocks[g.block].term.span['line'],
                        'the value compared with k at line %d can be `%s`: not the size function applied to one window (a size that is not additive, like the padded '
                        'batch size, is then under-estimated and the limit is exceeded)' % (b.blocks[g.block].term.span['line'], show_in(b, bad[0].value)[:160] if bad else ''),
                        b.blocks[g.block].term.span)
    if n < 3:
        raise AnchorMissing('comparisons with k in find_subsequences_of_max_size_k (found %d)' % n)


@rule('C06', 'R-C06-9', 'T4 GUARD (no allocation sized by the batch limit)',
      'batch_from / build_batch never reserve memory in proportion to the user\'s batch limit (Vec::with_capacity(limit), reserve(limit)): the '
      'limit is only bounded from below, "no limit" is written usize::MAX, and a capacity of that size panics ("capacity overflow") or aborts '
      'before the first item is pulled')
def r9(ctx):
    bb, bf = _bodies(ctx)
    n = 0
    for b in (bb, bf):
        lim = {i for i in range(1, b.arg_count + 1) if 'limit' in (b.var_name(i) or '') and b.local_ty(i) == 'usize'}
        for x in [b] + closures_in(ctx, b):
            for t in x.calls(r'::with_capacity$|::reserve$|::reserve_exact$'):
                n += 1
                a = core(sym(x, t.args[-1]))
                if x is not b:
                    from rules.common import resolve_upvars
                    a = core(resolve_upvars(ctx, x, a))
                bad = [y for y in walk(a) if isinstance(y, tuple) and y and y[0] == 'arg' and y[1] in lim]
                ctx.require(not bad, x, 'capacity-from-limit|' + norm_path(b.path).rsplit('::', 1)[-1], 'the capacity hint at line %d does not depend on the batch limit' % t.span['line'],
                            '`%s(%s)` at line %d sizes an allocation by the batch limit: with an unbounded limit (usize::MAX) this is a capacity overflow panic / allocation '
                            'failure before any item is batched' % ((t.callee_res() or '').rsplit('::', 1)[-1], show_in(x, a)[:60], t.span['line']), t.span)
    ctx.ok(None, '%d capacity hints in batch_from / build_batch inspected' % n)
