"""C15 Spelling corruption makes one bounded edit and never touches protected positions."""
import re
from analysis.engine import rule, AnchorMissing
from analysis import cfg
from analysis.facts import norm_path
from analysis.sym import sym, show_in, nosite, peel, core, walk, ret_values, args_of, guards_at, atoms_at, \
    variant_facts_at, cmp_facts_at, init_value, edge_guards, symbolizer, simplify, loop_source, defs_of, var_defs
from analysis.pat import match, Call, Cap, ANY, Pred, Const, has, chain_names
from rules.common import closure_of, closures_in, panic_sites, state_locals, local_defs, V, resolve_upvars

EW = 'corrupt::edit_word'


R = {}


def _var(name):
    """role based (never the debug name): R maps a role to the local chosen by type / structure"""
    return Pred(lambda t: isinstance(t, tuple) and t and t[0] == 'var' and len(t) > 2 and R.get(name) == t[2])


def _one(b, ty, what):
    c = state_locals(b, ty)
    if len(c) != 1:
        raise AnchorMissing('%s (mutable local of type %s): found %d' % (what, ty, len(c)))
    return c[0]


# ---------------------------------------------------------------------------
# T4a: lower bounds for checked subtractions

def _lb(b, blk, x, depth=0):
    """provable lower bound of the unsigned value x at block blk (from dominating comparison facts)"""
    x = core(x)
    if x[0] == 'const' and x[2] is not None:
        return x[2]
    best = 0
    if x[0] == 'bin' and x[1] == 'Add' and depth < 4:
        best = max(best, _lb(b, blk, x[2], depth + 1) + _lb(b, blk, x[3], depth + 1))
    if x[0] == 'call' and x[1].endswith('::max') and len(x[2]) == 2 and depth < 4:
        best = max(best, _lb(b, blk, x[2][0], depth + 1), _lb(b, blk, x[2][1], depth + 1))
    nx = nosite(x)
    if x[0] == 'call' and x[1].rsplit('::', 1)[-1] == 'len' and len(x[2]) == 1:
        # `!c.is_empty()` is `c.len() >= 1`
        rc = nosite(core(x[2][0]))
        for t_, pol_, g_ in atoms_at(b, blk):
            c_ = core(t_)
            if pol_ is False and c_[0] == 'call' and c_[1].rsplit('::', 1)[-1] == 'is_empty' and len(c_[2]) == 1 and nosite(core(c_[2][0])) == rc:
                best = max(best, 1)
    # an integer `match x { 0 => .., _ => <here> }`: the guard excludes 0 (or selects values >= 1)
    for g in guards_at(b, blk):
        if g.dty != 'bool' and g.t[0] != 'discr' and nosite(core(g.t)) == nx:
            if g.excluded is not None and 0 in g.excluded:
                k = 1
                while k in g.excluded:
                    k += 1
                best = max(best, k)
            elif g.values:
                best = max(best, min(g.values))
    for op, l, r in cmp_facts_at(b, blk):
        cl, cr = nosite(core(l)), nosite(core(r))
        for o, p, q in ((op, cl, cr), ({'Lt': 'Gt', 'Gt': 'Lt', 'Le': 'Ge', 'Ge': 'Le', 'Eq': 'Eq', 'Ne': 'Ne'}[op], cr, cl)):
            if p != nx:
                continue
            if o == 'Gt':
                best = max(best, (_lb(b, blk, q, depth + 1) if depth < 3 else 0) + 1)
            elif o == 'Ge':
                best = max(best, _lb(b, blk, q, depth + 1) if depth < 3 else 0)
            elif o == 'Ne' and q[0] == 'const' and q[2] == 0:
                best = max(best, 1)
            elif o == 'Eq' and q[0] == 'const' and q[2] is not None:
                best = max(best, q[2])
    return best


def unguarded_subs(b):
    """Assert(Overflow(Sub)) terminators whose minuend is not provably >= the (constant) subtrahend"""
    out = []
    n = 0
    for t in b.terms('assert'):
        if t.msg['k'] != 'overflow' or t.msg.get('op') != 'Sub':
            continue
        if t.span['exp']:
            continue
        n += 1
        from analysis.facts import Operand
        a = sym(b, Operand(t.msg['a']))
        c = core(sym(b, Operand(t.msg['b'])))
        if c[0] == 'const' and c[2] is not None:
            need = c[2]
            have = _lb(b, t.bb, a)
            if have < need:
                out.append((t, a, c, have))
        else:
            # variable subtrahend: need fact a >= c or a > c
            na, nc = nosite(core(a)), nosite(c)
            ok = False
            for op, l, r in cmp_facts_at(b, t.bb):
                cl, cr = nosite(core(l)), nosite(core(r))
                if (op in ('Gt', 'Ge') and cl == na and cr == nc) or (op in ('Lt', 'Le') and cl == nc and cr == na):
                    ok = True
            if not ok:
                out.append((t, a, c, None))
    return out, n


@rule('C15', 'R-C15-1', 'T4a GUARD (checked subtractions)',
      'every checked subtraction in corrupt.rs (edit_word, its closures and the context-table providers) has a minuend '
      'that is provably >= the subtrahend on every path (idx > 0, idx > other_idx, len > 1, ...)')
def r1(ctx):
    bodies = [b for b in ctx.facts.bodies if b.file() == 'src/corrupt.rs' and not b.span['exp'] and b.path not in ctx.facts.inlined_paths]
    total = 0
    for b in bodies:
        ctx.stats['bodies_inspected'].add(b.path)
        bad, n = unguarded_subs(b)
        total += n
        for t, a, c, have in bad:
            ctx.fail(b, 'unguarded-sub|' + norm_path(b.path).split('corrupt::', 1)[-1][:40], '%s: `%s - %s` at line %d can underflow (proved lower bound of the minuend: %s): '
                     'panics with overflow checks, wraps otherwise' % (norm_path(b.path), show_in(b, a), show_in(b, c), t.span['line'], have), t.span)
    if total < 2:
        raise AnchorMissing('expected checked subtractions in corrupt.rs, found %d' % total)
    ctx.ok(None, '%d checked subtractions in corrupt.rs inspected' % total)
    # the providers use checked_sub for idx - 1
    for impl in ('InsertEdits', 'ReplaceEdits'):
        cands = [b for b in bodies if b.path.endswith('::get_edits') and b.impl_self and impl in b.impl_self]
        if len(cands) != 1:
            raise AnchorMissing('%s::get_edits' % impl)
        b = cands[0]
        gets = [t for t in b.calls(r'CharString::get$')]
        ctx.require(len(gets) >= 1, b, 'provider|' + impl, '%s::get_edits looks the context up with cs.get(..) (Option, no panic)' % impl, None)
        ps = [(t, d) for t, d in panic_sites(b) if not d.startswith('assert')]
        allowed = 1 if impl == 'ReplaceEdits' else 0   # expect("cannot replace empty string"): precondition cs.len() > 0 (candidates come from 0..cs.len())
        ctx.require(len(ps) <= allowed, b, 'provider-panics|' + impl, '%s::get_edits has no unreviewed explicit panic site' % impl,
                    '%s::get_edits has %d explicit panic sites (%s)' % (impl, len(ps), [d for _, d in ps]))


def _arms(ctx, b):
    """closures of edit_word grouped by role"""
    cl = closures_in(ctx, b, recursive=False)
    roles = {}
    filter_site = {}
    pending = []
    for c in cl:
        rv = [core(v) for v, blk in ret_values(c)]
        txt = ' '.join(repr(x) for x in rv)
        # the range the filter runs over tells the edit kind: insert 0..=len, replace 0..len, delete 0..len, swap 0..len-1
        rng_kind = None
        for t in b.calls(r'Iterator::filter_map$|Iterator::filter$'):
            a = sym(b, t.args[1])
            if a[0] == 'agg' and a[2] == c.path:
                filter_site[c.path] = t
                src = core(sym(b, t.args[0]))
                if has(src, Call('RangeInclusive::new', ANY, ANY)):
                    rng_kind = 'inclusive'
                elif has(src, ('agg', 'adt', Pred(lambda n: n.endswith('Range::Range')), (ANY, ('bin', 'Sub', ANY, Const(1))))):
                    rng_kind = 'minus1'
                else:
                    rng_kind = 'plain'
        if any(has(x, Call('GetEdits::get_edits', ANY, ANY, ANY)) or has(x, Call('get_edits')) for x in rv):
            roles['insert-filter' if rng_kind == 'inclusive' else 'replace-filter'] = c
        elif any(has(x, Call('CanEdit::can_edit', ANY, ANY, ANY)) or has(x, Call('can_edit')) for x in rv):
            roles['swap-filter' if rng_kind == 'minus1' else 'delete-filter'] = c
        else:
            # a re-indexing closure: its role is the edit kind of the match arm (edit_idx == 0 / 1 / 2) that uses it
            for t in b.calls(r'Iterator::map$'):
                a = sym(b, t.args[1])
                if a[0] == 'agg' and a[2] == c.path:
                    # only a map over the old exclusion set is a re-indexing (a map over 0..len that produces the new positions is not)
                    if not any(isinstance(x, tuple) and x and x[0] == 'call' and 'HashSet' in x[1] and x[1].endswith('into_iter') for x in walk(init_value(b, sym(b, t.args[0])))):
                        continue
                    for g in guards_at(b, t.bb):
                        if g.values is not None and len(g.values) == 1 and g.t[0] == 'index' and g.dty != 'bool':
                            k = {0: 'insert-shift', 1: 'delete-shift', 2: 'replace-shift'}.get(list(g.values)[0])
                            if k:
                                roles[k] = c
                    pending.append((c, t))
    # a re-indexing closure belongs to the edit kind whose candidate filter runs in the same match arm (dominates its use): this does
    # not depend on how the chosen edit kind is represented (integer code, enum, ...)
    # among several mapping closures of one arm the re-indexing one is the one that runs over the old exclusion set
    pending.sort(key=lambda ct: 0 if any(isinstance(x, tuple) and x and x[0] == 'call' and 'HashSet' in x[1] and x[1].endswith('into_iter')
                                           for x in walk(init_value(b, sym(b, ct[1].args[0])))) else 1)
    for c, t in pending:
        if c in roles.values():
            continue
        for fr, sr in (('insert-filter', 'insert-shift'), ('delete-filter', 'delete-shift'), ('replace-filter', 'replace-shift')):
            fc = roles.get(fr)
            if fc is not None and fc.path in filter_site and cfg.dominates(b, filter_site[fc.path].bb, t.bb) and sr not in roles:
                roles[sr] = c
    return roles


@rule('C15', 'R-C15-2', 'T1 ORDER (exclusion set consulted)',
      'a position is an edit candidate only if none of the positions the edit would touch is excluded: insert idx and '
      'idx-1, delete idx, replace idx, swap idx and idx+1')
def r2(ctx):
    b = ctx.body(EW)
    roles = _arms(ctx, b)
    want = {'insert-filter': {'idx', 'idx-1'}, 'delete-filter': {'idx'}, 'replace-filter': {'idx'}, 'swap-filter': {'idx', 'idx+1'}}
    for role, need in want.items():
        c = roles.get(role)
        if c is None:
            raise AnchorMissing('candidate filter closure for %s' % role)
        got = {}
        for t in c.calls(r'HashSet::contains$'):
            x = core(sym(c, t.args[1]))
            if match(x, ('arg', 2, ANY)):
                got['idx'] = t
            elif match(x, ('bin', 'Sub', ('arg', 2, ANY), Const(1))):
                got['idx-1'] = t
            elif match(x, ('bin', 'Add', ('arg', 2, ANY), Const(1))):
                got['idx+1'] = t
            else:
                got['?' + show_in(c, x)] = t
            ctx.require(match(core(sym(c, t.args[0])), ('upvar', ANY, 'exclude_indices')) or match(core(sym(c, t.args[0])), ('upvar', ANY, ANY)), c,
                        'set|' + role, 'membership is tested on the captured exclusion set', None, t.span)
        ctx.require(set(got) == need, c, 'positions|' + role, '%s consults the exclusion set for %s' % (role, sorted(need)),
                    '%s consults the exclusion set for %s (expected %s): a protected character can be altered or used in an edit' % (role, sorted(got), sorted(need)))
        # acceptance is unreachable from any `contains == true` edge (path sensitive for || temporaries)
        accept = [blk for v, blk in ret_values(c) if has(core(v), Call('get_edits')) or has(core(v), Call('can_edit'))]
        for nm, t in got.items():
            sw = c.blocks[t.target].term if t.target is not None else None
            true_t = None
            if sw is not None and sw.kind == 'switch':
                true_t = sw.otherwise if all(v == 0 for v, _ in sw.arms) else [tg for v, tg in sw.arms if v == 1][0]
                r = cfg.reach_const(c, true_t)
            else:
                # stored into a bool variable: follow from the call's successor with threading
                r = None
            if r is not None:
                ctx.require(not any(a in r for a in accept), c, 'reject-if-excluded|%s|%s' % (role, nm),
                            '%s: an excluded %s rejects the candidate' % (role, nm), '%s: a candidate is accepted although %s is excluded' % (role, nm), t.span)
            else:
                # value flows into a variable tested later: the accepting block must be guarded by that variable being false
                ok = all(any(pol is False and (nosite(core(tt)) == nosite(core(sym(c, t.dest))) or tt[0] in ('var', 'phi')) for tt, pol, g in atoms_at(c, a)) for a in accept)
                ctx.require(ok, c, 'reject-if-excluded|%s|%s' % (role, nm), '%s: an excluded %s rejects the candidate' % (role, nm), None, t.span)


@rule('C15', 'R-C15-3', 'T13 PAIR (re-indexing of the exclusion set)',
      'after an edit the old exclusion set is re-indexed for the length change by a total map collected into a new set: '
      'insert idx >= insert_idx -> idx + insert_len; delete idx > delete_idx -> idx - 1; replace idx > replace_idx -> '
      'idx + replacement_len - 1 (exact); swap unchanged; then the edited positions base..base+len are added')
def r3(ctx):
    b = ctx.body(EW)
    R.clear()
    R['exclude_indices'] = _one(b, r'^std::collections::HashSet<usize>$', 'exclusion set')
    roles = _arms(ctx, b)
    table = {
        'insert-shift': ('Ge', lambda t: match(t, ('bin', 'Add', ('arg', 2, ANY), ('upvar', ANY, ANY)))),
        'delete-shift': ('Gt', lambda t: match(t, ('bin', 'Sub', ('arg', 2, ANY), Const(1)))),
        'replace-shift': ('Gt', lambda t: match(t, ('bin', 'Sub', ('bin', 'Add', ('arg', 2, ANY), ('upvar', ANY, ANY)), Const(1)))),
    }
    for role, (op, shifted) in table.items():
        c = roles.get(role)
        if c is None:
            ctx.fail(b, 'shift-missing|' + role, 'the re-indexing map for %s (exclude_indices.into_iter().map(..).collect()) was not found: the '
                     'exclusion set is not rebuilt as a total function of the old one' % role.split('-')[0])
            continue
        kinds = {}
        for v, blk in ret_values(c):
            cv = core(v)
            pol = None
            for tt, p_, g in atoms_at(c, blk):
                ct = core(tt)
                if ct[0] == 'bin' and match(ct[2], ('arg', 2, ANY)) and ct[3][0] == 'upvar':
                    pol = (ct[1], p_)
            if match(cv, ('arg', 2, ANY)):
                kinds['same'] = pol
            elif shifted(cv):
                kinds['shifted'] = pol
            else:
                kinds['other:' + show_in(c, cv)] = pol
        ok = kinds.get('shifted') == (op, True) and kinds.get('same') == (op, False) and len(kinds) == 2
        ctx.require(ok, c, 'shift|' + role, '%s: idx %s edit_idx -> shifted exactly, else unchanged' % (role, {'Ge': '>=', 'Gt': '>'}[op]),
                    '%s maps %s (a saturating / wrong shift leaves protected positions pointing at the wrong characters)' % (role, kinds))
        # used as into_iter().map(closure).collect() assigned back to the exclusion set
        used = False
        for t in b.calls(r'Iterator::collect$'):
            ch = sym(b, t.args[0])
            if match(ch, Call('Iterator::map', Pred(lambda u: has(u, _var('exclude_indices'))), Pred(lambda u: u[0] == 'agg' and u[2] == c.path))):
                used = 'HashSet' in b.local_ty(t.dest.local)
        ctx.require(bool(used), b, 'shift-applied|' + role, '%s is applied to the whole old set and collected into the new HashSet' % role, None)
    # no in-place mutation (remove) of the exclusion set anywhere in edit_word
    rem = [t for t in b.calls(r'HashSet::remove$|HashSet::retain$|HashSet::drain$|HashSet::clear$')]
    ctx.require(not rem, b, 'no-in-place-shift', 'the exclusion set is never shifted in place (order of hash iteration cannot drop entries)',
                'the exclusion set is modified in place with %s (line %d): adjacent protected positions can collide and be lost' % (
                    rem[0].callee_res() if rem else '', rem[0].span['line'] if rem else 0), rem[0].span if rem else None)
    # newly edited positions
    ins = [t for t in b.calls(r'HashSet::insert$') if match(core(sym(b, t.args[0])), _var('exclude_indices'))]
    vals = [core(sym(b, t.args[1])) for t in ins]
    loops = [t for t in ins if cfg.innermost_loop(b, t.bb) is not None]
    ok = len(loops) == 2
    for t in loops:
        v = core(sym(b, t.args[1]))
        lp = cfg.innermost_loop(b, t.bb)
        nx = [c for c in b.calls(r'::next$') if c.bb in lp.blocks]
        src = core(loop_source(b, nx[0])) if nx else ()
        okv = v[0] == 'bin' and v[1] == 'Add' and has(src, ('agg', 'adt', Pred(lambda n: n.endswith('Range::Range')), (Const(0), ANY)))
        ok = ok and okv
    if not ok:
        # the same positions added with `extend((0..len).map(|l| base + l))`
        from analysis.seq import seq_of_iter, ITEM as _IT
        from rules.common import range_bounds
        n_ok = len([1 for t in loops])
        for t in b.calls(r'Extend>::extend$|HashSet::extend$'):
            if not match(core(sym(b, t.args[0])), _var('exclude_indices')):
                continue
            sg = seq_of_iter(ctx.facts, b, sym(b, t.args[1]))
            if sg is not None and len(sg) == 1 and sg[0].kind == 'each' and not sg[0].conds and range_bounds(sg[0].src) is not None and range_bounds(sg[0].src)[0] == 0:
                e = core(sg[0].elem)
                if e[0] == 'bin' and e[1] == 'Add' and (core(e[2]) == _IT or core(e[3]) == _IT):
                    n_ok += 1
        okl = True
        for t in loops:
            v = core(sym(b, t.args[1]))
            okl = okl and v[0] == 'bin' and v[1] == 'Add'
        ok = n_ok == 2 and okl
    ctx.require(ok, b, 'new-positions', 'insert / replace add base + l for l in 0..len to the exclusion set', None)
    sw = [v for v in vals if (v[0] == 'var' and 'swap' in v[1]) or (v[0] == 'bin' and v[1] == 'Add' and v[3][0] == 'const' and v[3][2] == 1)
          or (v[0] == 'index')]
    # the two swapped positions: two single inserts, or `extend([i, i + 1])`
    from analysis.seq import seq_of_iter as _soi
    single = [core(sym(b, t.args[1])) for t in ins if cfg.innermost_loop(b, t.bb) is None]
    for t in b.calls(r'Extend>::extend$|HashSet::extend$'):
        if cfg.innermost_loop(b, t.bb) is None and match(core(sym(b, t.args[0])), _var('exclude_indices')):
            tr = sym(b, t.args[1])
            lit = [x for x in walk(nosite(tr)) if isinstance(x, tuple) and x and x[0] == 'agg' and x[1] == 'array']
            if lit and peel(nosite(tr)) == lit[0] or (lit and len(list(walk(nosite(tr)))) <= len(list(walk(lit[0]))) + 3):
                single += [core(e_) for e_ in lit[0][3]]
    okp = len(single) == 2 and any(nosite(a_) == ('bin', 'Add', nosite(b_), ('const', '1_usize', 1)) or
                                   (a_[0] == 'bin' and a_[1] == 'Add' and nosite(core(a_[2])) == nosite(b_) and match(core(a_[3]), Const(1)))
                                   for a_, b_ in ((single[0], single[1]), (single[1], single[0])))
    ctx.require(okp, b, 'swap-positions', 'swap adds swap_idx and swap_idx + 1', None)


@rule('C15', 'R-C15-4', 'T13 PAIR (result string)',
      'the result is sub(0,k) + edit + sub(k | k+1 | k+2, len): insert keeps every character, delete drops one, replace '
      'substitutes one, swap exchanges two neighbours; with no enabled kind / no candidate the word is returned unchanged')
def r4(ctx):
    b = ctx.body(EW)
    kinds = {}
    for v, blk in ret_values(b):
        if not (v[0] == 'agg' and v[1] == 'tuple' and len(v[3]) == 2):
            ctx.fail(b, 'result-shape', 'edit_word returns %s' % show_in(b, v))
            continue
        s = core(v[3][0])
        if s[0] == 'var' and len(s) > 2 and 'String' in b.local_ty(s[2]):
            # the result assembled piece by piece (`String::with_capacity` + push_str): the pieces in the order they are appended
            from analysis.seq import seq_of as _seq_of
            sg = _seq_of(ctx.facts, b, s)
            if sg is not None and len(sg) > 1 and all(x.kind in ('one', 'each') and not x.conds for x in sg):
                s = ('agg', 'tuple', '', tuple(nosite(x.elem if x.kind == 'one' else x.src) for x in sg))
        subs = [x for x in walk(s) if isinstance(x, tuple) and x and x[0] == 'call' and x[1].endswith('CharString::sub')]
        if not subs:
            kinds.setdefault('unchanged', []).append((s, blk))
            continue
        lo = [core(x[2][1]) for x in subs]
        hi = [core(x[2][2]) for x in subs]
        # first piece starts at 0 and ends at k; last piece starts at k+d and ends at len
        first = [x for x in subs if core(x[2][1])[0] == 'const' and core(x[2][1])[2] == 0]
        last = [x for x in subs if match(core(x[2][2]), Call('CharString::len', ANY))]
        if len(first) != 1 or len(last) != 1:
            kinds.setdefault('?', []).append((s, blk))
            continue
        k = core(first[0][2][2])
        st = core(last[0][2][1])
        d = None
        if nosite(st) == nosite(k):
            d = 0
        elif st[0] == 'bin' and st[1] == 'Add' and nosite(st[2]) == nosite(k) and st[3][0] == 'const':
            d = st[3][2]
        kinds.setdefault(d, []).append((s, blk))
    ok = set(k for k in kinds if k != 'unchanged') == {0, 1, 2} and all(len(kinds[d]) == 1 for d in (0, 1, 2) if d in kinds)
    # delete (d=1 without middle) and replace (d=1 with middle) share d == 1
    d1 = kinds.get(1, [])
    ctx.require(set(k for k in kinds if k != 'unchanged') == {0, 1, 2} and len(kinds.get(0, [])) == 1 and len(d1) == 2 and len(kinds.get(2, [])) == 1, b,
                'result-pieces', 'results: insert (rest from k), delete and replace (rest from k+1), swap (rest from k+2)',
                'result pieces: %s' % {str(k): len(v) for k, v in kinds.items()})
    for s, blk in kinds.get('unchanged', []):
        ok = match(s, ('field', Pred(lambda u: True), 'str')) or match(s, ('arg', 1, ANY)) or has(s, ('arg', 1, ANY)) or has(s, ('field', ANY, 'str'))
        ctx.require(ok, b, 'unchanged', 'the unchanged result is the input word', 'unchanged result is %s' % show_in(b, s), b.blocks[blk].term.span)
    if 2 in kinds:
        s, blk = kinds[2][0]
        gets = [core(x[2][1]) for x in walk(s) if isinstance(x, tuple) and x and x[0] == 'call' and x[1].endswith('CharString::get')]
        k = None
        for x in walk(s):
            if isinstance(x, tuple) and x and x[0] == 'call' and x[1].endswith('CharString::sub') and core(x[2][1])[0] == 'const':
                k = core(x[2][2])
        ok = len(gets) == 2 and k is not None and gets[0][0] == 'bin' and nosite(gets[0][2]) == nosite(k) and gets[0][3][2] == 1 and nosite(gets[1]) == nosite(k)
        ctx.require(ok, b, 'swap-order', 'swap = sub(0,k) + c[k+1] + c[k] + sub(k+2, len)', 'swap result is %s' % show_in(b, s))


@rule('C15', 'R-C15-6', 'T2 provenance (chained edits)',
      'corrupt_spelling passes the exclusion set returned by edit_word to the next edit of the same word')
def r6(ctx):
    cands = [b for b in ctx.facts.bodies if b.file() == 'src/data/preprocessing.rs' and list(b.calls(r'corrupt::edit_word$'))]
    if not cands:
        raise AnchorMissing('caller of edit_word in preprocessing.rs')
    for b in cands:
        ctx.stats['bodies_inspected'].add(b.path)
        for t in b.calls(r'corrupt::edit_word$'):
            ex = core(sym(b, t.args[7]))
            res = nosite(core(sym(b, t.dest)))
            lp = cfg.innermost_loop(b, t.bb)
            # the argument is Some(exclude) where exclude is a variable re-assigned from the result .1
            ok = lp is not None
            if ok:
                nm = [x for x in walk(ex) if isinstance(x, tuple) and x and x[0] in ('var', 'phi')]
                ok = bool(nm)
                if ok:
                    loc = nm[0][2] if nm[0][0] == 'var' else nm[0][1]
                    whole, partial = defs_of(b, loc)
                    z = symbolizer(b)
                    vals = [nosite(core(simplify(z.rvalue(d.rv, 0, ())) if hasattr(d, 'rv') else simplify(z.call(d)))) for d in whole]
                    ok = any(match(v, ('field', Pred(lambda u: nosite(u) == res), 1)) or has(v, ('field', Pred(lambda u: nosite(u) == res), 1)) for v in vals)
            ctx.require(ok, b, 'threaded-exclusions', 'the exclusion set passed to edit_word is the one returned by the previous edit',
                        'edit_word is called with %s: protected positions of earlier edits are forgotten' % show_in(b, ex), t.span)


@rule('C15', 'R-C15-7', 'T11 SIBLING (one unit of length)',
      'edit_word measures every length and position in Characters of CS::new(.., use_graphemes): no str::chars / str::len / '
      'char_indices count flows into its index arithmetic (an inserted grapheme cluster of several code points would shift the '
      'protected positions too far)')
def r7(ctx):
    b = ctx.body('corrupt::edit_word')
    bodies = [b] + closures_in(ctx, b)
    cs = [t for x in bodies for t in x.calls(r'CharString::new$')]
    if len(cs) < 2:
        raise AnchorMissing('CharString::new sites of edit_word (found %d)' % len(cs))
    ok = True
    for x in bodies:
        for t in x.calls(r'str::chars$|str::char_indices$|str::len$|str::bytes$|Chars.*::count$|str::encode_utf16$'):
            if (t.callee_res() or '').endswith('str::len'):
                from rules.common import length_consumers
                if not length_consumers(x, t):
                    continue   # only a capacity hint
            ok = False
            ctx.fail(x, 'raw-length|' + (t.callee_res() or '').rsplit('::', 1)[-1], 'edit_word uses `%s` (line %d): a length in code points / bytes, while positions and the exclusion set '
                     'are indexed in Characters (graphemes when use_graphemes is set)' % ((t.callee_res() or ''), t.span['line']), t.span)
    if ok:
        ctx.ok(b, 'edit_word and its %d closures measure lengths through CharString only (%d CS::new sites)' % (len(bodies) - 1, len(cs)))


@rule('C15', 'R-C15-8', 'T11 SIBLING (one segmentation)',
      'every CharString::new of the spelling corruption code receives the caller\'s grapheme flag unchanged (a parameter, configuration field or '
      'captured variable): a site that "optimises" the flag (e.g. `use_graphemes && !s.is_ascii()`) segments "\\r\\n" and friends '
      'differently from the sites it must agree with')
def r_segflag(ctx):
    from rules.common import check_segmentation_flag
    n = check_segmentation_flag(ctx, [ctx.body(n) for n in ['corrupt::edit_word']], 'spelling corruption')
    if n == 0:
        raise AnchorMissing('CharString::new sites of the spelling corruption code')


@rule('C15', 'R-C15-9', 'prerequisite (the segmentation primitive)',
      'CharString::new segments by graphemes(true) / chars() selected by the flag alone and keeps byte lengths at full width '
      '(R-C11-6 re-evaluated): every index, length and range of this property is counted in its characters')
def r_charstring(ctx):
    from rules import c11
    c11.charstring_primitive(ctx)


@rule('C15', 'R-C15-10', 'T10 PROVENANCE (the chosen edit kind is an enabled one)',
      'every unwrap of a provider option (insert / delete / replace / swap) in edit_word runs in the match arm of a kind code that was read '
      'OUT OF the collection of enabled kinds, and that collection receives the code only under provider.is_some(): a kind computed by '
      'arithmetic (`first_enabled + random_range(0..num_enabled)`) lands on a disabled kind whenever the enabled kinds are not contiguous')
def r10(ctx):
    from analysis.seq import seq_of
    from analysis.sym import guards_at
    b = ctx.body(EW)
    prov = {i: b.var_name(i) for i in range(1, b.arg_count + 1) if b.local_ty(i).startswith('std::option::Option<&') and b.var_name(i) in ('insert', 'delete', 'replace', 'swap')}
    if len(prov) != 4:
        raise AnchorMissing('the four provider parameters of edit_word (found %s)' % sorted(prov.values()))
    sites = []
    for t in b.calls(r'Option::(unwrap|expect)$'):
        v = core(sym(b, t.args[0]))
        if v[0] == 'arg' and v[1] in prov:
            sites.append((prov[v[1]], v[1], t.bb, t))
    for c in closures_in(ctx, b):
        for t in c.calls(r'Option::(unwrap|expect)$'):
            v = core(resolve_upvars(ctx, c, core(sym(c, t.args[0]))))
            if v[0] == 'arg' and v[1] in prov:
                top = c
                while top.parent != b.path and ctx.facts.by_path.get(top.parent):
                    top = ctx.facts.by_path[top.parent][0]
                made = [s_ for s_, d_ in b.closures_created() if d_ == top.path]
                if made:
                    sites.append((prov[v[1]], v[1], made[0].bb, t))
    for name, argi, bb, t in sites:
        ok, why = False, 'no match arm on a kind code dominates it'
        for g in guards_at(b, bb):
            if g.dty == 'bool' or g.values is None or len(g.values) != 1 or g.t[0] == 'discr':
                continue
            k = list(g.values)[0]
            x = core(g.t)
            if x[0] == 'call' and x[1].endswith('::choose') and x[2]:
                x = ('index', x[2][0], ('call', 'rand::Rng::random_range', (ANY, ANY)))   # `*kinds.choose(rng).unwrap()`: an element of the collection as well
            if not (x[0] == 'index' and (has(x[2], Call('random_range', ANY, ANY)) or x[2][0] == 'call')):
                why = 'the kind code tested in its match arm is `%s`, not an element read out of the collection of enabled kinds' % show_in(b, g.t)[:100]
                continue
            segs = seq_of(ctx.facts, b, x[1])
            mine = [s_ for s_ in segs or () if s_.kind == 'one' and core(s_.elem)[0] == 'const' and core(s_.elem)[2] == k]
            ok = len(mine) == 1 and len(mine[0].conds) == 1 and mine[0].conds[0][1] is True and \
                match(core(mine[0].conds[0][0]), Call('Option::is_some', ('arg', argi, ANY)))
            why = 'the code %d enters the collection of enabled kinds under %s' % (k, [repr(s_)[:80] for s_ in mine])
            if not ok and not mine and segs is not None and len(segs) == 1 and segs[0].kind == 'each':
                # table form: `[insert.is_some(), delete.is_some(), ..].iter().enumerate().filter_map(|(kind, &on)| on.then_some(kind))`:
                # the code is the position in the table, kept when the entry at that position is true
                from analysis.seq import ITEM as _IT
                sg = segs[0]
                arr = [x_ for x_ in walk(init_value(b, sg.src)) if isinstance(x_, tuple) and x_ and x_[0] == 'agg' and x_[1] == 'array']
                keeps = len(sg.conds) == 1 and sg.conds[0][1] is True and core(sg.conds[0][0]) == ('field', _IT, 1) and core(sg.elem) == ('field', _IT, 0) and \
                    has(core(sg.src), Call('enumerate', ANY))
                if keeps and len(arr) == 1 and k < len(arr[0][3]):
                    ok = match(core(arr[0][3][k]), Call('Option::is_some', ('arg', argi, ANY)))
                    why = 'entry %d of the table of enabled kinds is `%s`' % (k, show_in(b, arr[0][3][k])[:60])
            if ok:
                break
        ctx.require(ok, b, 'enabled-kind|' + name, '`%s.unwrap()` (line %d) runs only for a kind code that was pushed under %s.is_some()' % (name, t.span['line'], name),
                    '`%s.unwrap()` (line %d) is not justified: %s -- with a non-contiguous set of enabled kinds a disabled provider is unwrapped (panic)' % (name, t.span['line'], why), t.span)
    ctx.ok(b, '%d provider unwrap sites of edit_word inspected' % len(sites))


@rule('C15', 'R-C15-11', 'T4a GUARD (slice indexing in corrupt.rs cannot run past the end)',
      'every bounds-checked index in src/corrupt.rs is either a position drawn from a WeightedIndex over the parallel weight list (the reviewed '
      'sample_edit site) or dominated by a comparison `index < len` of the indexed slice: a hand-written walk `while r >= weights[idx] { idx += 1 }` has '
      'no such bound -- floating point rounding lets a draw near the total run one step past the last weight, and edit_word panics')
def r11(ctx):
    from analysis.facts import Operand
    n = 0
    for b in ctx.facts.bodies:
        if b.file() != 'src/corrupt.rs' or b.span['exp'] or b.path in ctx.facts.inlined_paths:
            continue
        ctx.stats['bodies_inspected'].add(b.path)
        for t in b.terms('assert'):
            if t.msg['k'] != 'bounds':
                continue
            n += 1
            idx = sym(b, Operand(t.msg['index']))
            ln = sym(b, Operand(t.msg['len']))
            ci = core(init_value(b, idx))
            sampled = has(ci, Call('sample', ANY, ANY)) and has(ci, Call('WeightedIndex::new', ANY))
            guarded = any(op in ('Lt',) and nosite(core(x)) == nosite(core(idx)) and (nosite(core(y)) == nosite(core(ln)) or match(core(y), Call('len', ANY)))
                          for op, x, y in cmp_facts_at(b, t.bb)) or \
                any(op in ('Gt',) and nosite(core(y)) == nosite(core(idx)) and (nosite(core(x)) == nosite(core(ln)) or match(core(x), Call('len', ANY)))
                    for op, x, y in cmp_facts_at(b, t.bb))
            const_ok = core(idx)[0] == 'const'
            ctx.require(sampled or guarded or const_ok, b, 'index-bound|' + norm_path(b.path).rsplit('::', 1)[-1], 'the index at line %d is a WeightedIndex sample or bounded by the length' % t.span['line'],
                        '%s: the index `%s` at line %d is not bounded by the length of the slice on every path: it can run past the end and panic' % (
                            norm_path(b.path), show_in(b, idx)[:60], t.span['line']), t.span)
    if n < 1:
        raise AnchorMissing('bounds-checked indexing in src/corrupt.rs (found %d sites)' % n)


@rule('C15', 'R-C15-12', 'T2 provenance (the exclusion set is always handed back)',
      'every return of edit_word hands back the caller\'s exclusion set (the parameter, its unwrap_or_default(), or the local set built from it): a '
      'fresh empty set on an early return forgets the protected positions, and the next edit of the chain touches them')
def r12(ctx):
    b = ctx.body(EW)
    n = 0
    for v, blk in ret_values(b):
        if not (v[0] == 'agg' and v[1] == 'tuple' and len(v[3]) == 2):
            continue
        n += 1
        x = v[3][1]
        trees = [x, init_value(b, x)]
        c = core(x)
        ok = any(has(t_, ('arg', 8, ANY)) for t_ in trees)
        if not ok and c[0] == 'var' and len(c) > 2:
            # the local set: every definition of it derives from the parameter (shifted copies of the old set included)
            defs = [v_ for s_, v_ in local_defs(b, c[2])]
            seen, frontier = set(), list(defs)
            while frontier and not ok:
                t_ = frontier.pop()
                if has(t_, ('arg', 8, ANY)) or has(init_value(b, t_), ('arg', 8, ANY)):
                    ok = True
                    break
                for y in walk(t_):
                    if isinstance(y, tuple) and y and y[0] == 'var' and len(y) > 2 and y[2] not in seen:
                        seen.add(y[2])
                        frontier += [v_ for s_, v_ in local_defs(b, y[2])]
        ctx.require(ok, b, 'exclusions-returned', 'the exclusion set returned at line %d derives from the caller\'s set' % b.blocks[blk].term.span['line'],
                    'edit_word returns `%s` as the exclusion set at line %d: the caller\'s protected positions are dropped' % (
                        show_in(b, x)[:60], b.blocks[blk].term.span['line']), b.blocks[blk].term.span)
    if n < 4:
        raise AnchorMissing('tuple results of edit_word (found %d)' % n)


@rule('C15', 'R-C15-13', 'T3 LOOP-EXIT (no resampling loop)',
      'every loop of edit_word and of the edit samplers is driven by an iterator that ends (a `for` over candidates / positions): a loop that draws '
      'from the rng until the draw satisfies a condition ("resample until the replacement differs") never ends for a table whose only positive weight '
      'is the rejected value')
def r13(ctx):
    from analysis.seq import next_call_of
    bodies = [b for b in ctx.facts.bodies if b.file() == 'src/corrupt.rs' and '::tests::' not in b.path]
    n = 0
    for b in bodies:
        for lp in cfg.loops(b):
            n += 1
            draws = [t for t in b.terms('call') if t.bb in lp.blocks and re.search(r'Rng::(random|random_range|random_bool|sample|gen|gen_range)$|Distribution>::sample$|sample_edit$|SliceRandom.*::choose\w*$', t.callee_res() or '')]
            if not draws:
                continue
            driven = next_call_of(b, lp) is not None
            if not driven:
                # a hand-written counting loop (`while i < n { .. draw .. }`) is as bounded as a `for`: some exit must not depend on a drawn value
                from analysis.sym import edge_guards as _eg
                drawn = [nosite(sym(b, t_.dest)) for t_ in draws if t_.dest is not None]
                for (u_, w_) in lp.exits(b):
                    gs_ = [g_ for g_ in _eg(b) if g_.block == u_ and g_.target == w_]
                    dl_ = {t_.dest.local for t_ in draws if t_.dest is not None and not t_.dest.proj}
                    for _ in range(3):
                        # locals the drawn value is moved into inside the loop (`replacement = <temp of the call>`)
                        for st_ in b.stmts():
                            if not (st_.bb in lp.blocks and st_.kind == 'assign' and not st_.lhs.proj):
                                continue
                            raw_ = getattr(st_.rv, 'raw', None) or {}
                            src_ = None
                            if raw_.get('k') == 'use' and isinstance(raw_.get('op'), dict) and 'pl' in raw_['op']:
                                src_ = raw_['op']['pl']['l']
                            elif raw_.get('k') in ('ref', 'cast', 'copy_for_deref') and isinstance(raw_.get('pl'), dict):
                                src_ = raw_['pl']['l']
                            elif raw_.get('k') == 'cast' and isinstance(raw_.get('op'), dict) and 'pl' in raw_['op']:
                                src_ = raw_['op']['pl']['l']
                            if src_ in dl_:
                                dl_.add(st_.lhs.local)

                    def on_draw(tr):
                        for x_ in walk(tr):
                            if not (isinstance(x_, tuple) and x_):
                                continue
                            if any(nosite(x_) == dv_ for dv_ in drawn):
                                return True
                            if (x_[0] == 'var' and len(x_) > 2 and x_[2] in dl_) or (x_[0] == 'phi' and x_[1] in dl_):
                                return True
                        return False
                    if gs_ and not any(on_draw(g_.t) for g_ in gs_):
                        driven = True
            ctx.require(driven, b, 'resampling-loop|' + norm_path(b.path).rsplit('::', 1)[-1],
                        '%s: the loop at line %d that draws from the rng is a `for` over a finite iterator' % (norm_path(b.path), b.blocks[lp.header].term.span['line']),
                        '%s: the loop at line %d draws from the rng (`%s`, line %d) until a condition on the draw holds and has no other exit: for a table in '
                        'which the rejected value is the only one with positive weight it never ends' % (
                            norm_path(b.path), b.blocks[lp.header].term.span['line'], (draws[0].callee_res() or '').rsplit('::', 1)[-1], draws[0].span['line']),
                        b.blocks[lp.header].term.span)
    ctx.ok(None, '%d loops in src/corrupt.rs inspected' % n)
