"""Anchors and shared checks for the threaded pipeline (Pipe::new worker protocol), used by C05, C08 and C09."""
import re
from analysis.engine import AnchorMissing, Definite
from analysis.facts import norm_path
from analysis import cfg
from analysis.sym import sym, show_in, nosite, peel, core, walk, ret_values, args_of, guards_at, atoms_at, \
    variant_facts_at, cmp_facts_at, variant_edges
from analysis.pat import match, Call, Cap, ANY, Pred, Const, has, chain_names
from rules.common import closure_of

PIPE_NEW = 'data::loading::Pipe::new'
ATOMIC_WRITES = r'Atomic(Usize|U64|U32)?::(store|swap|fetch_add|fetch_sub|fetch_max|fetch_min|fetch_update|compare_exchange|compare_exchange_weak|compare_and_swap)$'


class Worker:
    pass


def worker(ctx):
    """the closure passed to Builder::spawn inside Pipe::new, with its protocol sites resolved by role"""
    new = ctx.body(PIPE_NEW)
    from rules.common import closures_in
    SPAWN = r'thread::Builder::spawn$|thread::spawn$|Builder::spawn_scoped$'
    sites = [(new, t) for t in new.calls(SPAWN)]
    for c in closures_in(ctx, new):
        sites += [(c, t) for t in c.calls(SPAWN)]
    pool = [(new, t) for t in new.calls(r'rayon(_core)?::(spawn|spawn_fifo|scope)$|ThreadPool::(spawn|execute|install)$')]
    for c in closures_in(ctx, new):
        pool += [(c, t) for t in c.calls(r'rayon(_core)?::(spawn|spawn_fifo|scope)$|ThreadPool::(spawn|execute|install)$')]
    if pool and not sites:
        raise Definite('pool-worker', 'Pipe::new runs its workers on a shared thread pool (`%s`, line %d): a worker never returns while its input lasts and blocks '
                       'while it waits for its turn, so the workers of one pipe can occupy every pool thread and starve the workers of another pipe (nothing is '
                       'ever delivered); workers must be dedicated threads' % (pool[0][1].callee_res(), pool[0][1].span['line']), pool[0][0], pool[0][1].span)
    if len(sites) != 1:
        raise AnchorMissing('exactly one thread spawn in Pipe::new (found %d)' % len(sites))
    sbody, sterm = sites[0]
    clo_tree = sym(sbody, sterm.args[-1])
    w = Worker()
    w.new = new
    w.spawn_body = sbody
    w.spawn_term = sterm
    # the site in Pipe::new itself: the spawn call, or the call that receives the closure containing the spawn
    # (`(0..n).for_each(|thread| { .. spawn .. })`)
    w.spawn = sterm
    w.spawn_via = None
    if sbody is not new:
        top = sbody
        while top.parent != new.path and ctx.facts.by_path.get(top.parent):
            top = ctx.facts.by_path[top.parent][0]
        recv = [t for t in new.terms('call') if any(isinstance(x, tuple) and x and x[0] == 'agg' and x[1] == 'closure' and x[2] == top.path
                                                      for a in t.args for x in walk(sym(new, a)))]
        if len(recv) != 1:
            raise AnchorMissing('the call in Pipe::new that runs the spawning closure')
        w.spawn = recv[0]
        w.spawn_via = recv[0]
    w.body = closure_of(ctx, clo_tree)
    w.captures = clo_tree[3]
    # the shared input: Mutex::new(iter.enumerate()). A crate type in its place means the ticket numbering is implemented some other
    # way (a hand-written counter): none of the protocol roles below can be assigned
    for t in new.calls(r'Mutex::new$'):
        x = peel(sym(new, t.args[0]))
        if isinstance(x, tuple) and x and x[0] == 'agg' and x[1] == 'adt' and norm_path(x[2].rsplit('::', 1)[0]) in ctx.facts.adts:
            raise AnchorMissing('the shared input is wrapped in the crate type `%s` instead of an Enumerate: the tickets are numbered some other way' % x[2].rsplit('::', 1)[0])
    b = w.body
    # ticket: the next() on the shared enumerated iterator, reached through the mutex
    from analysis.sym import init_value as _iv
    tick = [t for t in b.calls(r'::next$') if has(sym(b, t.args[0]), Call('Mutex::lock')) or has(_iv(b, sym(b, t.args[0])), Call('Mutex::lock'))]
    if len(tick) > 1:
        raise Definite('second-pull', 'the worker pulls from the shared input at %d sites (lines %s): an item is requested while the result of the previous one is '
                       'still held back, so delivering f(x_k) depends on the input answering a request for a later element (a request/response source deadlocks) and the '
                       'look-ahead grows' % (len(tick), ', '.join(str(t.span['line']) for t in tick)), b, tick[1].span)
    # a `next()` over a Vec that was filled from the locked input is not the ticket pull: the tickets were taken in bulk
    tick = [t for t in tick if not re.search(r'vec::IntoIter|slice::Iter|vec_deque::', t.callee_res() or '')]
    if len(tick) == 0:
        bulk = [t for t in b.calls(r'Iterator::(take|collect|by_ref|nth|take_while|step_by)$|Vec::extend$|Extend>::extend$')
                if any(has(sym(b, a), Call('Mutex::lock')) or has(_iv(b, sym(b, a)), Call('Mutex::lock')) for a in t.args)]
        if bulk:
            raise Definite('chunk-pull', 'the worker takes several items per lock from the shared input (`%s`, line %d): it then owns several consecutive tickets at once, '
                           'and when it stops early (the consumer is gone, a send failed) the tickets it has not sent yet belong to nobody -- the turn counter stops in front '
                           'of them and every other worker spins forever; the look-ahead is also multiplied by the chunk size' % (
                               (bulk[0].callee_res() or '').rsplit('::', 1)[-1], bulk[0].span['line']), b, bulk[0].span)
    if len(tick) != 1:
        raise AnchorMissing('worker: exactly one `.lock()..next()` ticket pull (found %d)' % len(tick))
    w.ticket = tick[0]
    w.ticket_val = ('unwrap', nosite(sym(b, w.ticket.dest)))
    calls = [t for t in b.calls(r'ops::Fn.*::call$|FnMut.*::call_mut$|FnOnce.*::call_once$')]
    if len(calls) != 1:
        raise AnchorMissing('worker: exactly one pipeline invocation (found %d)' % len(calls))
    w.apply = calls[0]
    sends = [t for t in b.calls(r'mpsc::SyncSender::send$|mpsc::Sender::send$|SyncSender::try_send$')]
    if len(sends) != 1:
        raise AnchorMissing('worker: exactly one channel send (found %d)' % len(sends))
    w.send = sends[0]
    w.loads = [t for t in b.calls(r'Atomic(Usize|U64|U32)?::load$')]
    w.writes = [t for t in b.calls(ATOMIC_WRITES)]
    lp = cfg.innermost_loop(b, w.ticket.bb)
    if lp is None:
        raise AnchorMissing('worker: the ticket pull is not inside a loop')
    w.loop = lp
    some = variant_edges(b, sym(b, w.ticket.dest), 'Some')
    w.some_target = some[0][1] if len(some) == 1 else None
    return w


def is_ticket_field(w, t, i):
    """t is component i of the ticket (payload of the enumerate next())"""
    c = core(t)
    return c[0] == 'field' and c[2] == i and nosite(c[1]) == core(sym(w.body, w.ticket.dest))


def producer_loops(ctx):
    """(body, send term, loop, description) for every producer loop of the crate: a loop in a spawned closure
    (or any body) that sends on an mpsc channel"""
    out = []
    for b in ctx.facts.bodies:
        if b.file().startswith('src/') is False:
            continue
        for t in b.calls(r'mpsc::SyncSender::send$|mpsc::Sender::send$'):
            lp = cfg.innermost_loop(b, t.bb)
            out.append((b, t, lp))
            ctx.stats['bodies_inspected'].add(b.path)
    return out


def worker_exit_check(ctx, b, what):
    """A worker loop that pulls work items from a mutex-protected shared iterator may leave its loop only when the source is
    exhausted (None arm of the pull) or when the send failed. Returns after recording results on ctx."""
    pulls = [t for t in b.calls(r'::next$') if has(sym(b, t.args[0]), Call('Mutex::lock'))]
    sends = [t for t in b.calls(r'mpsc::SyncSender::send$|mpsc::Sender::send$')]
    if len(pulls) != 1 or len(sends) != 1:
        raise AnchorMissing('%s: one locked pull and one send (found %d / %d)' % (what, len(pulls), len(sends)))
    pull, send = pulls[0], sends[0]
    loop = cfg.innermost_loop(b, pull.bb)
    if loop is None:
        raise AnchorMissing('%s: worker loop' % what)
    pulled = nosite(sym(b, pull.dest))
    sent = nosite(sym(b, send.dest))
    from analysis.sym import edge_guards
    for (u, v) in loop.exits(b):
        ok = False
        why = 'exit bb%d->bb%d at line %d' % (u, v, b.blocks[u].term.span['line'])
        for g in edge_guards(b):
            if g.block != u or g.target != v:
                continue
            t, pol = g.atom()
            nt = nosite(t)
            if t[0] == 'discr' and nosite(t[1]) == pulled and (g.values is None and 1 in (g.excluded or ()) or g.values == {0}):
                ok = True   # None arm of the pull
            elif pol is True and match(nt, Call('Result::is_err', Pred(lambda x: nosite(x) == sent))):
                ok = True
            elif pol is False and match(nt, Call('Result::is_ok', Pred(lambda x: nosite(x) == sent))):
                ok = True
            else:
                why = 'the worker leaves its loop on `%s%s` (line %d)' % ('' if pol is not False else '!', show_in(b, t)[:80], b.blocks[u].term.span['line'])
        ctx.require(ok, b, 'worker-exit|' + what.split()[0], '%s: loop exit bb%d->bb%d is "source exhausted" or "channel closed"' % (what, u, v),
                    '%s: %s -- a worker that stops for any other reason leaves the remaining lines uncounted once all workers are gone'
                    % (what, why), b.blocks[u].term.span)
    # every pulled item is sent: from the Some arm every path to the back edge passes the send
    some = [e[1] for e in variant_edges(b, sym(b, pull.dest), 'Some')]
    if some:
        ok = all(cfg.must_pass(b, some[0], l, via_blocks=[send.bb]) for l in loop.latches)
        ctx.require(ok, b, 'worker-sends-every-item|' + what.split()[0], '%s: every pulled line reaches the send before the next pull' % what,
                    '%s: a pulled line can be skipped without sending its counts' % what, send.span)
    return pull, send, loop
