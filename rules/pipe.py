"""Anchors and shared checks for the threaded pipeline (Pipe::new worker protocol), used by C05, C08 and C09."""
from analysis.engine import AnchorMissing
from analysis import cfg
from analysis.sym import sym, show_in, nosite, peel, core, walk, ret_values, args_of, guards_at, atoms_at, \
    variant_facts_at, cmp_facts_at
from analysis.pat import match, Call, Cap, ANY, Pred, Const, has, chain_names
from rules.common import closure_of

PIPE_NEW = 'data::loading::Pipe::new'
ATOMIC_WRITES = r'Atomic(Usize|U64|U32)?::(store|swap|fetch_add|fetch_sub|fetch_max|fetch_min|fetch_update|compare_exchange|compare_exchange_weak|compare_and_swap)$'


class Worker:
    pass


def worker(ctx):
    """the closure passed to Builder::spawn inside Pipe::new, with its protocol sites resolved by role"""
    new = ctx.body(PIPE_NEW)
    sp = [t for t in new.calls(r'thread::Builder::spawn$|thread::spawn$|Builder::spawn_scoped$')]
    if len(sp) != 1:
        raise AnchorMissing('exactly one thread spawn in Pipe::new (found %d)' % len(sp))
    clo_tree = sym(new, sp[0].args[-1])
    w = Worker()
    w.new = new
    w.spawn = sp[0]
    w.body = closure_of(ctx, clo_tree)
    w.captures = clo_tree[3]
    b = w.body
    # ticket: the next() on the shared enumerated iterator, reached through the mutex
    tick = [t for t in b.calls(r'::next$') if has(sym(b, t.args[0]), Call('Mutex::lock'))]
    if len(tick) != 1:
        raise AnchorMissing('worker: exactly one `.lock()..next()` ticket pull (found %d)' % len(tick))
    w.ticket = tick[0]
    w.ticket_val = ('unwrap', nosite(sym(b, w.ticket.dest)))
    calls = [t for t in b.calls(r'ops::Fn.*::call$|FnMut.*::call_mut$|FnOnce.*::call_once$')]
    if len(calls) != 1:
        raise AnchorMissing('worker: exactly one pipeline invocation (found %d)' % len(calls))
    w.apply = calls[0]
    sends = [t for t in b.calls(r'mpsc::SyncSender::send$|mpsc::Sender::send$|SyncSender::try_send$')]
    if len(sends) != 1:
        raise AnchorMissing('worker: exactly one channel send (found %d)' % len(sends))
    w.send = sends[0]
    w.loads = [t for t in b.calls(r'Atomic(Usize|U64|U32)?::load$')]
    w.writes = [t for t in b.calls(ATOMIC_WRITES)]
    lp = cfg.innermost_loop(b, w.ticket.bb)
    if lp is None:
        raise AnchorMissing('worker: the ticket pull is not inside a loop')
    w.loop = lp
    return w


def is_ticket_field(w, t, i):
    """t is component i of the ticket (payload of the enumerate next())"""
    c = core(t)
    return c[0] == 'field' and c[2] == i and nosite(c[1]) == core(sym(w.body, w.ticket.dest))


def producer_loops(ctx):
    """(body, send term, loop, description) for every producer loop of the crate: a loop in a spawned closure
    (or any body) that sends on an mpsc channel"""
    out = []
    for b in ctx.facts.bodies:
        if b.file().startswith('src/') is False:
            continue
        for t in b.calls(r'mpsc::SyncSender::send$|mpsc::Sender::send$'):
            lp = cfg.innermost_loop(b, t.bb)
            out.append((b, t, lp))
            ctx.stats['bodies_inspected'].add(b.path)
    return out
