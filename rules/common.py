"""Anchor selectors shared by the rule modules (selection by role, never by line or index)."""
from analysis.engine import AnchorMissing
from analysis import cfg
from analysis.facts import norm_path

BPE = 'BPETokenizerConfig'
BYTE = 'ByteTokenizerConfig'
CHAR = 'CharTokenizerConfig'


def body_for(ctx, path, self_pat=None):
    """unique body by normalised path, optionally restricted to an impl self type containing self_pat"""
    c = [b for b in ctx.facts.bodies if norm_path(b.path) == path and
         (self_pat is None or (b.impl_self and self_pat in b.impl_self))]
    if len(c) != 1:
        raise AnchorMissing('function `%s`%s not found (%d candidates)' % (
            path, ' for ' + self_pat if self_pat else '', len(c)))
    ctx.stats['bodies_inspected'].add(c[0].path)
    return c[0]


def bpe_body(ctx, path):
    return body_for(ctx, path, BPE)


def closure_of(ctx, tree):
    """Body of the closure denoted by an ('agg','closure',def,ops) tree"""
    t = tree
    if not (isinstance(t, tuple) and t and t[0] == 'agg' and t[1] == 'closure'):
        raise AnchorMissing('expected a closure literal, found %r' % (t[:3] if isinstance(t, tuple) else t,))
    l = ctx.facts.by_path.get(t[2], [])
    if len(l) != 1:
        raise AnchorMissing('closure body %s not found' % t[2])
    ctx.stats['bodies_inspected'].add(l[0].path)
    return l[0]


def find_pop_loop(ctx, body):
    pops = list(body.calls(r'BinaryHeap::pop$'))
    if len(pops) != 1:
        raise AnchorMissing('expected exactly one BinaryHeap::pop in %s, found %d' % (norm_path(body.path), len(pops)))
    loop = cfg.innermost_loop(body, pops[0].bb)
    if loop is None:
        raise AnchorMissing('BinaryHeap::pop in %s is not inside a loop' % norm_path(body.path))
    return pops[0], loop


def closures_in(ctx, body, recursive=True):
    out = []
    for c in ctx.facts.children.get(body.path, []):
        out.append(c)
        ctx.stats['bodies_inspected'].add(c.path)
        if recursive:
            out.extend(closures_in(ctx, c, True))
    return out


INT_BITS = {'u8': 8, 'u16': 16, 'u32': 32, 'u64': 64, 'u128': 128, 'usize': 64,
            'i8': 8, 'i16': 16, 'i32': 32, 'i64': 64, 'i128': 128, 'isize': 64}


def narrowing_casts(body):
    """(stmt, from_ty, to_ty) for IntToInt casts that can lose value bits (target narrower than source)"""
    out = []
    for s in body.stmts():
        if s.kind == 'assign' and s.rv.kind == 'cast' and s.rv.raw['kind'] == 'IntToInt':
            op = s.rv.ops[0]
            if op.place is not None and not op.place.proj:
                fty = body.local_ty(op.place.local)
            elif op.const is not None:
                fty = op.const['ty']
            else:
                continue
            tty = s.rv.ty
            if fty in INT_BITS and tty in INT_BITS and INT_BITS[tty] < INT_BITS[fty]:
                out.append((s, fty, tty))
    return out


import re as _re
import re

PANIC_CALLS = _re.compile(r'ops::Index>::index$|ops::IndexMut>::index_mut$|Option::unwrap$|Option::expect$|Result::unwrap$|Result::expect$|'
                          r'panicking::|slice::index::|str::slice_error|Result::unwrap_err$|Option::unwrap_unchecked$|RefCell.*::borrow')


def debug_only(term):
    """the site was produced by a debug_assert*! expansion: compiled out of release builds (the shipped wheel); such
    sites are counted in the evidence but not treated as panic sites of the property"""
    return 'debug_assert' in (term.span.get('macs') or '')


def panic_sites(body, blocks=None, include_debug=False):
    """explicit panic sites among the given blocks (default: all reachable): [(term, description)]"""
    out = []
    for b in body.blocks:
        if b.cleanup or b.idx not in body.reachable:
            continue
        if blocks is not None and b.idx not in blocks:
            continue
        t = b.term
        if not include_debug and debug_only(t):
            continue
        if t.kind == 'assert':
            out.append((t, 'assert ' + t.msg['k'] + (':' + t.msg.get('op', '') if 'op' in t.msg else '')))
        elif t.kind == 'call':
            n = t.callee_res() or ''
            if PANIC_CALLS.search(n):
                out.append((t, 'call ' + n))
    return out


def dominated_by_edge(body, edge):
    """blocks reachable only through the CFG edge (u, v)"""
    from analysis import cfg
    rest = cfg.reach(body, 0, removed_edges=[edge])
    return {b for b in body.reachable if b not in rest}


# ---------------------------------------------------------------------------
# role-based variable selection (rules must not depend on the debug NAME of a local: renaming a variable is the most
# common behaviour-preserving edit)

import re as _re2
from analysis.pat import Pred as _Pred
from analysis.sym import sym as _sym, core as _core, nosite as _nosite, var_defs as _var_defs, defs_of as _defs_of, symbolizer as _symz, simplify as _simp


def V(local):
    """pattern: the mutable-state node of exactly this local"""
    return _Pred(lambda t: isinstance(t, tuple) and t and t[0] == 'var' and len(t) > 2 and t[2] == local)


def state_locals(body, ty_regex=None):
    """locals that sym treats as mutable state (named + mutably borrowed, or multi-definition named), optionally by type"""
    from analysis.sym import _defs
    _defs(body)
    out = []
    rx = _re2.compile(ty_regex) if ty_regex else None
    for v in body.vars:
        if 'pl' not in v or v['pl']['p']:
            continue
        l = v['pl']['l']
        if l <= body.arg_count:
            continue
        whole, partial = _defs_of(body, l)
        is_state = l in body._mutborrowed or len(whole) > 1 or partial
        if not is_state:
            continue
        if rx is not None and not rx.search(body.local_ty(l)):
            continue
        if l not in out:
            out.append(l)
    return out


def the_state_local(body, ty_regex, what):
    c = state_locals(body, ty_regex)
    if len(c) != 1:
        raise AnchorMissing('%s: expected one mutable local of type /%s/ in %s, found %d' % (what, ty_regex, norm_path(body.path), len(c)))
    return c[0]


def receiver_var(body, term, i=0):
    """local index of the mutable-state variable that is argument i of the call (through &mut / deref), or None"""
    from analysis.sym import sym as _sym
    t = _core(_sym(body, term.args[i]))
    if isinstance(t, tuple) and t and t[0] == 'var':
        return t[2]
    return None


def local_defs(body, local):
    """[(site, tree)] of the whole definitions of a local"""
    whole, partial = _defs_of(body, local)
    z = _symz(body)
    return [(d, _simp(z.rvalue(d.rv, 0, ())) if hasattr(d, 'rv') else _simp(z.call(d))) for d in whole]


def stores_to_local(body, local):
    return [(s, v) for s, v in local_defs(body, local) if hasattr(s, 'rv')]


def resolve_upvars(ctx, clo, t, depth=0):
    """replace ('upvar', i, name) nodes of a closure-body tree by the captured operand tree of the creating body
    (recursively through nested closures), so that rules do not depend on the names of captured variables"""
    from analysis.sym import sym as _sym
    if depth > 4 or not isinstance(t, tuple) or not t:
        return t
    if t[0] == 'upvar':
        par = ctx.facts.by_path.get(clo.parent, [])
        if len(par) == 1:
            p = par[0]
            for s, d in p.closures_created():
                if d == clo.path:
                    ops = s.rv.ops
                    if t[1] < len(ops):
                        r = _core(_sym(p, ops[t[1]]))
                        if p.kind == 'Closure':
                            return resolve_upvars(ctx, p, r, depth + 1)
                        return r
        return t
    return tuple(resolve_upvars(ctx, clo, x, depth) if isinstance(x, tuple) else x for x in t)


def range_bounds(t):
    """(lo, hi) of a half-open integer range denoted by the source tree `t` (`a..b`, `a..=b`, RangeInclusive::new(a, b)); a bound
    is an int when constant, else its core tree; None when `t` is not a range"""
    from analysis.sym import peel as _peel
    t = _peel(t)

    def val(x):
        c = _core(x)
        return c[2] if c[0] == 'const' and len(c) > 2 and isinstance(c[2], int) else c
    if isinstance(t, tuple) and t and t[0] == 'agg' and t[2].endswith('Range::Range') and len(t[3]) == 2:
        return val(t[3][0]), val(t[3][1])
    incl = None
    if isinstance(t, tuple) and t and t[0] == 'agg' and t[2].endswith('RangeInclusive::RangeInclusive') and len(t[3]) >= 2:
        incl = t[3][0], t[3][1]
    if isinstance(t, tuple) and t and t[0] == 'call' and t[1].endswith('RangeInclusive::new') and len(t[2]) == 2:
        incl = t[2][0], t[2][1]
    if incl is not None:
        lo, hi = val(incl[0]), val(incl[1])
        return lo, (hi + 1 if isinstance(hi, int) else ('bin', 'Add', hi, ('const', '1', 1)))
    return None


def byte_boundary_tests(body, xpat):
    """guards of `body` that split on "x fits in a byte" for a value matching `xpat`: `x < 256` / `x <= 255` / `x >= 256` / `x > 255`
    (either operand order) or a match on `u8::try_from(x)`. Returns [(guard, sign)] with sign +1 when the guarded edge means "fits"."""
    from analysis.sym import edge_guards, guard_variants, success_of
    from analysis.pat import match as _match, Const as _Const
    out = []
    u8try = [t for t in body.calls(r'try_from$') if body.local_ty(t.dest.local).startswith('std::result::Result<u8,')]
    for g in edge_guards(body):
        t, pol = g.atom()
        if pol is not None:
            c = _core(t)
            for op, k, sign in (('Lt', 256, 1), ('Le', 255, 1), ('Ge', 256, -1), ('Gt', 255, -1)):
                if _match(c, ('bin', op, xpat, _Const(k))):
                    out.append((g, sign if pol else -sign))
            continue
        r = guard_variants(body, g)
        so = success_of(r[0], r[1]) if r is not None else None
        if so is not None:
            # `match u8::try_from(x)`, `u8::try_from(x).ok()?`, `if let Ok(b) = ..`: the variant fact normalised through the renaming wrappers
            v = so[0]
            if v[0] == 'call' and v[1].endswith('try_from') and v[2] and _match(_core(v[2][0]), xpat) and \
                    any(_nosite(_sym(body, t.dest)) == v for t in u8try):
                out.append((g, 1 if so[1] else -1))
    return out


def variant_guards(body, variant):
    """guards of `body` whose edge is taken exactly when some value is the unit enum variant `variant`, whether the code
    writes `x == E::V` (a boolean guard) or `match x { E::V => .. }` (a discriminant guard): [(guard, tree of x)]"""
    from analysis.sym import edge_guards, guard_variants
    out = []
    for g in edge_guards(body):
        t, pol = g.atom()
        if pol is not None:
            c = _core(t)
            if c[0] == 'bin' and c[1] in ('Eq', 'Ne') and ((c[1] == 'Eq') == pol):
                for a, b in ((c[2], c[3]), (c[3], c[2])):
                    if b[0] == 'agg' and b[1] == 'adt' and not b[3] and b[2].endswith('::' + variant):
                        out.append((g, a))
            continue
        r = guard_variants(body, g)
        if r is not None and r[1] == {variant}:
            out.append((g, _nosite(r[0])))
    return out


def is_variant_at(body, blk, variant):
    """some value is known to be the unit variant `variant` at block blk (a guard of variant_guards dominates blk)"""
    from analysis import cfg as _cfg
    return any(_cfg.edge_dominates(body, (g.block, g.target), blk) for g, x in variant_guards(body, variant))


def iteration_table(body, loop, counters):
    """per feasible path of one iteration of `loop` (analysis.paths): {'variants': [(tree, {names})], 'atoms': [(tree, pol)],
    'delta': {role: constant change of the counter local, None if not a constant step}, 'calls': [(term, [arg trees])]} where the
    argument trees are expressed over the counter values at the START of the iteration. `counters` maps a role name to a local."""
    from analysis import paths as _paths, poly as _poly
    from analysis.sym import peel as _peel
    ps = _paths.iteration_paths(body, loop)
    if ps is None:
        return None
    rows = []
    for p in ps:
        pe = _paths.eval_path(body, p)
        feasible = True
        for t, names in pe.variants:
            c = _peel(t)
            if isinstance(c, tuple) and c and c[0] == 'agg' and c[1] == 'adt' and c[2].rsplit('::', 1)[-1] not in names:
                feasible = False
        for t, pol in pe.atoms:
            c = _core(t)
            if c[0] == 'const' and len(c) > 2 and c[2] in (0, 1) and bool(c[2]) != pol:
                feasible = False
            # is_some() / is_none() / is_ok() / is_err() of a value whose variant is fixed on this path
            r = _peel(t)
            if isinstance(r, tuple) and r and r[0] == 'call' and len(r[2]) == 1 and r[1].rsplit('::', 1)[-1] in ('is_some', 'is_none', 'is_ok', 'is_err'):
                x = _peel(r[2][0])
                if isinstance(x, tuple) and x and x[0] == 'agg' and x[1] == 'adt':
                    truth = {'is_some': 'Some', 'is_none': 'None', 'is_ok': 'Ok', 'is_err': 'Err'}[r[1].rsplit('::', 1)[-1]] == x[2].rsplit('::', 1)[-1]
                    if truth != pol:
                        feasible = False
        if not feasible:
            continue
        delta = {}
        for role, l in counters.items():
            v = pe.env.get(l)
            if v is None:
                delta[role] = 0
                continue
            start = ('var', body.var_name(l) or '', l)
            d = _poly._add(_poly.poly(v), _poly.poly(start), -1)
            if d == {}:
                delta[role] = 0
            elif list(d.keys()) == [()]:
                delta[role] = d[()]
            else:
                delta[role] = None
        calls = [(e[1], e[2]) for e in pe.events if e[0] == 'call']
        # x.is_some_and(p) taken as true  ==>  x is Some  and  p(payload of x)
        atoms = list(pe.atoms)
        for t, pol in pe.atoms:
            r = _peel(t)
            if pol is True and isinstance(r, tuple) and r and r[0] == 'call' and len(r[2]) == 2 and r[1].rsplit('::', 1)[-1] in ('is_some_and', 'is_ok_and'):
                try:
                    from analysis.seq import apply_fn as _apply
                    atoms.append((('call', 'std::option::Option::is_some', (r[2][0],)), True))
                    atoms.append((_nosite(_apply(body.facts, r[2][1], (('unwrap', r[2][0]),))), True))
                except Exception:
                    pass
        rows.append({'variants': pe.variants, 'atoms': atoms, 'delta': delta, 'calls': calls, 'path': p, 'env': dict(pe.env)})
    return rows


def is_projection_set(ctx, body, tree, src_pat, comp):
    """`tree` is the collection of component `comp` of the pairs of a source matching `src_pat`: `src.iter().map(|p| p.comp).collect()`
    or `src.iter().copied().unzip().comp`"""
    from analysis.seq import seq_of, seq_of_iter, ITEM
    from analysis.sym import peel as _peel
    from analysis.pat import match as _match
    c = _peel(tree)
    if c[0] == 'field' and c[2] == comp and _peel(c[1])[0] == 'call' and _peel(c[1])[1].endswith('unzip'):
        segs = seq_of_iter(ctx.facts, body, _peel(c[1])[2][0])
        return segs is not None and len(segs) == 1 and segs[0].kind == 'each' and not segs[0].conds and _match(_core(segs[0].src), src_pat) and _core(segs[0].elem) == ITEM
    segs = seq_of(ctx.facts, body, tree)
    return segs is not None and len(segs) == 1 and segs[0].kind == 'each' and not segs[0].conds and _match(_core(segs[0].src), src_pat) and \
        _core(segs[0].elem) == ('field', ITEM, comp)


def check_segmentation_flag(ctx, bodies, what):
    """every CharString::new(text, flag) in `bodies` (and their closures) receives the grapheme flag UNCHANGED: a parameter, a
    configuration field or a captured variable -- not a computed boolean such as `use_graphemes && !s.is_ascii()` ("\\r\\n" is one
    ASCII grapheme cluster of two code points: two sites that segment the same text differently disagree on every index)"""
    n = 0
    for b0 in bodies:
        for b in [b0] + closures_in(ctx, b0):
            for t in b.calls(r'CharString::new$'):
                if len(t.args) < 2:
                    continue
                n += 1
                f = _core(_sym(b, t.args[1]))
                f2 = f
                if f[0] == 'upvar':
                    f2 = _core(resolve_upvars(ctx, b, f))
                def _plain(x, d=0):
                    if x[0] in ('arg', 'const', 'upvar'):
                        return True
                    if x[0] == 'var':
                        return len(_defs_of(b, x[2])[0]) <= 1
                    if x[0] in ('field', 'variant') and d < 6:
                        return _plain(x[1], d + 1)
                    return False
                plain = _plain(f2)
                ctx.require(plain, b, 'segmentation-flag|' + what, '%s: CharString::new(.., flag) at line %d receives the grapheme flag unchanged' % (what, t.span['line']),
                            '%s: CharString::new at line %d is given the computed flag `%s`: this site segments the text differently from every other site '
                            '(e.g. "\\r\\n" is one ASCII grapheme cluster), so character indices, operation lists and lengths no longer agree' % (
                                what, t.span['line'], __import__('analysis.sym', fromlist=['show_in']).show_in(b, f2)[:80]), t.span)
    return n


def _flows_from(body, x, t, stop, seen=None):
    """does the value of call `t` flow into operand/place x (backward through definitions), without passing through a call that
    matches `stop` (a capacity hint does not carry the length into the container's contents)"""
    from analysis.facts import Place as _Place
    import re as _re
    if seen is None:
        seen = set()
    pl = x if isinstance(x, _Place) else getattr(x, 'place', None)
    if pl is None:
        return False
    l = pl.local
    if l in seen or (1 <= l <= body.arg_count):
        return False
    seen.add(l)
    whole, partial = _defs_of(body, l)
    for d in list(whole) + list(partial):
        if hasattr(d, 'rv'):
            if d.rv.place is not None and _flows_from(body, d.rv.place, t, stop, seen):
                return True
            if any(_flows_from(body, o, t, stop, seen) for o in d.rv.ops):
                return True
        else:
            if d is t:
                return True
            if _re.search(stop, d.callee_res() or ''):
                continue
            if any(_flows_from(body, o, t, stop, seen) for o in d.args):
                return True
    return False


def length_consumers(body, t):
    """terminators (calls, switches) that consume the result of the length call `t`, other than capacity hints
    (`with_capacity`, `reserve`, ...): a raw byte / code point length that only pre-sizes a buffer is harmless"""
    import re as _re
    stop = r'::(with_capacity|reserve|reserve_exact|shrink_to|try_reserve)$'
    out = []
    for blk in body.blocks:
        if blk.cleanup or blk.idx not in body.reachable:
            continue
        u = blk.term
        if u is t:
            continue
        ops = list(u.args) if u.kind == 'call' else ([u.discr] if u.kind == 'switch' else [])
        if u.kind == 'call' and _re.search(stop, u.callee_res() or ''):
            continue
        if any(_flows_from(body, o, t, stop) for o in ops):
            out.append(u)
    return out


def lt_facts_at(body, bb):
    """order facts that hold at block bb, in one orientation: [(a, b, strict)] meaning a < b (strict) or a <= b; `x > y`, `!(x <= y)`,
    `y < x` all give (y, x, True)"""
    from analysis.sym import cmp_facts_at
    out = []
    for op, a, b in cmp_facts_at(body, bb):
        a, b = _core(a), _core(b)
        if op == 'Lt':
            out.append((a, b, True))
        elif op == 'Le':
            out.append((a, b, False))
        elif op == 'Gt':
            out.append((b, a, True))
        elif op == 'Ge':
            out.append((b, a, False))
    return out


def str_slice(t):
    """(base, lo, hi) of a sub-slice expression: `s[a..b]`, `s[a..]`, `s[..b]`, `s.get(a..b).unwrap()`, `m.as_str()` of a regex Match
    (base ('haystack', m), lo m.start(), hi m.end()); lo None = from the start, hi None = to the end; None when `t` is no slice"""
    from analysis.sym import last_seg, peel as _peel
    c = _nosite(_peel(t, identity=False, unwrap=True))
    if isinstance(c, tuple) and c and c[0] == 'call' and last_seg(c[1]) == 'as_str' and 'Match' in c[1] and len(c[2]) == 1:
        m = _core(c[2][0])
        return ('haystack', m), ('call', 'regex::Match::start', (m,)), ('call', 'regex::Match::end', (m,))
    c = _core(t)
    if not isinstance(c, tuple) or not c:
        return None
    base = rng = None
    if c[0] == 'call' and len(c[2]) == 2 and _re.search(r'(^|::)index$|::get$|get_unchecked$', c[1]):
        base, rng = c[2]
    elif c[0] == 'index':
        base, rng = c[1], c[2]
    if rng is None or not (isinstance(rng, tuple) and rng and rng[0] == 'agg'):
        return None
    n = rng[2]
    if n.endswith('Range::Range') and len(rng[3]) == 2:
        return base, rng[3][0], rng[3][1]
    if n.endswith('RangeFrom::RangeFrom'):
        return base, rng[3][0], None
    if n.endswith('RangeTo::RangeTo'):
        return base, None, rng[3][0]
    if n.endswith('RangeFull'):
        return base, None, None
    return None


def emptiness_at(body, bb, is_coll):
    """what the guards dominating block bb say about the collection matched by `is_coll` (a predicate on core trees): True = known
    empty, False = known non-empty, None = unknown. Recognised: `c.is_empty()` either way, `c.len()` compared with a constant
    (`== 0`, `!= 0`, `> 0`, `>= 1`, `< 1`, ...), a `match c.len() { 0 => .., _ => .. }` arm, `c.first()/last()` being Some/None."""
    from analysis.sym import guards_at, guard_variants, last_seg
    res = None

    def is_len(t):
        c = _core(t)
        return c[0] == 'call' and last_seg(c[1]) == 'len' and len(c[2]) == 1 and is_coll(_core(c[2][0]))

    def const(t):
        c = _core(t)
        return c[2] if c[0] == 'const' and len(c) > 2 and isinstance(c[2], int) else None
    for g in guards_at(body, bb):
        t, pol = g.atom()
        c = _core(t)
        if pol is not None and c[0] == 'call' and last_seg(c[1]) == 'is_empty' and len(c[2]) == 1 and is_coll(_core(c[2][0])):
            res = pol
        elif pol is not None and c[0] == 'bin' and c[1] in ('Eq', 'Ne', 'Lt', 'Le', 'Gt', 'Ge'):
            op, a, b = c[1], c[2], c[3]
            if is_len(b) and const(a) is not None:
                a, b = b, a
                op = {'Lt': 'Gt', 'Le': 'Ge', 'Gt': 'Lt', 'Ge': 'Le'}.get(op, op)
            if is_len(a) and const(b) is not None:
                k = const(b)
                if not pol:
                    op = {'Eq': 'Ne', 'Ne': 'Eq', 'Lt': 'Ge', 'Ge': 'Lt', 'Gt': 'Le', 'Le': 'Gt'}[op]
                if (op == 'Eq' and k == 0) or (op == 'Lt' and k == 1) or (op == 'Le' and k == 0):
                    res = True
                elif (op == 'Ne' and k == 0) or (op == 'Gt' and k >= 0) or (op == 'Ge' and k >= 1) or (op == 'Eq' and k >= 1):
                    res = False
        elif pol is None and is_len(t):
            if g.values is not None:
                res = True if g.values == {0} else (False if 0 not in g.values else res)
            elif g.excluded is not None and 0 in g.excluded:
                res = False
        elif pol is None:
            r = guard_variants(body, g)
            if r is not None:
                x = _core(r[0])
                if x[0] == 'call' and last_seg(x[1]) in ('first', 'last', 'pop', 'split_first', 'split_last') and x[2] and is_coll(_core(x[2][0])) and \
                        last_seg(x[1]) != 'pop':
                    if set(r[1]) == {'Some'}:
                        res = False
                    elif set(r[1]) == {'None'}:
                        res = True
    if res is None:
        res = _emptiness_by_construction(body, bb, is_coll)
    return res


def _emptiness_by_construction(body, bb, is_coll):
    """the same question answered from how the collection is built instead of from a test: a named vector that starts as a literal
    with at least one element (`vec![first]`), or that had an element pushed on every path to bb, and that is never shrunk, is
    non-empty at bb; a vector whose only definition cannot reach bb does not exist there yet (no element has been collected)"""
    from analysis.sym import defs_of
    from analysis.seq import APPEND, MUTATE, EMPTY, _vec_macro_elems
    from analysis import cfg as _cfg
    from analysis.sym import symbolizer, simplify, peel as _peel
    for v in body.vars:
        if 'pl' not in v or v['pl']['p'] or not v.get('name'):
            continue
        l = v['pl']['l']
        if not is_coll(('var', v['name'], l)):
            continue
        whole, partial = defs_of(body, l)
        if len(whole) != 1 or partial:
            return None
        d = whole[0]
        if d.bb != bb and bb not in _cfg.reach(body, d.bb):
            return True
        if not _cfg.dominates(body, d.bb, bb):
            return None
        shrinks, grows = [], []
        for t in body.terms('call'):
            if not t.args or t.bb not in body.reachable:
                continue
            r = _core(_sym(body, t.args[0]))
            if not (r[0] == 'var' and len(r) > 2 and r[2] == l):
                continue
            n = t.callee_res() or ''
            if re.search(r'::(clear|truncate|pop|remove|swap_remove|retain|dedup\w*|drain|split_off|set_len|pop_front|pop_back)$', n):
                shrinks.append(t)
            elif re.search(r'(Vec|VecDeque)::(push|push_back|push_front|insert)$', n):
                grows.append(t)
        if shrinks:
            return None
        # moved out and rebuilt (`mem::take(&mut items)`) would show up as a partial def or a call taking &mut: be conservative
        for t in body.terms('call'):
            if re.search(r'mem::(take|replace|swap)$', t.callee_res() or '') and any(
                    (lambda r: r[0] == 'var' and len(r) > 2 and r[2] == l)(_core(_sym(body, a))) for a in t.args):
                return None
        z = symbolizer(body)
        init = simplify(z.rvalue(d.rv, 0, (l,)) if hasattr(d, 'rv') else z.call(d, 0, (l,)))
        if d.span.get('mac') == 'vec' or 'vec' in (d.span.get('macs') or ''):
            el = _vec_macro_elems(body, init)
            if el:
                return False
        if any(_cfg.dominates(body, t.bb, bb) and t.bb != bb for t in grows):
            return False
        return None
    return None


def debug_only_blocks(body):
    """blocks that only run in builds with debug assertions: dominated by the taken edge of the `if cfg!(debug_assertions)` switch a
    debug_assert*! expands to (a SwitchInt on a literal constant whose span lies in that expansion)"""
    out = set()
    for t in body.terms('switch'):
        if not debug_only(t):
            continue
        if not (t.discr.is_const() and t.discr.int_value() is not None):
            d = _core(_sym(body, t.discr))
            if not (d[0] == 'const' and len(d) > 2 and d[2] in (0, 1)):
                continue
        for w in body.succ[t.bb]:
            if body.blocks[w].cleanup:
                continue
            out |= dominated_by_edge(body, (t.bb, w))
    return out


def debug_only_mutations(body):
    """calls inside debug-only blocks that take `&mut` of something that lives outside them (a named local, a parameter, a field):
    [(term, receiver tree)] -- the state change disappears from release builds together with the assertion"""
    region = debug_only_blocks(body)
    out = []
    if not region:
        return out
    for t in body.terms('call'):
        if t.bb not in region or not t.args or t.args[0].place is None:
            continue
        if not body.local_ty(t.args[0].place.local).startswith('&mut'):
            continue
        r = _core(_sym(body, t.args[0]))
        base = r
        while isinstance(base, tuple) and base and base[0] in ('field', 'index', 'variant', 'unwrap'):
            base = base[1]
        outside = False
        if isinstance(base, tuple) and base and base[0] in ('arg', 'upvar'):
            outside = True
        elif isinstance(base, tuple) and base and base[0] == 'var' and len(base) > 2:
            whole, partial = _defs_of(body, base[2])
            outside = any(d.bb not in region for d in whole)
        if outside:
            out.append((t, r))
    return out


def full_traversal(ctx, body, src_pat, key, what):
    """the loops of `body` that iterate a source matching `src_pat` (pattern over the core of the iterator expression) are left only
    when the source is exhausted or towards an error return / panic: every element is visited before a result is returned.
    Returns the number of loops checked."""
    from analysis.seq import next_call_of, iter_init
    from analysis.sym import variant_edges, ret_values, peel as _peel, last_seg
    from analysis.pat import has as _has
    n = 0
    for lp in cfg.loops(body):
        nx = next_call_of(body, lp)
        if nx is None:
            continue
        src = iter_init(body, _sym(body, nx.args[0]))
        if not _has(_core(src), src_pat):
            continue
        n += 1
        none = {(e[0], e[1]) for e in variant_edges(body, _sym(body, nx.dest), 'None')}
        rets = ret_values(body)
        for (u, v) in lp.exits(body):
            if (u, v) in none:
                continue
            reach = cfg.reach_const(body, v)
            vals = [_peel(x) for x, bb in rets if bb in reach]
            has_ret = any(body.blocks[x].term.kind == 'return' for x in reach)
            errlike = lambda x: isinstance(x, tuple) and x and ((x[0] == 'agg' and x[1] == 'adt' and (x[2].endswith('Result::Err') or x[2].endswith('Option::None')))
                                                                or (x[0] == 'call' and last_seg(x[1]) == 'from_residual'))
            ok = (not has_ret) or (bool(vals) and all(errlike(x) for x in vals))
            ctx.require(ok, body, key + '|' + norm_path(body.path).rsplit('::', 1)[-1], '%s: the loop is left early only towards an error' % what,
                        '%s: the loop over the input can be left at line %d before the input is exhausted and a result is still returned: the remaining elements are '
                        'silently dropped' % (what, body.blocks[u].term.span['line']), body.blocks[u].term.span)
        ctx.ok(body, '%s: loop at line %d visits every element' % (what, body.blocks[lp.header].term.span['line']), body.blocks[lp.header].term.span)
    return n


def field_writes(body):
    """every write to a place with a projection (field, index, deref): [(site, target tree, value tree)] -- assignment statements and the
    std calls that assign through a mutable reference: mem::replace(&mut p, v) (p := v), mem::swap, mem::take(&mut p) (p := default)"""
    z = _symz(body)
    out = []
    for s_ in body.stmts():
        if s_.kind == 'assign' and s_.lhs.proj:
            try:
                out.append((s_, _sym(body, s_.lhs), _simp(z.rvalue(s_.rv, 0, ()))))
            except Exception:
                pass
    for t in body.terms('call'):
        n = t.callee_res() or ''
        if _re.search(r'mem::replace$', n) and len(t.args) == 2:
            out.append((t, _sym(body, t.args[0]), _sym(body, t.args[1])))
        elif _re.search(r'mem::take$', n) and len(t.args) == 1:
            out.append((t, _sym(body, t.args[0]), ('default',)))
        elif _re.search(r'mem::swap$', n) and len(t.args) == 2:
            out.append((t, _sym(body, t.args[0]), _sym(body, t.args[1])))
            out.append((t, _sym(body, t.args[1]), _sym(body, t.args[0])))
    return out


INTERIOR = re.compile(r'\b(RefCell|Cell|UnsafeCell|Mutex|RwLock|Atomic\w*|Condvar)\b')


def hidden_state_sites(ctx, bodies=None):
    """uses of state that outlives a call and can be written through a shared reference: `thread_local!` keys and statics whose type has
    interior mutability (RefCell, Cell, Mutex, RwLock, atomics), and `static mut`. Init-once statics (LazyLock / OnceLock of an immutable
    value, e.g. a compiled Regex) are not state in this sense. Returns [(body, span, description)]"""
    out = []

    def walk_json(x, found):
        if isinstance(x, dict):
            if 'static' in x and isinstance(x.get('static'), str):
                found.append(x)
            for v in x.values():
                walk_json(v, found)
        elif isinstance(x, list):
            for v in x:
                walk_json(v, found)
    for b in (bodies if bodies is not None else ctx.facts.bodies):
        if not b.file().startswith('src/'):
            continue
        if '::tests::' in b.path or b.path.startswith('tests::'):
            continue
        for t in b.terms('call'):
            res = t.callee_res() or ''
            if re.search(r'thread::LocalKey(::<[^>]*>)?::(with|with_borrow|with_borrow_mut|set|get|take|replace|try_with)$', res) or \
                    re.search(r'thread::local::LocalKey.*::(with|with_borrow|with_borrow_mut|set|get|take|replace|try_with)$', res):
                fc = (t.raw.get('func', {}).get('c', {}) or {})
                ga = fc.get('gargs') or ['']
                key = re.search(r'LocalKey<(.*?)>,', fc.get('ty', '') or '')
                kty = key.group(1) if key else (ga[0] or '')
                # with_borrow / with_borrow_mut / set / take / replace exist only on keys of Cell / RefCell
                if INTERIOR.search(kty) or INTERIOR.search(ga[0] or '') or re.search(r'::(with_borrow|with_borrow_mut|set|take|replace)$', res):
                    out.append((b, t.span, 'thread-local `%s`' % kty[:80]))
        for blk in b.blocks:
            if blk.cleanup:
                continue
            found = []
            walk_json(b.raw['blocks'][blk.idx], found)
            for c in found:
                ty = c.get('ty', '') or ''
                if INTERIOR.search(ty) or ty.startswith('*mut'):
                    out.append((b, blk.term.span, 'static `%s`: %s' % (c['static'].rsplit('::', 1)[-1], ty[:80])))
    return out


def no_hidden_state(ctx, what, why, bodies=None):
    """require that the crate keeps no call-to-call state behind a thread_local / interior-mutable static (see hidden_state_sites)"""
    # positive examples evaluated on every run (the expected count on the tree is zero): the detectors must recognise these spellings
    for ty_ in ('std::cell::RefCell<std::vec::Vec<u8>>', '&std::sync::atomic::Atomic<usize>', 'std::sync::Mutex<u32>', 'std::cell::Cell<bool>'):
        if not INTERIOR.search(ty_):
            raise AnchorMissing('hidden-state detector does not recognise `%s`' % ty_)
    for ty_ in ('std::sync::LazyLock<regex::Regex>', 'std::sync::OnceLock<std::string::String>', '&str'):
        if INTERIOR.search(ty_):
            raise AnchorMissing('hidden-state detector flags the init-once / immutable type `%s`' % ty_)
    n = 0
    seen = set()
    for b, span, desc in hidden_state_sites(ctx, bodies):
        k = (b.path, desc)
        if k in seen:
            continue
        seen.add(k)
        n += 1
        ctx.fail(b, 'hidden-state|' + re.sub(r'[^A-Za-z0-9]+', '_', desc)[:40],
                 '%s keeps state between calls in a %s (line %d): %s' % (norm_path(b.path), desc, span['line'], why), span)
    if n == 0:
        scope = bodies if bodies is not None else [b for b in ctx.facts.bodies if b.file().startswith('src/')]
        ctx.ok(scope[0] if scope else ctx.facts.bodies[0], '%s: no thread-local or interior-mutable static is used in %d function bodies of %s' % (
            what, len(scope), ', '.join(sorted({b.file() for b in scope}))[:160]))

    return n



def py_encoding_agrees(ctx, type_path, variants):
    """writer / reader agreement of the Python encoding of a unit-variant enum: `IntoPyObject::into_pyobject` writes one string literal per
    variant, `FromPyObject::extract_bound` reads the same literal back as the same variant (it may accept more spellings). Requires both impls."""
    from analysis.alts import expand, flatten
    from analysis.sym import symbolizer, simplify, edge_guards, peel as _peel
    short = type_path.rsplit('::', 1)[-1]
    w = [b for b in ctx.facts.bodies if b.kind != 'Closure' and b.path.endswith('::into_pyobject') and type_path in str(b.impl_self)]
    r = [b for b in ctx.facts.bodies if b.kind != 'Closure' and b.path.endswith('::extract_bound') and type_path in str(b.impl_self)]
    if len(w) != 1 or len(r) != 1:
        raise AnchorMissing('IntoPyObject / FromPyObject for %s (found %d / %d)' % (type_path, len(w), len(r)))
    w, r = w[0], r[0]

    def lit(t):
        c = _core(t)
        if c[0] == 'const' and isinstance(c[1], str) and c[1].startswith('"'):
            return c[1].strip('"')
        return None
    wt = {}
    calls = [t for t in w.calls(r'into_pyobject$')]
    if len(calls) != 1:
        raise AnchorMissing('%s::into_pyobject: the conversion of the chosen string' % short)
    for a_ in flatten(expand(ctx.facts, w, _nosite(_sym(w, calls[0].args[0])))):
        names = [n for tt, n in a_.variants if _core(tt)[0] == 'arg' and _core(tt)[1] == 1]
        l_ = lit(a_.value)
        if len(names) == 1 and len(names[0]) == 1 and l_ is not None:
            wt[list(names[0])[0]] = l_
    if set(wt) != set(variants):
        raise AnchorMissing('%s::into_pyobject: one string literal per variant (found %s)' % (short, sorted(wt)))
    rt = {}
    for s_ in r.stmts():
        if s_.kind != 'assign':
            continue
        try:
            v_ = _peel(simplify(symbolizer(r).rvalue(s_.rv, 0, ())))
        except Exception:
            continue
        if isinstance(v_, tuple) and v_ and v_[0] == 'agg' and v_[1] == 'adt' and v_[2].endswith('Result::Ok') and v_[3]:
            v_ = _peel(v_[3][0])
        if not (isinstance(v_, tuple) and v_ and v_[0] == 'agg' and v_[1] == 'adt' and (short + '::') in v_[2] and not v_[3]):
            continue
        var = v_[2].rsplit('::', 1)[-1]
        for g in edge_guards(r):
            if g.target != s_.bb:
                continue
            t_, pol_ = g.atom()
            c_ = _core(t_)
            if pol_ is True and c_[0] == 'call' and c_[1].endswith('::eq') and len(c_[2]) == 2 and lit(c_[2][1]) is not None:
                rt.setdefault(lit(c_[2][1]), set()).add(var)
    if not rt:
        raise AnchorMissing('%s::extract_bound: string comparisons leading to the variants' % short)
    for var, l_ in sorted(wt.items()):
        ctx.require(rt.get(l_) == {var}, r, 'py-roundtrip|' + short + '|' + var, '%s::%s is written as "%s" and "%s" is read back as %s' % (short, var, l_, l_, var),
                    '%s::%s is written as "%s", which extract_bound reads as %s: a value that went through Python comes back as another one' % (
                        short, var, l_, sorted(rt.get(l_) or ['an error'])), w.span)
    ctx.require(len(set(wt.values())) == len(variants), w, 'py-letters-distinct|' + short, 'the variants of %s are written as different strings' % short, 'written as %s' % wt)


def word_pattern_is_whitespace_only(ctx, body, what):
    """text::SPLIT_WORD_WHITESPACE_PATTERN, the one pattern that cuts a text into the words BPE tokenization, BPE training and word counting work
    on, is written with the classes `\\s` / `\\S` only (plus anchors, alternation, repetition, grouping): every character is either Unicode
    White_Space or part of a word. A pattern that names further separators (`[\\s\\x{200B}]`, `[\\s\\x1c-\\x1f]`) makes characters that are not
    whitespace disappear at the end of the text and cuts the words merges were learned on."""
    st = ctx.facts.statics.get('text::SPLIT_WORD_WHITESPACE_PATTERN')
    if st is None or not st.get('src'):
        raise AnchorMissing('the source of the static text::SPLIT_WORD_WHITESPACE_PATTERN')
    m = re.search(r'=\s*r(#*)"(.*)"\1\s*;\s*$', st['src'], re.S) or re.search(r'=\s*"(.*)"\s*;\s*$', st['src'], re.S)
    if not m:
        raise AnchorMissing('text::SPLIT_WORD_WHITESPACE_PATTERN as a string literal (`%s`)' % st['src'][:80])
    raw = m.group(m.lastindex)
    pat = raw if m.re.pattern.startswith('=\\s*r') else raw.replace('\\\\', '\\')
    rest = re.sub(r'\\s|\\S|\(\?:|[()|^$+*?]|\{\d+(,\d*)?\}', '', pat)
    ctx.require(rest == '', body, 'word-pattern|' + what, 'the word pattern `%s` is written with \\s / \\S only' % pat,
                'the word pattern is `%s`: besides \\s / \\S it names `%s` -- characters that are not Unicode White_Space are treated as separators (dropped at the '
                'end of a text, words cut where merges were learned across them)' % (pat, rest[:40]))


def blocking_receives_only(ctx, root_path, what):
    """the reducer of a fan-in (workers -> channel -> fold) takes every message with a blocking receive (`into_iter`, `iter`, `recv`): a
    `recv_timeout` / `try_recv` / `try_iter` answers "nothing yet" the same way as "all senders are gone", so a pause of the workers ends the
    fold early and the result is computed from a part of the input"""
    n = 0
    for b in ctx.facts.bodies:
        if not (b.path == root_path or (b.kind == 'Closure' and ((getattr(b, 'root', None) == root_path) or (b.parent or '').startswith(root_path)))):
            continue
        for t in b.calls(r'mpsc::Receiver::(recv_timeout|try_recv|try_iter|recv_deadline)$'):
            n += 1
            ctx.fail(b, 'non-blocking-receive|' + what, '%s receives with `%s` (line %d): a timeout or an empty channel is taken for the end of the input, the result is '
                     'computed from the messages that had arrived by then' % (what, (t.callee_res() or '').rsplit('::', 1)[-1], t.span['line']), t.span)
    if n == 0:
        ctx.ok(None, '%s: every channel receive blocks until a message or the disconnect' % what)
