"""Anchor selectors shared by the rule modules (selection by role, never by line or index)."""
from analysis.engine import AnchorMissing
from analysis import cfg
from analysis.facts import norm_path

BPE = 'BPETokenizerConfig'
BYTE = 'ByteTokenizerConfig'
CHAR = 'CharTokenizerConfig'


def body_for(ctx, path, self_pat=None):
    """unique body by normalised path, optionally restricted to an impl self type containing self_pat"""
    c = [b for b in ctx.facts.bodies if norm_path(b.path) == path and
         (self_pat is None or (b.impl_self and self_pat in b.impl_self))]
    if len(c) != 1:
        raise AnchorMissing('function `%s`%s not found (%d candidates)' % (
            path, ' for ' + self_pat if self_pat else '', len(c)))
    ctx.stats['bodies_inspected'].add(c[0].path)
    return c[0]


def bpe_body(ctx, path):
    return body_for(ctx, path, BPE)


def closure_of(ctx, tree):
    """Body of the closure denoted by an ('agg','closure',def,ops) tree"""
    t = tree
    if not (isinstance(t, tuple) and t and t[0] == 'agg' and t[1] == 'closure'):
        raise AnchorMissing('expected a closure literal, found %r' % (t[:3] if isinstance(t, tuple) else t,))
    l = ctx.facts.by_path.get(t[2], [])
    if len(l) != 1:
        raise AnchorMissing('closure body %s not found' % t[2])
    ctx.stats['bodies_inspected'].add(l[0].path)
    return l[0]


def find_pop_loop(ctx, body):
    pops = list(body.calls(r'BinaryHeap::pop$'))
    if len(pops) != 1:
        raise AnchorMissing('expected exactly one BinaryHeap::pop in %s, found %d' % (norm_path(body.path), len(pops)))
    loop = cfg.innermost_loop(body, pops[0].bb)
    if loop is None:
        raise AnchorMissing('BinaryHeap::pop in %s is not inside a loop' % norm_path(body.path))
    return pops[0], loop


def closures_in(ctx, body, recursive=True):
    out = []
    for c in ctx.facts.children.get(body.path, []):
        out.append(c)
        ctx.stats['bodies_inspected'].add(c.path)
        if recursive:
            out.extend(closures_in(ctx, c, True))
    return out


INT_BITS = {'u8': 8, 'u16': 16, 'u32': 32, 'u64': 64, 'u128': 128, 'usize': 64,
            'i8': 8, 'i16': 16, 'i32': 32, 'i64': 64, 'i128': 128, 'isize': 64}


def narrowing_casts(body):
    """(stmt, from_ty, to_ty) for IntToInt casts that can lose value bits (target narrower than source)"""
    out = []
    for s in body.stmts():
        if s.kind == 'assign' and s.rv.kind == 'cast' and s.rv.raw['kind'] == 'IntToInt':
            op = s.rv.ops[0]
            if op.place is not None and not op.place.proj:
                fty = body.local_ty(op.place.local)
            elif op.const is not None:
                fty = op.const['ty']
            else:
                continue
            tty = s.rv.ty
            if fty in INT_BITS and tty in INT_BITS and INT_BITS[tty] < INT_BITS[fty]:
                out.append((s, fty, tty))
    return out


import re as _re

PANIC_CALLS = _re.compile(r'ops::Index>::index$|ops::IndexMut>::index_mut$|Option::unwrap$|Option::expect$|Result::unwrap$|Result::expect$|'
                          r'panicking::|slice::index::|str::slice_error|Result::unwrap_err$|Option::unwrap_unchecked$|RefCell.*::borrow')


def debug_only(term):
    """the site was produced by a debug_assert*! expansion: compiled out of release builds (the shipped wheel); such
    sites are counted in the evidence but not treated as panic sites of the property"""
    return 'debug_assert' in (term.span.get('macs') or '')


def panic_sites(body, blocks=None, include_debug=False):
    """explicit panic sites among the given blocks (default: all reachable): [(term, description)]"""
    out = []
    for b in body.blocks:
        if b.cleanup or b.idx not in body.reachable:
            continue
        if blocks is not None and b.idx not in blocks:
            continue
        t = b.term
        if not include_debug and debug_only(t):
            continue
        if t.kind == 'assert':
            out.append((t, 'assert ' + t.msg['k'] + (':' + t.msg.get('op', '') if 'op' in t.msg else '')))
        elif t.kind == 'call':
            n = t.callee_res() or ''
            if PANIC_CALLS.search(n):
                out.append((t, 'call ' + n))
    return out


def dominated_by_edge(body, edge):
    """blocks reachable only through the CFG edge (u, v)"""
    from analysis import cfg
    rest = cfg.reach(body, 0, removed_edges=[edge])
    return {b for b in body.reachable if b not in rest}


# ---------------------------------------------------------------------------
# role-based variable selection (rules must not depend on the debug NAME of a local: renaming a variable is the most
# common behaviour-preserving edit)

import re as _re2
from analysis.pat import Pred as _Pred
from analysis.sym import sym as _sym, core as _core, nosite as _nosite, var_defs as _var_defs, defs_of as _defs_of, symbolizer as _symz, simplify as _simp


def V(local):
    """pattern: the mutable-state node of exactly this local"""
    return _Pred(lambda t: isinstance(t, tuple) and t and t[0] == 'var' and len(t) > 2 and t[2] == local)


def state_locals(body, ty_regex=None):
    """locals that sym treats as mutable state (named + mutably borrowed, or multi-definition named), optionally by type"""
    from analysis.sym import _defs
    _defs(body)
    out = []
    rx = _re2.compile(ty_regex) if ty_regex else None
    for v in body.vars:
        if 'pl' not in v or v['pl']['p']:
            continue
        l = v['pl']['l']
        if l <= body.arg_count:
            continue
        whole, partial = _defs_of(body, l)
        is_state = l in body._mutborrowed or len(whole) > 1 or partial
        if not is_state:
            continue
        if rx is not None and not rx.search(body.local_ty(l)):
            continue
        if l not in out:
            out.append(l)
    return out


def the_state_local(body, ty_regex, what):
    c = state_locals(body, ty_regex)
    if len(c) != 1:
        raise AnchorMissing('%s: expected one mutable local of type /%s/ in %s, found %d' % (what, ty_regex, norm_path(body.path), len(c)))
    return c[0]


def receiver_var(body, term, i=0):
    """local index of the mutable-state variable that is argument i of the call (through &mut / deref), or None"""
    from analysis.sym import sym as _sym
    t = _core(_sym(body, term.args[i]))
    if isinstance(t, tuple) and t and t[0] == 'var':
        return t[2]
    return None


def local_defs(body, local):
    """[(site, tree)] of the whole definitions of a local"""
    whole, partial = _defs_of(body, local)
    z = _symz(body)
    return [(d, _simp(z.rvalue(d.rv, 0, ())) if hasattr(d, 'rv') else _simp(z.call(d))) for d in whole]


def stores_to_local(body, local):
    return [(s, v) for s, v in local_defs(body, local) if hasattr(s, 'rv')]


def resolve_upvars(ctx, clo, t, depth=0):
    """replace ('upvar', i, name) nodes of a closure-body tree by the captured operand tree of the creating body
    (recursively through nested closures), so that rules do not depend on the names of captured variables"""
    from analysis.sym import sym as _sym
    if depth > 4 or not isinstance(t, tuple) or not t:
        return t
    if t[0] == 'upvar':
        par = ctx.facts.by_path.get(clo.parent, [])
        if len(par) == 1:
            p = par[0]
            for s, d in p.closures_created():
                if d == clo.path:
                    ops = s.rv.ops
                    if t[1] < len(ops):
                        r = _core(_sym(p, ops[t[1]]))
                        if p.kind == 'Closure':
                            return resolve_upvars(ctx, p, r, depth + 1)
                        return r
        return t
    return tuple(resolve_upvars(ctx, clo, x, depth) if isinstance(x, tuple) else x for x in t)


def range_bounds(t):
    """(lo, hi) of a half-open integer range denoted by the source tree `t` (`a..b`, `a..=b`, RangeInclusive::new(a, b)); a bound
    is an int when constant, else its core tree; None when `t` is not a range"""
    from analysis.sym import peel as _peel
    t = _peel(t)

    def val(x):
        c = _core(x)
        return c[2] if c[0] == 'const' and len(c) > 2 and isinstance(c[2], int) else c
    if isinstance(t, tuple) and t and t[0] == 'agg' and t[2].endswith('Range::Range') and len(t[3]) == 2:
        return val(t[3][0]), val(t[3][1])
    incl = None
    if isinstance(t, tuple) and t and t[0] == 'agg' and t[2].endswith('RangeInclusive::RangeInclusive') and len(t[3]) >= 2:
        incl = t[3][0], t[3][1]
    if isinstance(t, tuple) and t and t[0] == 'call' and t[1].endswith('RangeInclusive::new') and len(t[2]) == 2:
        incl = t[2][0], t[2][1]
    if incl is not None:
        lo, hi = val(incl[0]), val(incl[1])
        return lo, (hi + 1 if isinstance(hi, int) else ('bin', 'Add', hi, ('const', '1', 1)))
    return None


def byte_boundary_tests(body, xpat):
    """guards of `body` that split on "x fits in a byte" for a value matching `xpat`: `x < 256` / `x <= 255` / `x >= 256` / `x > 255`
    (either operand order) or a match on `u8::try_from(x)`. Returns [(guard, sign)] with sign +1 when the guarded edge means "fits"."""
    from analysis.sym import edge_guards, guard_variants
    from analysis.pat import match as _match, Const as _Const
    out = []
    u8try = [t for t in body.calls(r'try_from$') if body.local_ty(t.dest.local).startswith('std::result::Result<u8,')]
    for g in edge_guards(body):
        t, pol = g.atom()
        if pol is not None:
            c = _core(t)
            for op, k, sign in (('Lt', 256, 1), ('Le', 255, 1), ('Ge', 256, -1), ('Gt', 255, -1)):
                if _match(c, ('bin', op, xpat, _Const(k))):
                    out.append((g, sign if pol else -sign))
            continue
        r = guard_variants(body, g)
        if r is not None and r[1] in ({'Ok'}, {'Err'}):
            v = _nosite(r[0])
            if v[0] == 'call' and v[1].endswith('try_from') and v[2] and _match(_core(v[2][0]), xpat) and \
                    any(_nosite(_sym(body, t.dest)) == v for t in u8try):
                out.append((g, 1 if r[1] == {'Ok'} else -1))
    return out


def variant_guards(body, variant):
    """guards of `body` whose edge is taken exactly when some value is the unit enum variant `variant`, whether the code
    writes `x == E::V` (a boolean guard) or `match x { E::V => .. }` (a discriminant guard): [(guard, tree of x)]"""
    from analysis.sym import edge_guards, guard_variants
    out = []
    for g in edge_guards(body):
        t, pol = g.atom()
        if pol is not None:
            c = _core(t)
            if c[0] == 'bin' and c[1] in ('Eq', 'Ne') and ((c[1] == 'Eq') == pol):
                for a, b in ((c[2], c[3]), (c[3], c[2])):
                    if b[0] == 'agg' and b[1] == 'adt' and not b[3] and b[2].endswith('::' + variant):
                        out.append((g, a))
            continue
        r = guard_variants(body, g)
        if r is not None and r[1] == {variant}:
            out.append((g, _nosite(r[0])))
    return out


def is_variant_at(body, blk, variant):
    """some value is known to be the unit variant `variant` at block blk (a guard of variant_guards dominates blk)"""
    from analysis import cfg as _cfg
    return any(_cfg.edge_dominates(body, (g.block, g.target), blk) for g, x in variant_guards(body, variant))


def iteration_table(body, loop, counters):
    """per feasible path of one iteration of `loop` (analysis.paths): {'variants': [(tree, {names})], 'atoms': [(tree, pol)],
    'delta': {role: constant change of the counter local, None if not a constant step}, 'calls': [(term, [arg trees])]} where the
    argument trees are expressed over the counter values at the START of the iteration. `counters` maps a role name to a local."""
    from analysis import paths as _paths, poly as _poly
    from analysis.sym import peel as _peel
    ps = _paths.iteration_paths(body, loop)
    if ps is None:
        return None
    rows = []
    for p in ps:
        pe = _paths.eval_path(body, p)
        feasible = True
        for t, names in pe.variants:
            c = _peel(t)
            if isinstance(c, tuple) and c and c[0] == 'agg' and c[1] == 'adt' and c[2].rsplit('::', 1)[-1] not in names:
                feasible = False
        for t, pol in pe.atoms:
            c = _core(t)
            if c[0] == 'const' and len(c) > 2 and c[2] in (0, 1) and bool(c[2]) != pol:
                feasible = False
        if not feasible:
            continue
        delta = {}
        for role, l in counters.items():
            v = pe.env.get(l)
            if v is None:
                delta[role] = 0
                continue
            start = ('var', body.var_name(l) or '', l)
            d = _poly._add(_poly.poly(v), _poly.poly(start), -1)
            if d == {}:
                delta[role] = 0
            elif list(d.keys()) == [()]:
                delta[role] = d[()]
            else:
                delta[role] = None
        calls = [(e[1], e[2]) for e in pe.events if e[0] == 'call']
        rows.append({'variants': pe.variants, 'atoms': pe.atoms, 'delta': delta, 'calls': calls, 'path': p, 'env': dict(pe.env)})
    return rows


def is_projection_set(ctx, body, tree, src_pat, comp):
    """`tree` is the collection of component `comp` of the pairs of a source matching `src_pat`: `src.iter().map(|p| p.comp).collect()`
    or `src.iter().copied().unzip().comp`"""
    from analysis.seq import seq_of, seq_of_iter, ITEM
    from analysis.sym import peel as _peel
    from analysis.pat import match as _match
    c = _peel(tree)
    if c[0] == 'field' and c[2] == comp and _peel(c[1])[0] == 'call' and _peel(c[1])[1].endswith('unzip'):
        segs = seq_of_iter(ctx.facts, body, _peel(c[1])[2][0])
        return segs is not None and len(segs) == 1 and segs[0].kind == 'each' and not segs[0].conds and _match(_core(segs[0].src), src_pat) and _core(segs[0].elem) == ITEM
    segs = seq_of(ctx.facts, body, tree)
    return segs is not None and len(segs) == 1 and segs[0].kind == 'each' and not segs[0].conds and _match(_core(segs[0].src), src_pat) and \
        _core(segs[0].elem) == ('field', ITEM, comp)


def check_segmentation_flag(ctx, bodies, what):
    """every CharString::new(text, flag) in `bodies` (and their closures) receives the grapheme flag UNCHANGED: a parameter, a
    configuration field or a captured variable -- not a computed boolean such as `use_graphemes && !s.is_ascii()` ("\\r\\n" is one
    ASCII grapheme cluster of two code points: two sites that segment the same text differently disagree on every index)"""
    n = 0
    for b0 in bodies:
        for b in [b0] + closures_in(ctx, b0):
            for t in b.calls(r'CharString::new$'):
                if len(t.args) < 2:
                    continue
                n += 1
                f = _core(_sym(b, t.args[1]))
                f2 = f
                if f[0] == 'upvar':
                    f2 = _core(resolve_upvars(ctx, b, f))
                def _plain(x, d=0):
                    if x[0] in ('arg', 'const', 'upvar'):
                        return True
                    if x[0] == 'var':
                        return len(_defs_of(b, x[2])[0]) <= 1
                    if x[0] in ('field', 'variant') and d < 6:
                        return _plain(x[1], d + 1)
                    return False
                plain = _plain(f2)
                ctx.require(plain, b, 'segmentation-flag|' + what, '%s: CharString::new(.., flag) at line %d receives the grapheme flag unchanged' % (what, t.span['line']),
                            '%s: CharString::new at line %d is given the computed flag `%s`: this site segments the text differently from every other site '
                            '(e.g. "\\r\\n" is one ASCII grapheme cluster), so character indices, operation lists and lengths no longer agree' % (
                                what, t.span['line'], __import__('analysis.sym', fromlist=['show_in']).show_in(b, f2)[:80]), t.span)
    return n


def _flows_from(body, x, t, stop, seen=None):
    """does the value of call `t` flow into operand/place x (backward through definitions), without passing through a call that
    matches `stop` (a capacity hint does not carry the length into the container's contents)"""
    from analysis.facts import Place as _Place
    import re as _re
    if seen is None:
        seen = set()
    pl = x if isinstance(x, _Place) else getattr(x, 'place', None)
    if pl is None:
        return False
    l = pl.local
    if l in seen or (1 <= l <= body.arg_count):
        return False
    seen.add(l)
    whole, partial = _defs_of(body, l)
    for d in list(whole) + list(partial):
        if hasattr(d, 'rv'):
            if d.rv.place is not None and _flows_from(body, d.rv.place, t, stop, seen):
                return True
            if any(_flows_from(body, o, t, stop, seen) for o in d.rv.ops):
                return True
        else:
            if d is t:
                return True
            if _re.search(stop, d.callee_res() or ''):
                continue
            if any(_flows_from(body, o, t, stop, seen) for o in d.args):
                return True
    return False


def length_consumers(body, t):
    """terminators (calls, switches) that consume the result of the length call `t`, other than capacity hints
    (`with_capacity`, `reserve`, ...): a raw byte / code point length that only pre-sizes a buffer is harmless"""
    import re as _re
    stop = r'::(with_capacity|reserve|reserve_exact|shrink_to|try_reserve)$'
    out = []
    for blk in body.blocks:
        if blk.cleanup or blk.idx not in body.reachable:
            continue
        u = blk.term
        if u is t:
            continue
        ops = list(u.args) if u.kind == 'call' else ([u.discr] if u.kind == 'switch' else [])
        if u.kind == 'call' and _re.search(stop, u.callee_res() or ''):
            continue
        if any(_flows_from(body, o, t, stop) for o in ops):
            out.append(u)
    return out
