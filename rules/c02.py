"""C02 BPE tokenization is lossless for every well-formed table: id-space agreement and byte provenance."""
from analysis.engine import rule, AnchorMissing
from analysis import cfg
from analysis.facts import norm_path
from analysis.sym import sym, show_in, nosite, peel, core, walk, ret_values, args_of, loop_source
from analysis.pat import match, Call, Cap, ANY, Pred, Const, has, chain_names
from rules.common import body_for, bpe_body, closure_of, BPE, find_pop_loop
from rules import bpe_ids

TOK = bpe_ids.TOK


@rule('C02', 'R-C02-1', 'T8 OFFSET',
      'merge id / token id / token-table index agree on the tokenize and de_tokenize side: merged positions get '
      '256 + merge id, de_tokenize indexes state.1 with the unshifted id below its unshifted length, the table is '
      'written bytes-first then merges in id order')
def r1(ctx):
    bpe_ids.check_writer(ctx)
    bpe_ids.check_merge_bytes_sink(ctx)
    b = body_for(ctx, TOK + 'de_tokenize', BPE)
    bpe_ids.check_table_index(ctx, b, 'BPE de_tokenize')


@rule('C02', 'R-C02-2', 'T2 provenance',
      'the bytes stored for a merged position are the popped candidate bytes (concat of the two neighbours) and the '
      'second position is cleared and its id set to None in the same iteration')
def r2(ctx):
    body = bpe_body(ctx, 'tokenization::BaseTokenizer::merge_bytes')
    pop, loop = find_pop_loop(ctx, body)
    # bytes[first_idx] = merged (clone of popped.5)
    stores = []
    for s in body.stmts():
        if s.bb in loop.blocks and s.kind == 'assign' and s.lhs.proj and s.rv.kind == 'use' and \
                body.local_ty(s.lhs.local) == '&mut std::vec::Vec<u8>':
            stores.append(s)
    if len(stores) != 1:
        raise AnchorMissing('store of the merged bytes `bytes[first_idx] = merged` (found %d)' % len(stores))
    s = stores[0]
    tgt = sym(body, s.lhs)
    val = core(sym(body, s.rv.ops[0]))
    okt = tgt[0] == 'index' and match(core(tgt[2]), ('field', ('field', Call('BinaryHeap::pop'), 1), 0))
    okv = match(val, ('field', Call('BinaryHeap::pop'), 5))
    ctx.require(okt and okv, body, 'merged-bytes', 'bytes[first_idx] = bytes of the popped candidate',
                'merged bytes store is %s = %s' % (show_in(body, tgt), show_in(body, val)), s.span)
    clears = [t for t in body.calls(r'Vec::clear$') if t.bb in loop.blocks]
    okc = len(clears) == 1
    if okc:
        c = sym(body, clears[0].args[0])
        okc = c[0] == 'index' and nosite(c[1]) == nosite(tgt[1]) and match(core(c[2]), ('field', Call('BinaryHeap::pop'), 2))
    ctx.require(okc, body, 'second-cleared', 'bytes[second_idx] is cleared', None, clears[0].span if clears else None)
    nones = []
    for st in body.stmts():
        if st.bb in loop.blocks and st.kind == 'assign' and st.lhs.proj and st.rv.kind == 'use' and \
                'Option<u32>' in body.local_ty(st.lhs.local):
            v = sym(body, st.rv.ops[0])
            if v[0] == 'agg' and v[2].endswith('Option::None'):
                nones.append((st, sym(body, st.lhs)))
    okn = len(nones) == 1 and nones[0][1][0] == 'index' and match(core(nones[0][1][2]), ('field', Call('BinaryHeap::pop'), 2))
    ctx.require(okn, body, 'second-none', 'token_ids[second_idx] = None', None)
    # clear and store are in the same straight-line region: both dominated by the staleness filter, and
    # the store dominates the clear or vice versa
    if clears:
        ctx.require(cfg.dominates(body, s.bb, clears[0].bb) or cfg.dominates(body, clears[0].bb, s.bb), body, 'same-iteration',
                    'store and clear happen on the same paths', None)
    # initial pair candidates: bytes = concat(first, second) in zip order
    inits = [t for t in body.calls(r'Iterator::collect$') if body.local_ty(t.dest.local).startswith('std::collections::BinaryHeap<')]
    if len(inits) != 1:
        raise AnchorMissing('initial heap construction')
    ch = sym(body, inits[0].args[0])
    clo = closure_of(ctx, ch[2][1])
    cc = list(clo.calls(r'slice::concat$'))
    good = False
    if len(cc) != 1:
        raise AnchorMissing('the concatenation of the two neighbouring tokens in the initial-candidate closure (found %d)' % len(cc))
    if len(cc) == 1:
        arr = core(sym(clo, cc[0].args[0]))
        good = match(arr, ('agg', 'array', '', (('field', ('field', ('arg', 2, ANY), 0), 1), ('field', ('field', ('arg', 2, ANY), 1), 1))))
        if not good and arr[0] == 'agg' and arr[1] == 'array' and len(arr[3]) == 2:
            # index form over the positions: [bytes[i], bytes[i + 1]]
            from analysis import poly as _poly
            a0, a1 = core(arr[3][0]), core(arr[3][1])
            good = a0[0] == 'index' and a1[0] == 'index' and nosite(a0[1]) == nosite(a1[1]) and _poly.poly(a1[2]) == _poly._add(_poly.poly(a0[2]), {(): 1}, 1)
        if not good:
            # `bytes.windows(2).enumerate()`: the window IS the (left, right) pair
            good = match(arr, ('field', ('arg', 2, ANY), 1)) and has(core(ch), Call('slice::windows', ANY, Const(2)))
    ctx.require(good, clo, 'initial-concat', 'initial candidate bytes = concat(left bytes, right bytes)', None,
                cc[0].span if cc else None)
    # collected token ids: flatten of token_ids appended once per word
    ext = [t for t in body.calls(r'Extend>::extend$') if t.args[0].place is not None and 'Vec<u32>' in body.local_ty(t.args[0].place.local)]
    good = len(ext) == 1 and has(sym(body, ext[0].args[1]), Call('Iterator::flatten'))
    ctx.require(good, body, 'emit', 'the live token ids of the word are appended in position order (flatten of the id vector)', None)


@rule('C02', 'R-C02-3', 'T11 SIBLING',
      'the tokenizer and the trainer split words with the same static pattern item')
def r3(ctx):
    b = bpe_body(ctx, 'tokenization::BaseTokenizer::new')
    rn = [t for t in b.calls(r'regex::Regex::new$')]
    a = [sym(b, t.args[0]) for t in rn]
    good1 = any(x == ('static', 'text::SPLIT_WORD_WHITESPACE_PATTERN') for x in a)
    from rules.common import word_pattern_is_whitespace_only
    word_pattern_is_whitespace_only(ctx, b, 'tokenizer')
    ctx.require(good1, b, 'tokenizer-pattern', 'BPETokenizer::new compiles text::SPLIT_WORD_WHITESPACE_PATTERN',
                'BPETokenizer::new compiles %s' % [show_in(b, x) for x in a])
    c = ctx.body('text::count_words_whitespace')
    rn = [t for t in c.calls(r'regex::Regex::new$')]
    a = [sym(c, t.args[0]) for t in rn]
    good2 = any(x == ('static', 'text::SPLIT_WORD_WHITESPACE_PATTERN') for x in a)
    ctx.require(good2, c, 'trainer-pattern', 'count_words_whitespace (used by train_bpe) compiles the same static',
                'count_words_whitespace compiles %s' % [show_in(c, x) for x in a])
    # and merge_bytes iterates find_iter of state.2 over the input
    m = bpe_body(ctx, 'tokenization::BaseTokenizer::merge_bytes')
    fi = [t for t in m.calls(r'Regex::find_iter$')]
    good = len(fi) == 1 and bpe_ids.is_state(peel(sym(m, fi[0].args[0])), 2) and match(sym(m, fi[0].args[1]), ('arg', 2, ANY))
    ctx.require(good, m, 'word-iteration', 'merge_bytes iterates the matches of state.2 over its input', None)


@rule('C02', 'R-C02-4', 'T1 ORDER / T15 TYPE',
      'de_tokenize appends the table entry of each id in iteration order and converts with String::from_utf8 '
      '(an error, not a panic or lossy conversion)')
def r4(ctx):
    b = body_for(ctx, TOK + 'de_tokenize', BPE)
    fu = list(b.calls(r'String::from_utf8$'))
    lossy = list(b.calls(r'from_utf8_lossy$|from_utf8_unchecked$'))
    ctx.require(len(fu) == 1 and not lossy, b, 'utf8', 'result is String::from_utf8(bytes)?', None)
    # the byte buffer as a sequence: per id, the table entry of that id (state.1[id], or the payload of state.1.get(id)) is appended once
    from analysis.seq import seq_of_var, ITEM as _IT
    from rules.common import state_locals
    bufs = state_locals(b, r'^std::vec::Vec<u8>$')
    segs = seq_of_var(ctx.facts, b, bufs[0]) if len(bufs) == 1 else None
    n = 0
    shape = segs is not None and len(segs) == 1 and segs[0].kind == 'nest' and not segs[0].conds and match(core(segs[0].src), ('arg', 2, ANY))
    for sg in (segs[0].inner if shape else ()):
        src = core(sg.src) if sg.src is not None else None
        entry = src is not None and ((src[0] == 'index' and bpe_ids.is_state(src[1], 1) and core(src[2]) == _IT) or
                                     (src[0] == 'call' and src[1].endswith('::get') and len(src[2]) == 2 and bpe_ids.is_state(core(src[2][0]), 1) and core(src[2][1]) == _IT))
        if sg.kind == 'each' and entry:
            n += 1
    ctx.require(shape, b, 'append-in-loop', 'table bytes are appended inside the id loop, in the order of token_ids', 'the byte buffer is built as %s' % [repr(x)[:140] for x in segs or ()])
    ctx.require(n == 1, b, 'append', 'exactly one append of state.1[id] per regular id', 'found %d appends of table entries' % n)
    # the iteration is over the token_ids parameter without reordering adaptor
    nx = [t for t in b.calls(r'::next$')]
    good = False
    for t in nx:
        src, names = chain_names(loop_source(b, t))
        if match(src, ('arg', 2, ANY)) and not [n_ for n_ in names if n_ in ('rev', 'sorted', 'skip', 'step_by', 'filter', 'take')]:
            good = True
    ctx.require(good, b, 'id-order', 'ids are visited in the given order (plain iteration over token_ids)', None)


@rule('C02', 'R-C02-5', 'T15 TYPE (no narrowing of positions)',
      'positions and ids inside merge_bytes are never narrowed: no integer cast to a smaller type on a usize/u32 value '
      '(a wrapped position would alias another token of a long word)')
def r5(ctx):
    from rules.common import narrowing_casts, closures_in
    body = bpe_body(ctx, 'tokenization::BaseTokenizer::merge_bytes')
    bodies = [body] + closures_in(ctx, body)
    n = 0
    for b in bodies:
        for s, f, t in narrowing_casts(b):
            if s.span['exp']:
                continue
            n += 1
            ctx.fail(b, 'narrowing|%s->%s' % (f, t), 'value %s is narrowed from %s to %s at line %d' % (
                show_in(b, sym(b, s.rv.ops[0])), f, t, s.span['line']), s.span)
    hty = [l['ty'] for l in body.locals if l['ty'].startswith('std::collections::BinaryHeap<')]
    good = bool(hty) and 'std::cmp::Reverse<usize>, usize,' in hty[0]
    ctx.require(good, body, 'heap-position-type', 'heap entries store both positions as usize', 'heap entry type is %s' % hty)
    if n == 0:
        ctx.ok(body, 'no narrowing integer cast in merge_bytes and its %d closures' % (len(bodies) - 1))
    # emitted ids: single drain (shared with C03)
    ext = [t for t in body.terms('call') if t.args and t.args[0].place is not None and
           body.local_ty(t.args[0].place.local).startswith('&mut std::vec::Vec<u32>')]
    rv = ret_values(body)
    res = nosite(rv[0][0]) if len(rv) == 1 else None
    wr = [t for t in ext if nosite(sym(body, t.args[0])) == res]
    ctx.require(len(wr) == 1 and (wr[0].callee_res() or '').endswith('Extend>::extend'), body, 'single-emitter',
                'the result vector is written once per word, by the drain of the id vector',
                'the result vector is written by %s' % [(w.callee_res(), w.span['line']) for w in wr])
    # no state outside the tokenizer and the call: statics / thread locals are not consulted
    tls = []
    for b in bodies:
        for s in b.stmts():
            if s.kind == 'assign' and s.rv.kind == 'tls':
                tls.append((b, s))
        for t in b.calls(r'LocalKey.*::with|LocalKey.*::with_borrow|thread::local'):
            tls.append((b, t))
    ctx.require(not tls, body, 'no-ambient-state', 'merge_bytes consults no thread-local / static mutable state',
                'merge_bytes uses thread-local state at line %d: results of one tokenizer leak into another' % (
                    tls[0][1].span['line'] if tls else 0))


@rule('C02', 'R-C02-6', 'T10 WHO (whole pieces) / MUST-PASS (dense merge ids)',
      'tokenize hands every regular piece of split_input(s) to merge_bytes unchanged and whole (a piece cut into chunks loses '
      'the whitespace at the cut and merges across it differently) and appends its ids once; merge_bytes has no other caller; '
      'the table producer train_bpe records a merge under the loop index in every iteration that selected a pair, so the ids of a '
      'trained table are dense (the tokenizer lays the table out densely in id order)')
def r6(ctx):
    from analysis.seq import seq_of_var, ITEM
    from rules.common import state_locals
    t = body_for(ctx, TOK + 'tokenize', BPE)
    ids = state_locals(t, r'^std::vec::Vec<u32>$')
    if len(ids) != 1:
        raise AnchorMissing('id vector of BPE tokenize (found %d)' % len(ids))
    segs = seq_of_var(ctx.facts, t, ids[0])
    top = segs[0] if segs is not None and len(segs) == 1 and segs[0].kind == 'nest' else None
    ok = top is not None and not top.conds and match(core(top.src), Call('split_input', ('arg', 1, ANY), ('arg', 2, ANY), ('arg', 3, ANY)))
    ctx.require(ok, t, 'per-piece', 'ids are appended once per piece of split_input(s, ignore_special_tokens), in order',
                'ids are built as %s' % [repr(x)[:160] for x in segs or ()])
    kinds = {}
    piece = lambda v: ('field', ('variant', ITEM, v), 0)
    for l in (top.inner if ok else ()):
        arm = [c[2][0] for c, p in l.conds if p and c[0] == 'is' and c[1] == ITEM and len(c[2]) == 1]
        other = [c for c, p in l.conds if not (p and c[0] == 'is' and (c[1] == ITEM or c[2] == ('Continue',)))]
        if l.kind == 'each' and arm == ['Regular'] and not other and core(l.elem) == ('item', 1) and \
                match(core(l.src), Call('merge_bytes', ('arg', 1, ANY), Pred(lambda u: core(u) == piece('Regular')))):
            kinds.setdefault('regular', []).append(l)
        elif l.kind == 'one' and arm == ['Special'] and not other and has(l.elem, Call('Vocab::token_to_id', ('field', ('arg', 1, ANY), 'special_vocab'), Pred(lambda u: core(u) == piece('Special')))):
            kinds.setdefault('special', []).append(l)
        else:
            ctx.fail(t, 'unpaired-id-writer|' + l.kind, 'ids also receive `%s` (line %d): a regular piece must go through merge_bytes whole and once' % (
                repr(l)[:140], l.term.span['line'] if l.term else 0), l.term.span if l.term else None)
    for k in ('regular', 'special'):
        ctx.require(len(kinds.get(k, [])) == 1, t, 'id-writer|' + k, 'exactly one `%s` id writer' % k, 'found %d' % len(kinds.get(k, [])))
    callers = [(b, c) for b in ctx.facts.bodies for c in b.calls(r'BaseTokenizer::merge_bytes$') if b.file().startswith('src/')]
    ctx.require(len(callers) == 1 and callers[0][0].path == t.path, t, 'single-caller', 'merge_bytes is called only from tokenize, once',
                'merge_bytes is called from %s' % sorted({norm_path(b.path) + ':%d' % c.span['line'] for b, c in callers}))
    # dense ids in the producer
    tr = ctx.body('tokenization::train_bpe')
    ins = [c for c in tr.calls(r'HashMap::insert$') if 'HashMap<std::vec::Vec<u8>, u32>' in tr.local_ty(c.args[0].place.local)]
    if len(ins) != 1:
        raise AnchorMissing('merge_ops.insert(..) in train_bpe (found %d)' % len(ins))
    loop = cfg.innermost_loop(tr, ins[0].bb)
    sel = [c for c in tr.calls(r'tokenization::max_byte_pair$') if loop is not None and c.bb in loop.blocks]
    if loop is None or len(sel) != 1:
        raise AnchorMissing('merge loop / pair selection of train_bpe')
    from analysis.sym import variant_edges
    some = variant_edges(tr, sym(tr, sel[0].dest), 'Some')
    ok = bool(some) and all(cfg.must_pass(tr, e[1], l, via_blocks=[ins[0].bb]) for e in some for l in loop.latches)
    ctx.require(ok, tr, 'dense-ids', 'every iteration that selected a pair records it under the loop index before the next iteration',
                'an iteration of the merge loop can move on to the next index without recording a merge (line %d): the saved ids have holes, '
                'and BPETokenizer::new lays the table out densely, so every later id decodes to the bytes of another merge' % ins[0].span['line'], ins[0].span)


@rule('C02', 'R-C02-7', 'prerequisite (the merge loop loses no token)',
      'the neighbour searches, stamps and re-pushes of the merge loop are well formed (R-C03-2, R-C03-3, R-C03-5, R-C03-7 '
      're-evaluated): a candidate built from the wrong neighbour (e.g. a token with itself) clears live bytes and the text is no '
      'longer recovered')
def r7(ctx):
    from rules import c03
    for fn in (c03.r2, c03.r3, c03.r5, c03.r7):
        fn(ctx)


@rule('C02', 'R-C02-8', 'T3b LOOP-EXIT (decoding reads every id)',
      'the de_tokenize loops of the BPE, byte and vocabulary tokenizers visit every token id: the loop over token_ids is left only at '
      'the end of the slice or towards an error return. A `break` at some sentinel id (an "end of sequence" token that may also be a '
      'prefix token) drops the rest of the text')
def r8(ctx):
    from rules.common import full_traversal, BYTE
    n = 0
    cands = [b for b in ctx.facts.bodies if b.path.endswith('::de_tokenize') and b.kind != 'Closure' and b.impl_trait and norm_path(b.impl_trait).endswith('Tokenize')
             and b.file() == 'src/tokenization.rs' and 'Huggingface' not in str(b.impl_self) and 'Duration' not in str(b.impl_self)]
    for b in cands:
        ctx.stats['bodies_inspected'].add(b.path)
        n += full_traversal(ctx, b, ('arg', 2, ANY), 'decode-all-ids', 'de_tokenize of %s' % (b.impl_self or '?')[:60])
    if n < 2:
        raise AnchorMissing('de_tokenize loops over token_ids (found %d)' % n)


@rule('C02', 'R-C02-9', 'prerequisite (framing and special-token split shared with the other tokenizers)',
      'BPETokenizer::tokenize runs through the shared BaseTokenizer::split_input (pieces tile the text, matcher exact) and '
      'add_prefix_and_suffix (prefix ++ ids ++ suffix, unconditional): R-C01-1, R-C01-3 and R-C01-6 re-evaluated -- a piece lost or cut '
      'at the split, or a conditional frame, breaks the BPE round trip as well')
def r9(ctx):
    from rules import c01
    c01.r1(ctx)
    c01.r3(ctx)
    c01.r6(ctx)
    # ... and decoding returns the joined token bytes untouched (R-C04-11 re-evaluated)
    from rules import c04
    c04.r11(ctx)


@rule('C02', 'R-C02-10', 'prerequisite (the tables train_bpe writes are well formed)',
      'the incremental statistics and the word rewriting of train_bpe keep their guards (R-C19-5, R-C19-8 re-evaluated): a pair that is '
      'decremented twice makes replace_pair skip a word, two later merges then produce the same bytes, the saved table has a hole in its ids '
      'and every id above the hole decodes to the wrong bytes')
def r10(ctx):
    from rules import c19
    c19.r5(ctx)
    c19.r8(ctx)
