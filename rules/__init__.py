from . import hidden
