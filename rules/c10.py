"""C10 Whitespace operations and repair are inverse; repair only touches whitespace."""
import re
from analysis.engine import rule, AnchorMissing
from analysis import cfg
from analysis.sym import sym, show_in, nosite, peel, core, walk, ret_values, args_of, guards_at, atoms_at, \
    variant_facts_at, cmp_facts_at, init_value, edge_guards, symbolizer, simplify
from analysis.pat import match, Call, Cap, ANY, Pred, Const, has, chain_names
from rules.common import state_locals, closure_of, panic_sites, dominated_by_edge, V, receiver_var, local_defs, stores_to_local

WS = 'unicode::Character::is_whitespace'


def _var(name):
    return Pred(lambda t: t[0] == 'var' and t[1] == name)


def _counters(b, loop):
    """(from_ptr local, to_ptr local): the counter tested in the loop header against the length, and the other counter
    that is advanced inside the loop"""
    fp = None
    for g in edge_guards(b):
        if g.block in loop.blocks and g.target not in loop.blocks:
            t = core(g.atom()[0])
            if t[0] == 'bin' and t[1] == 'Lt' and t[2][0] == 'var' and match(t[3], Call('Vec::len', ANY)):
                fp = t[2][2]
    if fp is None:
        raise AnchorMissing('loop counter compared with the length in the header of the alignment loop')
    others = set()
    for s in b.stmts():
        if s.bb in loop.blocks and s.kind == 'assign' and not s.lhs.proj and s.lhs.local != fp and b.var_name(s.lhs.local):
            v = core(simplify(symbolizer(b).rvalue(s.rv, 0, ())))
            if v[0] == 'bin' and v[1] == 'Add' and v[2][0] == 'var' and v[2][2] == s.lhs.local:
                others.add(s.lhs.local)
    if len(others) != 1:
        raise AnchorMissing('the target-side counter of the alignment loop (found %d candidates)' % len(others))
    return fp, list(others)[0]


def _stores_to(b, name):
    out = []
    z = symbolizer(b)
    for s in b.stmts():
        if s.kind == 'assign' and not s.lhs.proj and b.var_name(s.lhs.local) == name:
            out.append((s, simplify(z.rvalue(s.rv, 0, ()))))
    return out


@rule('C10', 'R-C10-1', 'MUST-PASS (one operation per character)',
      'operations(): the only Ok result is the vector filled by the alignment loop, which pushes exactly one operation '
      'and advances from_ptr by one on every iteration path; the loop ends only at from_ptr == len or with an Err')
def r1(ctx):
    b = ctx.body('whitespace::operations')
    oks = [(v, blk) for v, blk in ret_values(b) if v[0] == 'agg' and v[2].endswith('Result::Ok')]
    pushes = [t for t in b.calls(r'Vec::push$') if 'whitespace::Operation' in b.local_ty(t.args[0].place.local)]
    if not pushes:
        raise AnchorMissing('pushes of Operation values in operations()')
    loop = cfg.innermost_loop(b, pushes[0].bb)
    if loop is None:
        raise AnchorMissing('alignment loop of operations()')
    opsvar = core(sym(b, pushes[0].args[0]))
    ctx.require(len(oks) == 1, b, 'single-ok', 'operations() has a single Ok(..) result',
                'operations() has %d Ok(..) results: a shortcut that does not go through the per-character alignment '
                '(e.g. counting code points instead of Characters) breaks "one operation per character"' % len(oks),
                b.blocks[oks[-1][1]].term.span if oks else None)
    for v, blk in oks:
        ok = nosite(core(v[3][0])) == nosite(opsvar)
        ctx.require(ok, b, 'ok-is-loop-vector|%d' % (0 if ok else 1), 'Ok(..) returns the vector filled by the alignment loop',
                    'Ok(%s) is not the vector filled by the alignment loop' % show_in(b, v[3][0]), b.blocks[blk].term.span)
        # reached only through the loop exit `!(from_ptr < from_chars.len())`
        exits = [e for e in loop.exits(b)]
        via = [(u, w) for (u, w) in exits]
        ctx.require(cfg.must_pass(b, 0, blk, via_edges=via), b, 'ok-after-loop', 'Ok(..) is reached only through an exit of the alignment loop', None)
    fp, tp = _counters(b, loop)
    # loop exits: header condition false, or Err return
    for (u, w) in loop.exits(b):
        g = [g for g in edge_guards(b) if g.block == u and g.target == w]
        is_hdr = bool(g) and g[0].atom()[1] is False and match(core(g[0].atom()[0]), ('bin', 'Lt', V(fp), Call('Vec::len', ANY)))
        if is_hdr:
            ctx.ok(b, 'loop exit bb%d->bb%d is from_ptr >= from_chars.len()' % (u, w), b.blocks[u].term.span)
            continue
        r = cfg.reach(b, w)
        rets = [x for x in b.returns if x in r]
        errs = [blk for v, blk in ret_values(b) if v[0] == 'agg' and v[2].endswith('Result::Err')]
        to_ok = any(blk in r for v, blk in oks)
        ctx.require(not to_ok, b, 'other-exit-is-err', 'the other loop exit (bb%d->bb%d) leads to Err only' % (u, w),
                    'loop exit bb%d->bb%d leaves the alignment early and still returns Ok' % (u, w), b.blocks[u].term.span)
    # one push per iteration path; from_ptr += 1 on every path to the back edge
    incs = [(s, v) for s, v in stores_to_local(b, fp) if s.bb in loop.blocks]
    ok = len(incs) == 1 and match(core(incs[0][1]), ('bin', 'Add', V(fp), Const(1)))
    ctx.require(ok, b, 'from-ptr-step', 'from_ptr := from_ptr + 1, once per iteration', 'from_ptr updates in the loop: %s' % [show_in(b, v) for _, v in incs])
    if ok:
        body_entry = [w for w in b.succ[loop.header] if w in loop.blocks]
        for l in loop.latches:
            ctx.require(cfg.must_pass(b, loop.header, l, via_blocks=[incs[0][0].bb], from_succ=True), b, 'from-ptr-always',
                        'every path to the back edge increments from_ptr', None)
            ctx.require(cfg.must_pass(b, loop.header, l, via_blocks=[p.bb for p in pushes], from_succ=True), b, 'push-at-least-once',
                        'every path to the back edge pushes an operation', 'an iteration can finish without pushing an operation')
    for p in pushes:
        others = [q for q in pushes if q is not p and q.bb in cfg.reach_from_succ(b, p.bb, removed_blocks=[loop.header])]
        ctx.require(not others, b, 'push-at-most-once', 'after the push at line %d no second push happens in the same iteration' % p.span['line'],
                    'two operations can be pushed for one character (lines %d and %d)' % (p.span['line'], others[0].span['line'] if others else 0), p.span)


@rule('C10', 'R-C10-2', 'T13 PAIR (operation <-> pointer step <-> guard)',
      'Keep: chars equal, to_ptr += 1; Insert: target char is whitespace, to_ptr += 2; Delete: source char is whitespace, '
      'to_ptr unchanged; every to_char.unwrap() is dominated by to_char.is_some()')
def r2(ctx):
    b = ctx.body('whitespace::operations')
    pushes = [t for t in b.calls(r'Vec::push$') if 'whitespace::Operation' in b.local_ty(t.args[0].place.local)]
    loop = cfg.innermost_loop(b, pushes[0].bb)
    seen = {}
    fpl, tpl = _counters(b, loop)
    tp = [(s, v) for s, v in stores_to_local(b, tpl) if s.bb in loop.blocks]

    def derives(u, ptr):
        """tree u reads the character vector at position `ptr`"""
        return has(u, ('index', ANY, V(ptr))) or has(u, Call('::get', ANY, V(ptr))) or any(isinstance(x, tuple) and x and x[0] == 'var' and
                                                      any(has(core(dv), ('index', ANY, V(ptr))) for _, dv in local_defs(b, x[2])) for x in walk(u))
    # one row per feasible path through one iteration: the operation pushed on that path (evaluated along the path, so a value
    # chosen by a match and pushed once at the end is resolved), the change of to_ptr and the conditions taken
    from rules.common import iteration_table
    rows = iteration_table(b, loop, {'to': tpl, 'from': fpl})
    if not rows:
        raise AnchorMissing('iteration paths of the alignment loop')
    for row in rows:
        ps = [(t, a) for t, a in row['calls'] if t in pushes]
        if len(ps) != 1:
            ctx.fail(b, 'one-push-per-iteration', 'an iteration path of the alignment loop pushes %d operations' % len(ps), b.blocks[loop.header].term.span)
            continue
        p, a = ps[0]
        v = peel(a[1])
        if not (v[0] == 'agg' and v[1] == 'adt'):
            ctx.fail(b, 'push-value', 'pushed operation is not a literal variant: %s' % show_in(b, v), p.span)
            continue
        name = v[2].rsplit('::', 1)[-1]
        seen[name] = p
        atoms = [(core(t), pol) for t, pol in row['atoms']]
        inc = row['delta']['to']
        if name == 'Keep':
            g = any(pol is True and ((t[0] == 'bin' and t[1] == 'Eq') or (t[0] == 'call' and t[1].endswith('::eq'))) for t, pol in atoms)
            want = 1
        elif name == 'Insert':
            g = any(pol is True and match(t, Call(WS, Pred(lambda u: derives(u, tpl)))) for t, pol in atoms)
            want = 2
        elif name == 'Delete':
            g = any(pol is True and match(t, Call(WS, Pred(lambda u: derives(u, fpl)))) for t, pol in atoms)
            want = 0
        else:
            ctx.fail(b, 'unknown-op', 'unknown operation %s' % name, p.span)
            continue
        ctx.require(g, b, 'guard|' + name, '%s is pushed under its condition' % name, '%s is pushed without its condition (guards: %s)' % (
            name, [('' if pol else '!') + show_in(b, t)[:60] for t, pol in atoms]), p.span)
        ctx.require(inc == want, b, 'to-ptr-step|' + name, '%s advances to_ptr by %d' % (name, want),
                    '%s advances to_ptr by %s (expected %d)' % (name, inc, want), p.span)
    ctx.require(set(seen) == {'Keep', 'Insert', 'Delete'}, b, 'all-ops', 'all three operations are produced', 'operations produced: %s' % sorted(seen))
    for t in b.calls(r'Option::unwrap$'):
        if t.bb not in loop.blocks:
            continue
        x = nosite(sym(b, t.args[0]))
        ok = any(pol is True and match(tt, Call('Option::is_some', Pred(lambda u: nosite(u) == x))) for tt, pol, g in atoms_at(b, t.bb))
        ctx.require(ok, b, 'unwrap-guarded', 'to_char.unwrap() at line %d is dominated by to_char.is_some()' % t.span['line'],
                    'unwrap at line %d is not guarded by is_some(): panics at the end of the target text' % t.span['line'], t.span)
    # index guards
    for t in b.calls(r'ops::Index>::index$'):
        if t.bb not in loop.blocks:
            continue
        a = args_of(b, t)
        ok = any(op == 'Lt' and nosite(core(x)) == nosite(core(a[1])) and match(core(y), Call('Vec::len', Pred(lambda u: nosite(u) == nosite(core(a[0])))))
                 for op, x, y in cmp_facts_at(b, t.bb))
        ctx.require(ok, b, 'index-guarded', 'index at line %d is guarded by ptr < len' % t.span['line'], None, t.span)


@rule('C10', 'R-C10-3', 'T1 ORDER / T13 (repair)',
      'repair(): a length mismatch returns Err before anything is indexed and the Err path contains no panic site; the '
      'only literal ever inserted is a single space, only under Insert before a non-whitespace char not preceded by '
      'whitespace; a character is skipped only under Delete and is_whitespace; everything else is copied')
def r3(ctx):
    b = ctx.body('whitespace::repair')
    mism = [g for g in edge_guards(b) if g.atom()[1] is True and match(core(g.atom()[0]), ('bin', 'Ne', Call('len', ANY), Call('len', ANY)))]
    eqs = [g for g in edge_guards(b) if g.atom()[1] is False and match(core(g.atom()[0]), ('bin', 'Eq', Call('len', ANY), Call('len', ANY)))]
    mism = mism + eqs
    if len(mism) > 1:
        # several comparisons of the two lengths: every one that is not part of a debug assertion is a mismatch test, and none of them may
        # lead to Ok on its mismatch edge (a fallback that re-segments the text "so that the lengths agree" turns the error into a result)
        from rules.common import debug_only_blocks
        dbg = debug_only_blocks(b)
        real = [g_ for g_ in mism if g_.block not in dbg and any(match(core(x), Call('len', ('arg', 2, ANY))) for x in (core(g_.atom()[0])[2], core(g_.atom()[0])[3]))]
        for g_ in real:
            reg_ = cfg.reach_const(b, g_.target)
            okr = [blk for v, blk in ret_values(b) if v[0] == 'agg' and v[2].endswith('Result::Ok') and blk in reg_]
            ctx.require(not okr, b, 'mismatch-not-ok', 'a length mismatch never returns Ok',
                        'after the length test at line %d found a mismatch, repair can still return Ok (line %d): a length mismatch must be an error' % (
                            b.blocks[g_.block].term.span['line'], b.blocks[okr[0]].term.span['line'] if okr else 0), b.blocks[g_.block].term.span)
        errs_ = [blk for v, blk in ret_values(b) if (v[0] == 'agg' and v[2].endswith('Result::Err')) or (v[0] == 'call' and v[1].endswith('from_residual'))]
        lead = [g_ for g_ in real if any(e in cfg.reach_const(b, g_.target) for e in errs_) and
                not any(blk in cfg.reach_const(b, g_.target) for v, blk in ret_values(b) if v[0] == 'agg' and v[2].endswith('Result::Ok'))]
        if len(lead) == 1:
            mism = lead
    if len(mism) != 1:
        raise AnchorMissing('the length comparison chars.len() != operations.len() of repair()')
    g = mism[0]
    # what can run once the lengths differ: reachability from the mismatch edge, following the constants and Result variants set on
    # the way (a helper that returns Err(..) which the caller propagates with `?` only continues on the residual arm)
    region = cfg.reach_const(b, g.target)
    errs = [blk for v, blk in ret_values(b) if (v[0] == 'agg' and v[2].endswith('Result::Err')) or (v[0] == 'call' and v[1].endswith('from_residual'))]
    ctx.require(any(e in region for e in errs), b, 'mismatch-is-err', 'a length mismatch leads to Err(..)', None, b.blocks[g.block].term.span)
    ctx.require(not any(blk in region for v, blk in ret_values(b) if v[0] == 'agg' and v[2].endswith('Result::Ok')), b, 'mismatch-not-ok',
                'a length mismatch never returns Ok', None)
    ps = [(t, d) for t, d in panic_sites(b, region)]
    ctx.require(not ps, b, 'err-path-panic-free', 'the mismatch error path contains no index / unwrap / assert',
                'the mismatch error path can panic: %s at line %d (a length mismatch must be an error, not a panic)' % (
                    ps[0][1] if ps else '', ps[0][0].span['line'] if ps else 0), ps[0][0].span if ps else None)
    # everything that touches the characters runs only when the check passed
    other = set()
    for w in b.succ[g.block]:
        if w != g.target:
            other |= cfg.reach_const(b, w)
    uses = [t for t in b.calls(r'Iterator::zip$|ops::Index>::index$')]
    ctx.require(all(t.bb in other and t.bb not in region for t in uses) and bool(uses), b, 'check-first', 'zip / indexing happen only after the length check passed', None)
    # pushes
    lit = [t for t in b.calls(r'String::push$')]
    cp = [t for t in b.calls(r'String::push_str$')]
    for t in lit:
        v = sym(b, t.args[1])
        ok = v[0] == 'const' and v[2] == 32
        ctx.require(ok, b, 'literal-space', 'the only literal inserted is one space', 'literal inserted: %s' % show_in(b, v), t.span)
        atoms = [(core(tt), pol) for tt, pol, gg in atoms_at(b, t.bb)]
        from rules.common import is_variant_at, variant_guards
        ins = is_variant_at(b, t.bb, 'Insert')
        nws = any(pol is False and match(tt, Call(WS, Pred(lambda u: 'idx' not in show_in(b, u) or True))) for tt, pol in atoms)
        ctx.require(ins and nws, b, 'space-only-on-insert', 'a space is inserted only under op == Insert and !char.is_whitespace()',
                    'a space can be inserted under %s' % [('' if pol else '!') + show_in(b, tt)[:50] for tt, pol in atoms], t.span)
        # followed by the character itself
        nxt = [c for c in cp if c.bb in cfg.reach(b, t.bb) and cfg.dominates(b, t.bb, c.bb)]
        ctx.require(bool(nxt), b, 'space-then-char', 'after the inserted space the character itself is copied', None, t.span)
    ctx.require(len(lit) == 1, b, 'one-literal-site', 'exactly one literal push site', 'found %d literal pushes' % len(lit))
    # the output is append-only: nothing already copied is ever taken back
    outs = state_locals(b, r'^std::string::String$')
    for t in b.terms('call'):
        if not t.args or t.args[0].place is None or not b.local_ty(t.args[0].place.local).startswith('&mut std::string::String'):
            continue
        r_ = core(sym(b, t.args[0]))
        if r_[0] == 'var' and len(r_) > 2 and r_[2] in outs:
            n_ = (t.callee_res() or '').rsplit('::', 1)[-1]
            ctx.require(n_ in ('push', 'push_str', 'reserve', 'write_str', 'write_char'), b, 'output-append-only|' + n_,
                        'the output is only appended to (line %d: %s)' % (t.span['line'], n_),
                        'the output string is modified by `%s` at line %d: text already copied (possibly a non-whitespace character) is removed or changed' % (
                            n_, t.span['line']), t.span)
    for t in cp:
        v = core(sym(b, t.args[1]))
        ok = v[0] == 'field' and v[2] == 'str'
        ctx.require(ok, b, 'copy-char', 'push_str copies the character text (line %d)' % t.span['line'], 'push_str appends %s' % show_in(b, v), t.span)
    # skip (no push) only under Delete && is_whitespace: every path from the loop body entry to the latch that avoids all pushes crosses both guards
    loop = cfg.innermost_loop(b, cp[0].bb) if cp else None
    if loop is None:
        raise AnchorMissing('repair loop')
    push_blocks = [t.bb for t in cp]
    from rules.common import variant_guards
    del_edges = [(gg.block, gg.target) for gg, x_ in variant_guards(b, 'Delete')]
    ws_edges = [(gg.block, gg.target) for gg in edge_guards(b) if gg.atom()[1] is True and match(core(gg.atom()[0]), Call(WS, ANY))
                and any(cfg.dominates(b, de[1], gg.block) for de in del_edges)]
    some = [w for w in b.succ[loop.header]]
    nx = [t for t in b.calls(r'::next$') if t.bb in loop.blocks]
    start = nx[0].target if nx else loop.header
    ok = bool(del_edges) and bool(ws_edges) and all(
        cfg.must_pass(b, start, l, via_blocks=push_blocks, via_edges=ws_edges) for l in loop.latches)
    ctx.require(ok, b, 'skip-only-delete-ws', 'a character is dropped only under op == Delete && char.is_whitespace()',
                'a character can be dropped without `op == Delete && char.is_whitespace()`')
    # iteration is over zip(chars, operations) in order
    src = None
    for t in nx:
        from analysis.sym import loop_source
        src = loop_source(b, t)
    ok = src is not None and has(src, Call('Iterator::zip', ANY, ANY)) and not [s for s in walk(src) if isinstance(s, tuple) and s and s[0] == 'call' and
                                                                              re.search(r'::(rev|skip|step_by|filter|take)$', s[1])]
    ctx.require(ok, b, 'zip-in-order', 'characters and operations are paired in order (zip, no reordering adaptor)', None)
    oks = [v for v, blk in ret_values(b) if v[0] == 'agg' and v[2].endswith('Result::Ok')]
    outv = receiver_var(b, cp[0]) if cp else None
    ctx.require(len(oks) == 1 and outv is not None and match(core(oks[0][3][0]), V(outv)) and all(receiver_var(b, t) == outv for t in cp + lit), b, 'result',
                'Ok(the string all pushes went to)', None)


@rule('C10', 'R-C10-4', 'T11 SIBLING (whitespace predicate)',
      'operations() and repair() take every whitespace decision from Character::is_whitespace')
def r4(ctx):
    for fn in ('whitespace::operations', 'whitespace::repair'):
        b = ctx.body(fn)
        ws = [t for t in b.calls(r'is_whitespace$|is_ascii_whitespace$|char::is_whitespace$')]
        bad = [t for t in ws if (t.callee_res() or '') != WS]
        ctx.require(bool(ws) and not bad, b, 'predicate|' + fn.rsplit('::', 1)[-1], '%s uses Character::is_whitespace (%d sites)' % (fn, len(ws)),
                    '%s uses %s' % (fn, [t.callee_res() for t in bad]))


@rule('C10', 'R-C10-5', 'T2 provenance (labels)',
      'the whitespace-correction task derives its labels from operations(&item.input, &item.target, use_graphemes)')
def r5(ctx):
    cands = [b for b in ctx.facts.bodies if b.file() == 'src/data/task.rs' and list(b.calls(r'whitespace::operations$'))]
    if len(cands) != 1:
        raise AnchorMissing('the task function calling whitespace::operations (found %d)' % len(cands))
    b = cands[0]
    ctx.stats['bodies_inspected'].add(b.path)
    t = list(b.calls(r'whitespace::operations$'))[0]
    a = [core(x) for x in args_of(b, t)]
    ok = a[0][0] == 'field' and a[0][2] == 'input' and a[1][0] == 'field' and a[1][2] == 'target' and nosite(a[0][1]) == nosite(a[1][1])
    ctx.require(ok, b, 'label-args', 'labels = operations(item.input, item.target, ..)', 'labels = operations(%s, %s)' % (show_in(b, a[0]), show_in(b, a[1])), t.span)
    # the label vector is -1 x prefix, then ONE label per operation of that call, then -1 x suffix -- on every path (no shortcut
    # that invents labels without aligning input and target)
    from analysis.seq import seq_of, ITEM
    oks = [v for v, blk in ret_values(b) if v[0] == 'agg' and v[2].endswith('Result::Ok')]
    lab = None
    for v in oks:
        for x in walk(v):
            if isinstance(x, tuple) and x and x[0] == 'agg' and x[1] == 'adt' and x[2].endswith('SequenceClassification'):
                from analysis.sym import agg_field
                lab = agg_field(ctx.facts, x, 'labels')
    if lab is None:
        raise AnchorMissing('the labels field of the SequenceClassification input')
    segs = seq_of(ctx.facts, b, lab)
    opcall = nosite(sym(b, t.dest))
    def as_label(e):
        """the label of an operation is its discriminant: `op as i32`, or an exhaustive match that maps every variant to its own index"""
        c = core(e)
        if c == ITEM or (c[0] == 'discr' and c[1] == ITEM):
            return True
        from analysis.alts import flatten as _fl
        adt = ctx.facts.adts.get('whitespace::Operation')
        order = [v_['name'] for v_ in adt['variants']] if adt else []
        seen = {}
        for a_ in _fl(e):
            names = [n_ for tt, n_ in a_.variants if core(tt) == ITEM or nosite(core(tt)) == ITEM]
            val = core(a_.value)
            if len(names) == 1 and len(names[0]) == 1 and val[0] == 'const' and len(val) > 2:
                seen[list(names[0])[0]] = val[2]
            else:
                return False
        return bool(order) and seen == {n_: i for i, n_ in enumerate(order)}
    ok = segs is not None and len(segs) == 3 and segs[0].kind == 'repeat' and segs[2].kind == 'repeat' and segs[1].kind == 'each' and not segs[1].conds and \
        nosite(peel(segs[1].src, unwrap=True)) == opcall and as_label(segs[1].elem)
    ctx.require(ok, b, 'label-sequence', 'labels = -1 x prefix ++ operations(input, target) ++ -1 x suffix on every path',
                'labels are built as %s: they must be the operations of the (input, target) alignment, not a shortcut' % [repr(x)[:120] for x in segs or ()], t.span)


@rule('C10', 'R-C10-6', 'T11 SIBLING (one classification, one segmentation)',
      'operations() and repair() segment their texts with the caller\'s grapheme flag unchanged, and the whitespace predicate they '
      'both use is the Unicode White_Space predicate (R-C11-1 re-evaluated): a character that one site treats as whitespace and '
      'Unicode does not is "deleted" by repair although it is not whitespace')
def r6(ctx):
    from rules.common import check_segmentation_flag
    from rules import c11
    n = check_segmentation_flag(ctx, [ctx.body('whitespace::operations'), ctx.body('whitespace::repair')], 'whitespace')
    if n < 3:
        raise AnchorMissing('CharString::new sites of operations()/repair() (found %d)' % n)
    c11.r1(ctx)


@rule('C10', 'R-C10-7', 'prerequisite (the segmentation primitive)',
      'CharString::new segments by graphemes(true) / chars() selected by the flag alone and keeps byte lengths at full width '
      '(R-C11-6 re-evaluated): every index, length and range of this property is counted in its characters')
def r_charstring(ctx):
    from rules import c11
    c11.charstring_primitive(ctx)


@rule('C10', 'R-C10-8', 'T10 PROVENANCE (the characters aligned are those of the arguments)',
      'operations(from, to) segments `from` and `to` themselves and repair(s, ops) segments `s` itself: CharString::new receives the '
      'parameter, not a normalised / trimmed / re-cased copy. One operation per character of the ORIGINAL `from` is what repair '
      'applies them to; a copy with a different number of characters (NFC of a decomposed text) breaks the pairing')
def r8(ctx):
    n = 0
    for fn, params in (('whitespace::operations', {1: 'from', 2: 'to'}), ('whitespace::repair', {1: 's'})):
        b = ctx.body(fn)
        seen = set()
        for t in b.calls(r'CharString::new$'):
            v = core(sym(b, t.args[0]))
            n += 1
            ok = v[0] == 'arg' and v[1] in params
            if ok:
                seen.add(v[1])
            ctx.require(ok, b, 'segment-argument|' + fn.rsplit('::', 1)[-1], '%s segments its argument `%s`' % (fn, params.get(v[1], '?') if ok else '?'),
                        '%s segments `%s` (line %d) instead of its argument: the operations no longer correspond one-to-one to the characters of the text they '
                        'are applied to' % (fn, show_in(b, sym(b, t.args[0]))[:120], t.span['line']), t.span)
        ctx.require(seen == set(params), b, 'segments-all|' + fn.rsplit('::', 1)[-1], '%s segments each of %s' % (fn, sorted(params.values())),
                    '%s segments only the parameters %s of %s' % (fn, sorted(seen), sorted(params.values())))
    if n < 3:
        raise AnchorMissing('CharString::new calls of operations() / repair() (found %d)' % n)


@rule('C10', 'R-C10-9', 'T11 SIBLING (the Python encoding of an operation: writer and reader agree)',
      'Operation::into_pyobject writes one letter per variant and Operation::extract_bound reads the same letter back as the same variant (Keep "k", '
      'Insert "i", Delete "d"): operations() handed to Python and passed back to repair() are the operations that were computed')
def r9(ctx):
    from rules.common import py_encoding_agrees
    py_encoding_agrees(ctx, 'whitespace::Operation', {'Keep', 'Insert', 'Delete'})


@rule('C10', 'R-C10-10', 'T1 ORDER (operations() returns what the alignment loop produced)',
      'the vector operations() returns is only appended to, one entry per character of `from`: nothing is removed, reordered or de-duplicated after the '
      'alignment loop (a truncation to the length of `to` drops the Delete operations of trailing whitespace)')
def r10(ctx):
    b = ctx.body('whitespace::operations')
    outs = state_locals(b, r'^std::vec::Vec<whitespace::Operation>$')
    if len(outs) != 1:
        raise AnchorMissing('the operation vector of operations() (found %d)' % len(outs))
    n = 0
    for t in b.terms('call'):
        if not t.args or t.args[0].place is None:
            continue
        r_ = core(sym(b, t.args[0]))
        if not (r_[0] == 'var' and len(r_) > 2 and r_[2] == outs[0]):
            continue
        if 'mut' not in b.local_ty(t.args[0].place.local):
            continue
        n_ = (t.callee_res() or '').rsplit('::', 1)[-1]
        n += 1
        ctx.require(n_ in ('push', 'reserve', 'deref', 'deref_mut', 'extend', 'with_capacity'), b, 'operations-append-only|' + n_,
                    'the operation vector is only appended to (line %d: %s)' % (t.span['line'], n_),
                    'the operation vector is modified by `%s` at line %d after / besides the per-character pushes: the result no longer has one operation per character of `from`' % (
                        n_, t.span['line']), t.span)
    if n < 3:
        raise AnchorMissing('pushes into the operation vector (found %d)' % n)


@rule('C10', 'R-C10-11', 'T11 SIBLING (one unit: characters, not bytes)',
      'operations() and repair() count and compare in Characters of CS::new(.., use_graphemes): the byte length of an argument (`from.len()`, '
      '`to.len()`, `s.len()`) flows into nothing but capacity hints. A character pointer compared with a byte length agrees for ASCII and turns a '
      'valid pair with one multi-byte character into an error')
def r11(ctx):
    from rules.common import length_consumers
    n = 0
    for fn in ('whitespace::operations', 'whitespace::repair'):
        b = ctx.body(fn)
        from rules.common import closures_in
        for x in [b] + closures_in(ctx, b):
            from rules.common import debug_only_blocks
            dbg = debug_only_blocks(x)
            for t in x.calls(r'(?<![A-Za-z])str::len$|(?<![A-Za-z])String::len$'):
                if t.span.get('exp') or t.bb in dbg:
                    continue      # (inside a macro / a debug assertion)
                n += 1
                cons = length_consumers(x, t)
                ctx.require(not cons, x, 'byte-length|' + fn.rsplit('::', 1)[-1], '%s: the byte length taken at line %d only sizes a buffer' % (fn, t.span['line']),
                            '%s: the BYTE length `%s` (line %d) is used in `%s` (line %d): positions and counts of this function are in characters' % (
                                fn, show_in(x, sym(x, t.args[0]))[:30] + '.len()', t.span['line'],
                                ((cons[0].callee_res() or '') if cons and cons[0].kind == 'call' else 'a comparison').rsplit('::', 1)[-1], cons[0].span['line'] if cons else 0), t.span)
    ctx.ok(None, '%d byte-length reads in operations() / repair() inspected' % n)
