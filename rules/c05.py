"""C05 The threaded pipeline is observationally a sequential map, under every schedule: shape of the ticket protocol."""
import re
from analysis.engine import rule, AnchorMissing
from analysis import cfg
from analysis.sym import init_value, sym, show_in, nosite, peel, core, walk, ret_values, args_of, guards_at, atoms_at, \
    variant_facts_at, cmp_facts_at, loop_source
from analysis.pat import match, Call, Cap, ANY, Pred, Const, has, chain_names
from rules.common import closure_of, closures_in
from analysis.pat import holds
from analysis.sym import agg_sites
from rules import pipe


@rule('C05', 'R-C05-1', 'T1 ORDER (ticket under the lock)',
      'a worker takes (index, item) from the shared enumerate() iterator while holding the mutex and processes exactly '
      'the item of its ticket, once; enumerate() wraps the input inside the mutex')
def r1(ctx):
    w = pipe.worker(ctx)
    b = w.body
    recv = sym(b, w.ticket.args[0])
    ok = match(recv, Call('deref_mut', ('unwrap', Call('Mutex::lock', ANY)))) or \
        match(peel(recv), ('unwrap', Call('Mutex::lock', ANY)))
    if not ok:
        # the guard bound to a name first (`let mut guard = m.lock().expect(..); guard.next()`)
        recv2 = init_value(b, recv)
        ok = match(recv2, Call('deref_mut', ('unwrap', Call('Mutex::lock', ANY)))) or match(peel(recv2), ('unwrap', Call('Mutex::lock', ANY))) or \
            has(recv2, Call('Mutex::lock', ANY))
    ctx.require(ok, b, 'ticket-under-lock', 'ticket = shared.lock().next() (index and item taken in one step under the mutex)',
                'ticket pull receiver is %s' % show_in(b, recv), w.ticket.span)
    # no second lock / nothing else pulls from the shared iterator
    locks = list(b.calls(r'Mutex::lock$|Mutex::try_lock$'))
    ctx.require(len(locks) == 1, b, 'single-lock', 'one lock acquisition per iteration', 'found %d lock calls' % len(locks))
    # the processed item is the ticket's item
    a = sym(b, w.apply.args[1]) if len(w.apply.args) > 1 else None
    ok = a is not None and a[0] == 'agg' and len(a[3]) == 1 and pipe.is_ticket_field(w, a[3][0], 1)
    ctx.require(ok, b, 'process-ticket-item', 'pipeline(item) is applied to component 1 of the ticket',
                'pipeline is applied to %s' % (show_in(b, a) if a else '?'), w.apply.span)
    ctx.require(cfg.dominates(b, w.ticket.bb, w.apply.bb) and
                any(names == {'Some'} and nosite(t) == nosite(sym(b, w.ticket.dest)) for t, names in variant_facts_at(b, w.apply.bb)),
                b, 'process-only-with-ticket', 'the pipeline runs only on the Some arm of the ticket pull', None, w.apply.span)
    # exactly one pipeline application per ticket: apply not inside an inner loop
    inner = cfg.innermost_loop(b, w.apply.bb)
    ctx.require(inner is w.loop or (inner is not None and inner.header == w.loop.header), b, 'process-once',
                'each ticket is processed exactly once (no inner loop around the pipeline call)', None, w.apply.span)
    # enumerate inside the mutex
    n = w.new
    mx = [t for t in n.calls(r'Mutex::new$')]
    ok = len(mx) == 1 and match(sym(n, mx[0].args[0]), Call('Iterator::enumerate', ('arg', 1, ANY)))
    ctx.require(ok, n, 'enumerate-inside-mutex', 'shared = Mutex::new(iter.enumerate()): index and item are taken atomically',
                'the mutex wraps %s' % (show_in(n, sym(n, mx[0].args[0])) if mx else '?'), mx[0].span if mx else None)
    # the worker's captured handle is (a clone of) that Arc<Mutex<..>>
    from rules.common import resolve_upvars
    cap0 = [core(c) for c in w.captures]
    if w.spawn_body is not n:
        cap0 = [core(resolve_upvars(ctx, w.spawn_body, c)) for c in cap0]
    arc = [t for t in n.calls(r'Arc::new$') if has(sym(n, t.args[0]), Call('Mutex::new'))]
    ok = len(arc) == 1 and any(nosite(c) == core(sym(n, arc[0].dest)) for c in cap0)
    ctx.require(ok, n, 'shared-handle', 'every worker captures a clone of the same Arc<Mutex<Enumerate<..>>>', None, w.spawn.span)


def _ordering_ok(b, t):
    o = sym(b, t.args[-1])
    return o[0] == 'agg' and o[2].rsplit('::', 1)[-1] in ('SeqCst', 'Acquire', 'Release', 'AcqRel')


@rule('C05', 'R-C05-2', 'T3 LOOP-EXIT (turn wait)',
      'the send is dominated by the exit of a wait loop whose only exit condition is send_next.load() == ticket index')
def r2(ctx):
    w = pipe.worker(ctx)
    b = w.body
    turn = ('bin', 'Eq', Call('::load', ANY, ANY), Pred(lambda q: pipe.is_ticket_field(w, q, 0)))
    ok = holds(b, w.send.bb, turn)
    ctx.require(ok, b, 'send-on-turn', 'send happens only when send_next == ticket index',
                'the send is not guarded by `send_next.load() == idx`: results can be delivered out of order', w.send.span)
    # the load that provides this fact sits in a wait loop (other loads, e.g. in debug assertions, are irrelevant)
    waits = []
    for ld in w.loads:
        wl = cfg.innermost_loop(b, ld.bb)
        if wl is not None and wl is not w.loop and w.send.bb not in wl.blocks and wl.header in w.loop.blocks:
            waits.append((ld, wl))
    ctx.require(len(waits) == 1, b, 'wait-loop', 'the turn check is re-evaluated in a wait loop before the send',
                'found %d wait loops around a load of the turn counter' % len(waits), w.loads[0].span if w.loads else None)
    if len(waits) != 1:
        return
    ld, wl = waits[0]
    ex = wl.exits(b)
    ctx.require(len(ex) == 1, b, 'wait-loop-exit', 'the wait loop has a single exit (the turn condition)',
                'the wait loop has %d exits: a worker may send before its turn' % len(ex), ld.span)
    ctx.require(_ordering_ok(b, ld), b, 'load-ordering', 'turn load uses a synchronising ordering (not Relaxed)', None, ld.span)
    ctx.require(core(sym(b, ld.args[0]))[0] in ('upvar', 'arg'), b, 'turn-counter', 'the turn counter is the shared atomic handed to the worker', None, ld.span)
    w.wait_load = ld


@rule('C05', 'R-C05-3', 'T1 ORDER + POST-DOM (send, then advance, always)',
      'the result sent is the pipeline result of the ticket; the turn is advanced to index+1 after the send on every '
      'path (also when the send fails), exactly once')
def r3(ctx):
    w = pipe.worker(ctx)
    b = w.body
    v = core(sym(b, w.send.args[1]))
    ok = nosite(v) == core(sym(b, w.apply.dest))
    ctx.require(ok, b, 'send-result', 'the value sent is the pipeline result of this ticket',
                'the value sent is %s' % show_in(b, sym(b, w.send.args[1])), w.send.span)
    ctx.require((w.send.callee_res() or '').endswith('SyncSender::send'), b, 'blocking-send',
                'delivery uses the blocking SyncSender::send (never drops an item when the channel is full)',
                'delivery uses %s' % w.send.callee_res(), w.send.span)
    if len(w.writes) != 1:
        ctx.fail(b, 'advance-once', 'expected exactly one write to the turn counter in the worker, found %d' % len(w.writes))
        return
    wr = w.writes[0]
    name = wr.callee_res() or ''
    val = core(sym(b, wr.args[1]))
    if name.endswith('fetch_add'):
        okv = val[0] == 'const' and val[2] == 1
    else:
        okv = val[0] == 'bin' and val[1] == 'Add' and (
            (pipe.is_ticket_field(w, val[2], 0) and val[3][0] == 'const' and val[3][2] == 1) or
            (pipe.is_ticket_field(w, val[3], 0) and val[2][0] == 'const' and val[2][2] == 1))
    ctx.require(okv, b, 'advance-value', 'turn := ticket index + 1', 'turn is set to %s' % show_in(b, sym(b, wr.args[1])), wr.span)
    ctx.require(cfg.dominates(b, w.send.bb, wr.bb), b, 'send-before-advance',
                'the send happens before the turn is advanced (the next worker cannot overtake)',
                'the turn is advanced before (or without) the send: the next item can be delivered first', wr.span)
    ends = list(b.returns) + list(w.loop.latches)
    ok = all(cfg.must_pass(b, w.send.bb, e, via_blocks=[wr.bb], from_succ=True) for e in ends)
    ctx.require(ok, b, 'advance-always', 'after a send attempt the turn is advanced on every path (also on send error)',
                'there is a path from the send to the end of the iteration that does not advance the turn: the other '
                'workers spin forever', wr.span)
    ctx.require(_ordering_ok(b, wr), b, 'store-ordering', 'turn write uses a synchronising ordering (not Relaxed)', None, wr.span)
    ctx.require(core(sym(b, wr.args[0]))[0] in ('upvar', 'arg') and
                any(nosite(core(sym(b, wr.args[0]))) == nosite(core(sym(b, l_.args[0]))) for l_ in w.loads),
                b, 'same-counter', 'the counter advanced is the one checked by the wait loop', None, wr.span)


@rule('C05', 'R-C05-4', 'T10 WHO',
      'the turn counter starts at 0 and is written only by the worker\'s advance; the consumer side is a plain '
      'blocking recv() whose disconnect ends the iteration; all senders die with the workers')
def r4(ctx):
    w = pipe.worker(ctx)
    n = w.new
    at = [t for t in n.calls(r'Atomic(Usize|U64|U32)?::new$')]
    ok = len(at) == 1 and match(sym(n, at[0].args[0]), Const(0))
    ctx.require(ok, n, 'counter-init', 'turn counter starts at 0 (the first enumerate index)', None, at[0].span if at else None)
    writers = []
    for b in [n] + closures_in(ctx, n):
        for t in b.calls(pipe.ATOMIC_WRITES):
            writers.append((b, t))
    ctx.require(len(writers) == 1 and writers[0][0] is w.body, n, 'counter-writers',
                'the only write to the turn counter is the worker\'s advance', 'found %d writers' % len(writers))
    nx = ctx.body('<data::loading::Pipe as std::iter::Iterator>::next')
    rcv = [t for t in nx.calls(r'mpsc::Receiver::(recv|try_recv|recv_timeout|recv_deadline|try_iter|iter)$')]
    ok = len(rcv) == 1 and (rcv[0].callee_res() or '').endswith('Receiver::recv')
    # the blocking iterators of the receiver are `recv().ok()` by definition: mpsc::IntoIter::next / mpsc::Iter::next
    it_next = [t for t in nx.calls(r'mpsc::(IntoIter|Iter) as std::iter::Iterator>::next$|mpsc::(IntoIter|Iter)::next$')]
    if not rcv and len(it_next) == 1:
        okd = any(peel(v)[0] == 'call' and peel(v)[1] == it_next[0].callee_res() for v, bb in ret_values(nx))
        ctx.require(okd, nx, 'blocking-recv', 'threaded next() is the blocking receiver iterator (recv().ok())', None, it_next[0].span)
        ok = False
        rcv = it_next
    ctx.require(ok or bool(it_next), nx, 'blocking-recv', 'threaded next() receives with the blocking rx.recv() (None only on disconnect)',
                'threaded next() receives with %s (a timeout or try_recv ends the iteration early and loses items)' % [
                    (t.callee_res() or '').rsplit('::', 1)[-1] for t in rcv], rcv[0].span if rcv else None)
    if ok:
        r = nosite(sym(nx, rcv[0].dest))
        for v, bb in ret_values(nx):
            cv = core(v)
            if not has(v, Pred(lambda u: nosite(u) == r)) and not (v[0] == 'agg' and v[2].endswith('Option::None') and
                                                                   any(has(tt, Pred(lambda u: nosite(u) == r)) for tt, n_ in variant_facts_at(nx, bb))):
                continue
            if match(v, Call('Result::ok', Pred(lambda u: nosite(u) == r))):
                ctx.ok(nx, 'threaded next() = rx.recv().ok()', nx.blocks[bb].term.span)
            elif v[0] == 'agg' and v[2].endswith('Option::Some'):
                good = any(nosite(tt) == r and n_ == {'Ok'} for tt, n_ in variant_facts_at(nx, bb)) and has(v, Pred(lambda u: nosite(u) == r))
                ctx.require(good, nx, 'recv-some', 'Some(item) is returned for Ok(item) of the recv', None, nx.blocks[bb].term.span)
            elif v[0] == 'agg' and v[2].endswith('Option::None'):
                good = any(nosite(tt) == r and n_ == {'Err'} for tt, n_ in variant_facts_at(nx, bb))
                ctx.require(good, nx, 'recv-none', 'None is returned only when the channel is disconnected', None, nx.blocks[bb].term.span)
    inn = [t for t in nx.calls(r'::next$') if t not in it_next]
    ctx.require(len(inn) == 1 and any(has(core(v), Pred(lambda u: u[0] == 'call' and u[1] == inn[0].callee_res())) for v, bb in ret_values(nx)), nx, 'unthreaded-next',
                'unthreaded next() delegates to the inner iterator', None)
    # original sender dropped before returning: channel closes when the workers are done
    sd = [t for t in n.terms('drop') if t.raw['ty'].startswith('std::sync::mpsc::SyncSender<')] + \
        [t for t in n.calls(r'mem::drop$') if t.args and t.args[0].place is not None and n.local_ty(t.args[0].place.local).startswith('std::sync::mpsc::SyncSender<')]
    chan = [t for t in n.calls(r'mpsc::sync_channel$')]
    ok = bool(sd) and len(chan) == 1 and all(cfg.must_pass(n, chan[0].bb, r, via_blocks=[t.bb for t in sd]) for r in n.returns)
    ctx.require(ok, n, 'sender-dropped', 'Pipe::new drops its own SyncSender, so the channel disconnects when the last worker exits',
                'Pipe::new keeps a SyncSender alive: the consumer blocks forever after the last item', w.spawn.span)
    adt = ctx.facts.adts.get('data::loading::PipeInner')
    tys = [f['ty'] for v in adt['variants'] if v['name'] == 'Threaded' for f in v['fields']] if adt else []
    ctx.require(tys and all('Sender' not in t for t in tys), n, 'no-sender-in-pipe', 'the Pipe holds only the Receiver', 'Threaded fields: %s' % tys)


@rule('C05', 'R-C05-5', 'T12 OWNERSHIP',
      'items cannot be duplicated (no Clone/Copy bound on I or O) and are not silently dropped on a normal path of the worker')
def r5(ctx):
    w = pipe.worker(ctx)
    n = w.new
    bad = [p for p in n.preds_decl if re.match(r'^(I|O): .*(Clone|Copy)', p)]
    ctx.require(not bad, n, 'no-clone-bound', 'I and O carry no Clone/Copy bound: an item cannot be duplicated', 'bounds: %s' % bad)
    b = w.body
    for t in b.terms('drop'):
        ty = t.raw['ty']
        if ty.startswith('std::sync::MutexGuard<') or ty.startswith('{closure@'):
            continue
        # handles that the worker owns and gives up when it ends (the shared input, the pipeline function, its sender): they name I / O in
        # their type but hold no item of the worker
        if re.match(r'^(std::sync::Arc<|std::sync::mpsc::(Sync)?Sender<|&)', ty):
            continue
        if re.search(r'\b(I|O)\b', ty):
            allowed = re.match(r'^(std::result::Result<\(\), )?std::sync::mp[ms]c::SendError<O>>?$', ty) is not None
            ctx.require(allowed, b, 'item-drop|' + re.sub(r'[^A-Za-z]+', '_', ty)[:40],
                        'only the SendError<O> of a failed send is dropped (line %d)' % t.span['line'],
                        'a value of type %s (contains an item) is dropped on a normal path at line %d' % (ty, t.span['line']), t.span)
    ctx.ok(b, 'worker drops inspected: %d' % len(list(b.terms('drop'))))


@rule('C05', 'R-C05-6', 'T13 PAIR (zero threads)',
      'num_threads == 0 maps the pipeline over the input with no other adaptor; otherwise one worker per 0..num_threads '
      'is spawned (at least one) and the channel capacity is num_threads')
def r6(ctx):
    w = pipe.worker(ctx)
    n = w.new
    un = agg_sites(n, 'PipeInner::Unthreaded')
    ok = False
    if len(un) == 1:
        st, v = un[0]
        inner = [s_ for s_ in walk(v) if isinstance(s_, tuple) and s_ and s_[0] == 'call' and s_[1].endswith('Iterator::map')]
        if len(inner) == 1 and match(inner[0], Call('Iterator::map', ('arg', 1, ANY), ANY)):
            clo = closure_of(ctx, inner[0][2][1])
            crv = ret_values(clo)
            ok = len(crv) == 1 and match(core(crv[0][0]), Call('::call', ANY, ('agg', 'tuple', '', (('arg', 2, ANY),))))
        okg = holds(n, st.bb, ('bin', 'Eq', ('arg', 3, ANY), Const(0)))
        ctx.require(okg, n, 'unthreaded-guard', 'the unthreaded pipe is built only under num_threads == 0', None, st.span)
    ctx.require(ok, n, 'unthreaded-map', 'unthreaded: iter.map(|x| pipeline(x)) with no other adaptor', None)
    # worker count
    rng = None
    if w.spawn_via is not None:
        # (0..num_threads).for_each(|thread| spawn ..): one spawn per element, unconditionally inside the closure
        name = (w.spawn_via.callee_res() or '')
        src = core(sym(n, w.spawn_via.args[0]))
        for s_ in walk(src):
            if isinstance(s_, tuple) and s_ and s_[0] == 'agg' and s_[2].endswith('Range::Range'):
                rng = s_
        each = name.endswith('::for_each') and all(cfg.dominates(w.spawn_body, w.spawn_term.bb, r) for r in w.spawn_body.returns)
        ctx.require(each, n, 'spawn-each', 'every element of the thread range spawns a worker (for_each)', None, w.spawn.span)
    else:
        lp = cfg.innermost_loop(n, w.spawn.bb)
        if lp is None:
            ctx.fail(n, 'spawn-loop', 'the spawn is not inside a loop over the thread range', w.spawn.span)
            return
        nx = [t for t in n.calls(r'::next$') if t.bb in lp.blocks]
        for t in nx:
            for s_ in walk(loop_source(n, t)):
                if isinstance(s_, tuple) and s_ and s_[0] == 'agg' and s_[2].endswith('Range::Range'):
                    rng = s_
        from analysis.sym import variant_edges
        somearm = [e[1] for t in nx for e in variant_edges(n, sym(n, t.dest), 'Some')]
        if somearm:
            ok = all(cfg.must_pass(n, somearm[0], l, via_blocks=[w.spawn.bb]) for l in lp.latches)
            ctx.require(ok, n, 'spawn-each', 'every iteration of the thread range spawns a worker', None, w.spawn.span)
    ok = rng is not None and match(rng[3][0], Const(0)) and match(core(rng[3][1]), ('arg', 3, ANY))
    ctx.require(ok, n, 'worker-count', 'workers are spawned for 0..num_threads (>= 1 worker on the threaded path)',
                'workers are spawned for %s: with num_threads == 1 no worker exists and every item is lost' % (
                    show_in(n, rng) if rng else '?'), w.spawn.span)
    ch = [t for t in n.calls(r'mpsc::sync_channel$')]
    ok = len(ch) == 1 and match(core(sym(n, ch[0].args[0])), ('arg', 3, ANY))
    ctx.require(ok, n, 'channel-capacity', 'channel = sync_channel(num_threads)', None, ch[0].span if ch else None)


@rule('C05', 'R-C05-7', 'prerequisite (a dead worker ends the process)',
      'the panic hook installed by Pipe::new before any worker starts ends the process unconditionally (R-C09-5 re-evaluated): '
      'workers are detached, so without it a panicking item silently ends the stream early (one worker) or blocks the consumer '
      'forever (several workers)')
def r7(ctx):
    from rules import c09
    c09.r5(ctx)


@rule('C05', 'R-C05-8', 'prerequisite (a pipe that is dropped early lets go)',
      'no Drop of the loader receives from a channel or joins a thread, producers are detached (R-C09-6 re-evaluated): `pipe(f, n).take(k)` '
      'must behave like `map(f).take(k)` -- a Pipe that joins its workers in Drop while its own Receiver is still alive waits for workers '
      'that are blocked sending into the full channel')
def r8(ctx):
    from rules import c09
    c09.r6(ctx)


@rule('C05', 'R-C05-9', 'T3b LOOP-EXIT (the constructor does not wait for its workers)',
      'Pipe::new returns without waiting: every loop of the constructor itself is the spawn loop over the thread range, and the constructor '
      'neither loads the turn counter / a progress counter nor joins, receives or sleeps. A "warm-up" wait until N items were sent never ends '
      'when the input has fewer than N items (the workers exit first), so nothing is ever yielded')
def r9(ctx):
    w = pipe.worker(ctx)
    n = w.new
    for lp in cfg.loops(n):
        has_spawn = (w.spawn.bb in lp.blocks) if w.spawn is not None else False
        ctx.require(has_spawn, n, 'constructor-loop', 'the loop at line %d of Pipe::new is the spawn loop' % n.blocks[lp.header].term.span['line'],
                    'Pipe::new contains a loop (line %d) that does not spawn workers: the constructor waits for something the workers may never do' %
                    n.blocks[lp.header].term.span['line'], n.blocks[lp.header].term.span)
    waits = [t for t in n.calls(r'Atomic\\w*::load$|JoinHandle::join$|Receiver::(recv|try_recv|recv_timeout)$|thread::(sleep|yield_now|park)$|Condvar::wait\\w*$|Barrier::wait$')]
    ctx.require(not waits, n, 'constructor-waits', 'Pipe::new does not observe or wait for worker progress',
                'Pipe::new calls `%s` (line %d): the constructor depends on worker progress' % ((waits[0].callee_res() or '').rsplit('::', 2)[-1] if waits else '', waits[0].span['line'] if waits else 0),
                waits[0].span if waits else None)
