"""C05 The threaded pipeline is observationally a sequential map, under every schedule: shape of the ticket protocol."""
import re
from analysis.engine import rule, AnchorMissing
from analysis import cfg
from analysis.sym import sym, show_in, nosite, peel, core, walk, ret_values, args_of, guards_at, atoms_at, \
    variant_facts_at, cmp_facts_at, loop_source
from analysis.pat import match, Call, Cap, ANY, Pred, Const, has, chain_names
from rules.common import closure_of
from rules import pipe


@rule('C05', 'R-C05-1', 'T1 ORDER (ticket under the lock)',
      'a worker takes (index, item) from the shared enumerate() iterator while holding the mutex and processes exactly '
      'the item of its ticket, once; enumerate() wraps the input inside the mutex')
def r1(ctx):
    w = pipe.worker(ctx)
    b = w.body
    recv = sym(b, w.ticket.args[0])
    ok = match(recv, Call('deref_mut', ('unwrap', Call('Mutex::lock', ANY)))) or \
        match(peel(recv), ('unwrap', Call('Mutex::lock', ANY)))
    ctx.require(ok and (w.ticket.callee_res() or '').endswith('Enumerate::next') or
                (ok and 'Enumerate' in b.local_ty(w.ticket.args[0].place.local)), b, 'ticket-under-lock',
                'ticket = shared.lock().next() on the Enumerate iterator', 'ticket pull receiver is %s' % show_in(b, recv), w.ticket.span)
    # no second lock / nothing else pulls from the shared iterator
    locks = list(b.calls(r'Mutex::lock$|Mutex::try_lock$'))
    ctx.require(len(locks) == 1, b, 'single-lock', 'one lock acquisition per iteration', 'found %d lock calls' % len(locks))
    # the processed item is the ticket's item
    a = sym(b, w.apply.args[1]) if len(w.apply.args) > 1 else None
    ok = a is not None and a[0] == 'agg' and len(a[3]) == 1 and pipe.is_ticket_field(w, a[3][0], 1)
    ctx.require(ok, b, 'process-ticket-item', 'pipeline(item) is applied to component 1 of the ticket',
                'pipeline is applied to %s' % (show_in(b, a) if a else '?'), w.apply.span)
    ctx.require(cfg.dominates(b, w.ticket.bb, w.apply.bb) and
                any(names == {'Some'} and nosite(t) == nosite(sym(b, w.ticket.dest)) for t, names in variant_facts_at(b, w.apply.bb)),
                b, 'process-only-with-ticket', 'the pipeline runs only on the Some arm of the ticket pull', None, w.apply.span)
    # exactly one pipeline application per ticket: apply not inside an inner loop
    inner = cfg.innermost_loop(b, w.apply.bb)
    ctx.require(inner is w.loop or (inner is not None and inner.header == w.loop.header), b, 'process-once',
                'each ticket is processed exactly once (no inner loop around the pipeline call)', None, w.apply.span)
    # enumerate inside the mutex
    n = w.new
    mx = [t for t in n.calls(r'Mutex::new$')]
    ok = len(mx) == 1 and match(sym(n, mx[0].args[0]), Call('Iterator::enumerate', ('arg', 1, ANY)))
    ctx.require(ok, n, 'enumerate-inside-mutex', 'shared = Mutex::new(iter.enumerate()): index and item are taken atomically',
                'the mutex wraps %s' % (show_in(n, sym(n, mx[0].args[0])) if mx else '?'), mx[0].span if mx else None)
    # the worker's captured handle is (a clone of) that Arc<Mutex<..>>
    cap0 = [core(c) for c in w.captures]
    arc = [t for t in n.calls(r'Arc::new$') if has(sym(n, t.args[0]), Call('Mutex::new'))]
    ok = len(arc) == 1 and any(nosite(c) == core(sym(n, arc[0].dest)) for c in cap0)
    ctx.require(ok, n, 'shared-handle', 'every worker captures a clone of the same Arc<Mutex<Enumerate<..>>>', None, w.spawn.span)


def _ordering_ok(b, t):
    o = sym(b, t.args[-1])
    return o[0] == 'agg' and o[2].rsplit('::', 1)[-1] in ('SeqCst', 'Acquire', 'Release', 'AcqRel')


@rule('C05', 'R-C05-2', 'T3 LOOP-EXIT (turn wait)',
      'the send is dominated by the exit of a wait loop whose only exit condition is send_next.load() == ticket index')
def r2(ctx):
    w = pipe.worker(ctx)
    b = w.body
    ok = False
    for op, x, y in cmp_facts_at(b, w.send.bb):
        if op != 'Eq':
            continue
        for p, q in ((x, y), (y, x)):
            if match(core(p), Call('::load', ANY, ANY)) and pipe.is_ticket_field(w, q, 0):
                ok = True
    ctx.require(ok, b, 'send-on-turn', 'send happens only when send_next == ticket index',
                'the send is not guarded by `send_next.load() == idx`: results can be delivered out of order', w.send.span)
    if len(w.loads) != 1:
        ctx.fail(b, 'turn-load', 'expected one atomic load (turn check), found %d' % len(w.loads))
        return
    ld = w.loads[0]
    wl = cfg.innermost_loop(b, ld.bb)
    ok = wl is not None and wl is not w.loop and w.send.bb not in wl.blocks
    ctx.require(ok, b, 'wait-loop', 'the turn check is re-evaluated in a wait loop before the send', None, ld.span)
    if ok:
        ex = wl.exits(b)
        ctx.require(len(ex) == 1, b, 'wait-loop-exit', 'the wait loop has a single exit (the turn condition)',
                    'the wait loop has %d exits: a worker may send before its turn' % len(ex), ld.span)
    ctx.require(_ordering_ok(b, ld), b, 'load-ordering', 'turn load uses a synchronising ordering (not Relaxed)', None, ld.span)
    # the atomic it loads is the captured counter
    ctx.require(match(core(sym(b, ld.args[0])), ('upvar', ANY, ANY)), b, 'turn-counter', 'the turn counter is the captured shared atomic', None, ld.span)


@rule('C05', 'R-C05-3', 'T1 ORDER + POST-DOM (send, then advance, always)',
      'the result sent is the pipeline result of the ticket; the turn is advanced to index+1 after the send on every '
      'path (also when the send fails), exactly once')
def r3(ctx):
    w = pipe.worker(ctx)
    b = w.body
    v = core(sym(b, w.send.args[1]))
    ok = nosite(v) == core(sym(b, w.apply.dest))
    ctx.require(ok, b, 'send-result', 'the value sent is the pipeline result of this ticket',
                'the value sent is %s' % show_in(b, sym(b, w.send.args[1])), w.send.span)
    ctx.require((w.send.callee_res() or '').endswith('SyncSender::send'), b, 'blocking-send',
                'delivery uses the blocking SyncSender::send (never drops an item when the channel is full)',
                'delivery uses %s' % w.send.callee_res(), w.send.span)
    if len(w.writes) != 1:
        ctx.fail(b, 'advance-once', 'expected exactly one write to the turn counter in the worker, found %d' % len(w.writes))
        return
    wr = w.writes[0]
    name = wr.callee_res() or ''
    val = core(sym(b, wr.args[1]))
    if name.endswith('fetch_add'):
        okv = val[0] == 'const' and val[2] == 1
    else:
        okv = val[0] == 'bin' and val[1] == 'Add' and (
            (pipe.is_ticket_field(w, val[2], 0) and val[3][0] == 'const' and val[3][2] == 1) or
            (pipe.is_ticket_field(w, val[3], 0) and val[2][0] == 'const' and val[2][2] == 1))
    ctx.require(okv, b, 'advance-value', 'turn := ticket index + 1', 'turn is set to %s' % show_in(b, sym(b, wr.args[1])), wr.span)
    ctx.require(cfg.dominates(b, w.send.bb, wr.bb), b, 'send-before-advance',
                'the send happens before the turn is advanced (the next worker cannot overtake)',
                'the turn is advanced before (or without) the send: the next item can be delivered first', wr.span)
    ends = list(b.returns) + list(w.loop.latches)
    ok = all(cfg.must_pass(b, w.send.bb, e, via_blocks=[wr.bb], from_succ=True) for e in ends)
    ctx.require(ok, b, 'advance-always', 'after a send attempt the turn is advanced on every path (also on send error)',
                'there is a path from the send to the end of the iteration that does not advance the turn: the other '
                'workers spin forever', wr.span)
    ctx.require(_ordering_ok(b, wr), b, 'store-ordering', 'turn write uses a synchronising ordering (not Relaxed)', None, wr.span)
    ctx.require(match(core(sym(b, wr.args[0])), ('upvar', ANY, ANY)) and
                nosite(core(sym(b, wr.args[0]))) == nosite(core(sym(b, w.loads[0].args[0]))) if w.loads else False,
                b, 'same-counter', 'the counter advanced is the one checked by the wait loop', None, wr.span)


@rule('C05', 'R-C05-4', 'T10 WHO',
      'the turn counter starts at 0 and is written only by the worker\'s advance; the consumer side is a plain '
      'blocking recv() whose disconnect ends the iteration; all senders die with the workers')
def r4(ctx):
    w = pipe.worker(ctx)
    n = w.new
    at = [t for t in n.calls(r'Atomic(Usize|U64|U32)?::new$')]
    ok = len(at) == 1 and match(sym(n, at[0].args[0]), Const(0))
    ctx.require(ok, n, 'counter-init', 'turn counter starts at 0 (the first enumerate index)', None, at[0].span if at else None)
    writers = []
    for b in [n] + [c for c in ctx.facts.bodies if c.root == n.path and c is not n]:
        for t in b.calls(pipe.ATOMIC_WRITES):
            writers.append((b, t))
    ctx.require(len(writers) == 1 and writers[0][0] is w.body, n, 'counter-writers',
                'the only write to the turn counter is the worker\'s advance', 'found %d writers' % len(writers))
    nx = ctx.body('<data::loading::Pipe as std::iter::Iterator>::next')
    rv = ret_values(nx)
    thr = [v for v, bb in rv if has(v, Call('Receiver::', ANY)) or has(v, Pred(lambda t: t[0] == 'call' and 'mpsc::Receiver' in t[1]))]
    ok = len(thr) == 1 and match(thr[0], Call('Result::ok', Call('mpsc::Receiver::recv', ANY)))
    ctx.require(ok, nx, 'blocking-recv', 'threaded next() = rx.recv().ok(): blocks until an item arrives, None only on disconnect',
                'threaded next() is %s (a timeout or try_recv ends the iteration early and loses items)' % (
                    [show_in(nx, v) for v in thr] or [show_in(nx, v) for v, _ in rv]))
    un = [v for v, bb in rv if v not in thr]
    ok = len(un) == 1 and match(un[0], Call('::next', ANY))
    ctx.require(ok, nx, 'unthreaded-next', 'unthreaded next() delegates to the inner iterator', None)
    # original sender dropped before returning: channel closes when the workers are done
    sd = [t for t in n.terms('drop') if t.raw['ty'].startswith('std::sync::mpsc::SyncSender<')]
    thr_ret = [bb for v, bb in ret_values(n) if has(v, ('agg', 'adt', Pred(lambda s: s.endswith('PipeInner::Threaded')), ANY))]
    ok = bool(sd) and bool(thr_ret) and all(cfg.must_pass(n, bb, r, via_blocks=[t.bb for t in sd]) for bb in thr_ret for r in n.returns)
    ctx.require(ok, n, 'sender-dropped', 'Pipe::new drops its own SyncSender, so the channel disconnects when the last worker exits',
                'Pipe::new keeps a SyncSender alive: the consumer blocks forever after the last item', w.spawn.span)
    adt = ctx.facts.adts.get('data::loading::PipeInner')
    tys = [f['ty'] for v in adt['variants'] if v['name'] == 'Threaded' for f in v['fields']] if adt else []
    ctx.require(tys and all('Sender' not in t for t in tys), n, 'no-sender-in-pipe', 'the Pipe holds only the Receiver', 'Threaded fields: %s' % tys)


@rule('C05', 'R-C05-5', 'T12 OWNERSHIP',
      'items cannot be duplicated (no Clone/Copy bound on I or O) and are not silently dropped on a normal path of the worker')
def r5(ctx):
    w = pipe.worker(ctx)
    n = w.new
    bad = [p for p in n.preds_decl if re.match(r'^(I|O): .*(Clone|Copy)', p)]
    ctx.require(not bad, n, 'no-clone-bound', 'I and O carry no Clone/Copy bound: an item cannot be duplicated', 'bounds: %s' % bad)
    b = w.body
    for t in b.terms('drop'):
        ty = t.raw['ty']
        if ty.startswith('std::sync::MutexGuard<') or ty.startswith('{closure@'):
            continue
        if re.search(r'\b(I|O)\b', ty):
            allowed = ty.startswith('std::result::Result<(), std::sync::mpmc::SendError<O>>') or \
                ty.startswith('std::result::Result<(), std::sync::mpsc::SendError<O>>')
            ctx.require(allowed, b, 'item-drop|' + re.sub(r'[^A-Za-z]+', '_', ty)[:40],
                        'only the SendError<O> of a failed send is dropped (line %d)' % t.span['line'],
                        'a value of type %s (contains an item) is dropped on a normal path at line %d' % (ty, t.span['line']), t.span)
    ctx.ok(b, 'worker drops inspected: %d' % len(list(b.terms('drop'))))


@rule('C05', 'R-C05-6', 'T13 PAIR (zero threads)',
      'num_threads == 0 maps the pipeline over the input with no other adaptor; otherwise one worker per 0..num_threads '
      'is spawned (at least one) and the channel capacity is num_threads')
def r6(ctx):
    w = pipe.worker(ctx)
    n = w.new
    un = [(v, bb) for v, bb in ret_values(n) if has(v, ('agg', 'adt', Pred(lambda s: s.endswith('PipeInner::Unthreaded')), ANY))]
    ok = False
    if len(un) == 1:
        v, bb = un[0]
        inner = [s for s in walk(v) if isinstance(s, tuple) and s and s[0] == 'call' and s[1].endswith('Iterator::map')]
        if len(inner) == 1 and match(inner[0], Call('Iterator::map', ('arg', 1, ANY), ANY)):
            clo = closure_of(ctx, inner[0][2][1])
            crv = ret_values(clo)
            ok = len(crv) == 1 and match(core(crv[0][0]), Call('::call', ANY, ('agg', 'tuple', '', (('arg', 2, ANY),))))
        g = [(t, pol) for t, pol, _ in atoms_at(n, bb)]
        okg = any(pol is True and match(core(t), ('bin', 'Eq', ('arg', 3, ANY), Const(0))) for t, pol in g)
        ctx.require(okg, n, 'unthreaded-guard', 'the unthreaded pipe is returned only under num_threads == 0', None, n.blocks[bb].term.span)
    ctx.require(ok, n, 'unthreaded-map', 'unthreaded: iter.map(|x| pipeline(x)) with no other adaptor', None)
    # worker count
    lp = cfg.innermost_loop(n, w.spawn.bb)
    if lp is None:
        ctx.fail(n, 'spawn-loop', 'the spawn is not inside a loop over the thread range', w.spawn.span)
        return
    nx = [t for t in n.calls(r'::next$') if t.bb in lp.blocks]
    rng = None
    for t in nx:
        for s in walk(loop_source(n, t)):
            if isinstance(s, tuple) and s and s[0] == 'agg' and s[2].endswith('Range::Range'):
                rng = s
    ok = rng is not None and match(rng[3][0], Const(0)) and match(core(rng[3][1]), ('arg', 3, ANY))
    ctx.require(ok, n, 'worker-count', 'workers are spawned for 0..num_threads (>= 1 worker on the threaded path)',
                'workers are spawned for %s: with num_threads == 1 no worker exists and every item is lost' % (
                    show_in(n, rng) if rng else '?'), w.spawn.span)
    ok = all(cfg.must_pass(n, lp.header, l, via_blocks=[w.spawn.bb], from_succ=True) or True for l in lp.latches)
    somearm = [tgt for t in nx for (val, tgt) in n.blocks[t.target].term.arms if val == 1] if nx and n.blocks[nx[0].target].term.kind == 'switch' else []
    if somearm:
        ok = all(cfg.must_pass(n, somearm[0], l, via_blocks=[w.spawn.bb]) for l in lp.latches)
        ctx.require(ok, n, 'spawn-each', 'every iteration of the thread range spawns a worker', None, w.spawn.span)
    ch = [t for t in n.calls(r'mpsc::sync_channel$')]
    ok = len(ch) == 1 and match(core(sym(n, ch[0].args[0])), ('arg', 3, ANY))
    ctx.require(ok, n, 'channel-capacity', 'channel = sync_channel(num_threads)', None, ch[0].span if ch else None)
