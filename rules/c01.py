"""C01 Byte and character tokenizers encode every character faithfully and losslessly."""
import re
from analysis.engine import rule, AnchorMissing
from analysis import cfg
from analysis.facts import norm_path
from analysis.sym import sym, show_in, nosite, peel, core, walk, ret_values, args_of, guards_at, atoms_at, \
    variant_facts_at, cmp_facts_at, init_value, edge_guards, symbolizer, simplify, loop_source, defs_of, var_defs, agg_field
from analysis.pat import match, Call, Cap, ANY, Pred, Const, has, chain_names, chain
from analysis.seq import seq_of, seq_of_var, ITEM
from analysis.alts import value_alts
from rules.common import closure_of, closures_in, body_for, BYTE, CHAR, narrowing_casts, state_locals, local_defs, V

T = 'tokenization::'
TOK = '<tokenization::BaseTokenizer as tokenization::Tokenize>::'


R = {}


def _var(name):
    """role based (never the debug name): R maps a role to the local chosen by type / structure"""
    return Pred(lambda t: isinstance(t, tuple) and t and t[0] == 'var' and len(t) > 2 and R.get(name) == t[2])


def _one(b, ty, what):
    c = state_locals(b, ty)
    if len(c) != 1:
        raise AnchorMissing('%s (mutable local of type %s): found %d' % (what, ty, len(c)))
    return c[0]


@rule('C01', 'R-C01-1', 'T2 CHAIN (framing)',
      'add_prefix_and_suffix returns prefix ids, then exactly the given ids, then suffix ids (unconditionally); every tokenizer '
      'passes its body ids through it')
def r1(ctx):
    b = ctx.body(T + 'BaseTokenizer::add_prefix_and_suffix')
    rv = ret_values(b)
    ok = len(rv) == 1
    segs = seq_of(ctx.facts, b, rv[0][0]) if ok else None
    want = (Call('prefix_token_ids', ('arg', 1, ANY)), ('arg', 2, ANY), Call('suffix_token_ids', ('arg', 1, ANY)))
    ok = ok and segs is not None and len(segs) == 3 and all(s.kind == 'each' and not s.conds and core(s.elem) == ITEM and match(core(s.src), w)
                                                            for s, w in zip(segs, want))
    ctx.require(ok, b, 'framing', 'ids = prefix ++ token_ids ++ suffix on every path',
                'add_prefix_and_suffix builds %s (prefix and suffix must be added unconditionally, in this order, around the unchanged ids)' % (
                    [repr(s)[:120] for s in segs] if segs is not None else [show_in(b, v)[:200] for v, _ in rv]))
    for nm, fld in (('prefix_token_ids', 'prefix_token_ids'), ('suffix_token_ids', 'suffix_token_ids')):
        acc = [x for x in ctx.facts.bodies if x.path.endswith('::' + nm) and x.impl_trait and x.impl_trait.endswith('BaseTokenize') and x.impl_self and 'BaseTokenizer<' in x.impl_self]
        if len(acc) != 1:
            raise AnchorMissing('BaseTokenizer::%s' % nm)
        rva = ret_values(acc[0])
        ctx.require(len(rva) == 1 and match(core(rva[0][0]), ('field', ('arg', 1, ANY), fld)), acc[0], 'accessor|' + nm, '%s() returns self.%s' % (nm, fld), None)
    for what, selfpat in (('byte', BYTE), ('char', None)):
        cands = [x for x in ctx.facts.bodies if x.path.endswith('::tokenize') and x.impl_trait and x.impl_trait.endswith('Tokenize') and
                 ((selfpat and x.impl_self and selfpat in x.impl_self) or (selfpat is None and any('VocabTokenize' in p for p in x.preds_decl)))]
        if len(cands) != 1:
            raise AnchorMissing('%s tokenizer tokenize()' % what)
        t = cands[0]
        ctx.stats['bodies_inspected'].add(t.path)
        oks = [v for v, blk in ret_values(t) if v[0] == 'agg' and v[2].endswith('Result::Ok')]
        ok = len(oks) == 1 and match(core(oks[0][3][0]), Call('Tokenization::new', Call('add_prefix_and_suffix', ('arg', 1, ANY), ANY), ANY))
        ctx.require(ok, t, 'framed|' + what, '%s tokenize() returns Tokenization::new(add_prefix_and_suffix(body ids), info)' % what,
                    '%s tokenize() returns %s' % (what, [show_in(t, v)[:160] for v in oks]))


@rule('C01', 'R-C01-2', 'T8 OFFSET (byte id space)',
      'byte <-> id is the identity below the 256 boundary: ids pushed for text are the bytes themselves (no arithmetic, no '
      'filter), de_tokenize turns ids < 256 (strict) back into that byte, everything else is a special id')
def r2(ctx):
    p = body_for(ctx, T + 'BaseTokenizer::process_input', BYTE)
    R.clear()
    R['tokens'] = _one(p, r'^std::vec::Vec<u32>$', 'id vector')
    ts = seq_of_var(ctx.facts, p, R['tokens'])
    leaves = [l for s_ in (ts or ()) for l in s_.flat()]
    reg = [l for l in leaves if any(pp and c[0] == 'is' and c[1] == ITEM and c[2] == ('Regular',) for c, pp in l.conds)]
    ok = len(reg) == 1 and reg[0].kind == 'each' and core(reg[0].src) == ('field', ('variant', ITEM, 'Regular'), 0) and core(reg[0].elem) == ('item', 1) and \
        len(reg[0].conds) == 1
    ctx.require(ok, p, 'byte-to-id', 'text bytes become ids by value (every byte of the piece, nothing dropped, no arithmetic)',
                'regular text is turned into ids by %s' % [repr(l)[:160] for l in reg])
    spc = [l for l in leaves if any(pp and c[0] == 'is' and c[1] == ITEM and c[2] == ('Special',) for c, pp in l.conds)]
    ok = len(spc) == 1 and spc[0].kind == 'one' and has(spc[0].elem, Call('Vocab::token_to_id', ('field', ('arg', 1, ANY), 'special_vocab'),
                                                                          Pred(lambda u: core(u) == ('field', ('variant', ITEM, 'Special'), 0))))
    ctx.require(ok, p, 'special-to-id', 'a parsed special token becomes the id the SPECIAL vocabulary gives it (one id)',
                'a parsed special token is turned into %s: the public token_to_id resolves one-byte strings to byte ids first' % [repr(l)[:140] for l in spc])
    d = body_for(ctx, TOK + 'de_tokenize', BYTE)
    R['bytes'] = _one(d, r'^std::vec::Vec<u8>$', 'byte buffer')
    bs = seq_of_var(ctx.facts, d, R['bytes'])
    top = bs[0] if bs is not None and len(bs) == 1 and bs[0].kind == 'nest' else None
    ctx.require(top is not None and match(core(top.src), ('arg', 2, ANY)) and not top.conds, d, 'id-order', 'ids are visited once each, in the given order',
                'the byte buffer is built as %s' % [repr(x)[:160] for x in bs or ()])
    u8try = [nosite(sym(d, t.dest)) for t in d.calls(r'try_from$') if d.local_ty(t.dest.local).startswith('std::result::Result<u8,')]

    def fits(c, pol):
        """does the condition say that the id fits in a byte (+1), does not fit (-1), or something else (None)"""
        cc = core(c) if c[0] != 'is' else c
        for op, k, sign in (('Lt', 256, 1), ('Le', 255, 1), ('Ge', 256, -1), ('Gt', 255, -1)):
            if match(cc, ('bin', op, ITEM, Const(k))):
                return sign if pol else -sign
        if c[0] == 'is' and u8try and c[1][0] == 'call' and c[1][1].endswith('try_from') and core(c[1][2][0]) == ITEM and pol:
            return {('Ok',): 1, ('Err',): -1}.get(c[2])
        return None
    istry = lambda c, pol: pol and c[0] == 'is' and c[2] == ('Continue',)

    def via_special(src):
        """the bytes appended for an id that is not a byte come from special_vocab.id_to_token(id) -- directly, or as the success value of a
        spliced helper (every non-error alternative of it)"""
        SP = Call('Vocab::id_to_token', ('field', ('arg', 1, ANY), 'special_vocab'), ITEM)
        if has(core(src), SP):
            return True
        # (alternatives of a local are expressed over the loop's own pull instead of the $item placeholder)
        PULL = Pred(lambda u: core(u) == ITEM or (core(u)[0] == 'call' and core(u)[1].endswith('::next')) or (peel(u)[0] == 'unwrap' and peel(u)[1][0] == 'call' and peel(u)[1][1].endswith('::next')))
        SP = Call('Vocab::id_to_token', ('field', ('arg', 1, ANY), 'special_vocab'), PULL)
        from analysis.alts import expand as _ex, flatten as _fl
        inner = core(src)
        alts_ = [a_.value for a_ in _fl(_ex(ctx.facts, d, nosite(inner)))] if inner[0] in ('var', 'phi') else []
        good_ = [v_ for v_ in alts_ if not (peel(v_)[0] == 'agg' and peel(v_)[1] == 'adt' and (peel(v_)[2].endswith('Result::Err') or peel(v_)[2].endswith('Option::None'))) and
                 not (peel(v_)[0] == 'call' and peel(v_)[1].rsplit('::', 1)[-1] == 'from_residual')]
        return bool(good_) and all(has(v_, SP) for v_ in good_)
    kinds = {}
    for l in (top.inner if top is not None else ()):
        f_ = [fits(c, pol) for c, pol in l.conds]
        rest = [(c, pol) for c, pol in l.conds if fits(c, pol) is None and not istry(c, pol)]
        if l.kind == 'one' and 1 in f_ and -1 not in f_ and not rest and core(l.elem) == ITEM:
            kinds.setdefault('byte', []).append(l)
        elif l.kind == 'each' and -1 in f_ and 1 not in f_ and core(l.elem) == ('item', 1) and \
                via_special(l.src) and \
                len(rest) == 1 and rest[0][1] is False and match(core(rest[0][0]), ('arg', 3, ANY)):
            kinds.setdefault('special', []).append(l)
        else:
            kinds.setdefault('other', []).append(l)
    ctx.require(len(kinds.get('byte', [])) == 1 and not kinds.get('other'), d, 'id-to-byte', 'de_tokenize pushes the id itself as a byte exactly when id < 256 (strict)',
                'byte pushes: %s; other writers: %s' % ([repr(l)[:120] for l in kinds.get('byte', [])], [repr(l)[:120] for l in kinds.get('other', [])]))
    ctx.require(len(kinds.get('special', [])) == 1, d, 'special-decode', 'ids >= 256 are decoded through the special vocabulary unless special tokens are ignored', None)
    fu = list(d.calls(r'String::from_utf8$'))
    ctx.require(len(fu) == 1 and not list(d.calls(r'from_utf8_lossy$')), d, 'utf8', 'the bytes are converted with String::from_utf8 (error, not lossy)', None)
    it = body_for(ctx, TOK + 'id_to_token', BYTE)
    from rules.common import byte_boundary_tests
    ok = bool(byte_boundary_tests(it, ('arg', 2, ANY)))
    ctx.require(ok, it, 'id-to-token-boundary', 'id_to_token uses the same strict 256 boundary', None)


@rule('C01', 'R-C01-3', 'T2/T1 (special-token split tiles the text)',
      'split_input pushes the regular text between matches, every match, and the tail: slices [last, m.start) (if non-empty), '
      '[m.start, m.end), [last, ..) (if non-empty) with last := m.end; with parsing off the whole text is one regular piece')
def r3(ctx):
    b = ctx.body(T + 'BaseTokenizer::split_input')
    R.clear()
    R['splits'] = _one(b, r'^std::vec::Vec<tokenization::TokenInput<', 'piece vector')
    R['last'] = _one(b, r'^usize$', 'end of the previous match')
    pushes = [t for t in b.calls(r'Vec::push$') if match(core(sym(b, t.args[0])), _var('splits'))]
    kinds = {}
    nx = [t for t in b.calls(r'::next$')]
    if len(nx) != 1:
        raise AnchorMissing('match iteration of split_input')
    m = ('unwrap', nosite(sym(b, nx[0].dest)))
    ism = Pred(lambda u: nosite(core(u)) == nosite(core(m)))
    mstart, mend = Call('Match::start', ism), Call('Match::end', ism)
    last = _var('last')
    loop = cfg.innermost_loop(b, nx[0].bb)
    from rules.common import str_slice, lt_facts_at
    same = lambda x, p: x is not None and match(core(x), p)
    for t in pushes:
        v = core(sym(b, t.args[1]))
        if not (v[0] == 'agg' and v[1] == 'adt'):
            continue
        variant = v[2].rsplit('::', 1)[-1]
        raw = peel(nosite(sym(b, t.args[1])))
        sl = str_slice(raw[3][0] if raw[0] == 'agg' else v[3][0])
        base, lo, hi = sl if sl is not None else (None, None, None)
        lts = lt_facts_at(b, t.bb)
        if variant == 'Regular' and sl is not None and same(lo, last) and same(hi, mstart):
            ok = any(strict and match(x, last) and match(y, mstart) for x, y, strict in lts) and t.bb in loop.blocks
            kinds['between'] = (t, ok)
        elif variant == 'Special' and sl is not None and same(lo, mstart) and same(hi, mend):
            kinds['match'] = (t, t.bb in loop.blocks and all(cfg.must_pass(b, nx[0].target, l, via_blocks=[t.bb]) for l in loop.latches))
        elif variant == 'Regular' and sl is not None and same(lo, last) and hi is None:
            ok = any(strict and match(x, last) and match(y, Call('str::len', ('arg', 2, ANY))) for x, y, strict in lts) and t.bb not in loop.blocks
            kinds['tail'] = (t, ok)
        else:
            kinds['other:' + show_in(b, v)[:60]] = (t, False)
        if base is not None:
            # `m.as_str()` is the matched part of the haystack the (single) find_iter below was given
            ctx.require(match(base, ('arg', 2, ANY)) or (base[0] == 'haystack' and match(base[1], ism)), b, 'slice-of-input', 'pieces are slices of the input text', None, t.span)
    for k in ('between', 'match', 'tail'):
        ctx.require(k in kinds and kinds[k][1], b, 'piece|' + k, {'between': 'text between matches [last, m.start) is pushed when non-empty',
                                                                  'match': 'every match [m.start, m.end) is pushed as Special', 'tail': 'the tail [last, ..) is pushed when non-empty'}[k],
                    'split_input piece `%s` is missing or unguarded (pieces found: %s)' % (k, sorted(kinds)))
    ctx.require(set(kinds) <= {'between', 'match', 'tail'}, b, 'no-other-piece', 'no other piece is pushed', 'pieces: %s' % sorted(kinds))
    ld = local_defs(b, R['last'])
    vals = [core(v) for site, v in ld]
    ok = len(vals) == 2 and any(v[0] == 'const' and v[2] == 0 for v in vals) and any(match(v, mend) for v in vals)
    if ok:
        upd = [site for site, v in ld if match(core(v), mend)][0]
        ok = upd.bb in loop.blocks and all(cfg.must_pass(b, nx[0].target, l, via_blocks=[upd.bb]) for l in loop.latches) and \
            ('match' in kinds and cfg.dominates(b, kinds['match'][0].bb, upd.bb))
    ctx.require(ok, b, 'last', 'last starts at 0 and becomes m.end() after every match', 'last takes %s' % [show_in(b, v) for v in vals])
    fi = [t for t in b.calls(r'Regex::find_iter$')]
    ctx.require(len(fi) == 1 and match(core(sym(b, fi[0].args[1])), ('arg', 2, ANY)) and has(core(sym(b, fi[0].args[0])), ('field', ('arg', 1, ANY), 'special_token_pattern')), b,
                'pattern', 'matches come from self.special_token_pattern over the input', None)
    # parsing off: single Regular(s)
    early = [g for g in edge_guards(b) if g.atom()[1] is True and match(core(g.atom()[0]), ('arg', 3, ANY))]
    ctx.require(bool(early), b, 'ignore-flag', 'ignore_special_tokens short-circuits the split', None)
    arrs = []
    z = symbolizer(b)
    for s in b.stmts():
        if s.kind == 'assign' and s.rv.kind == 'agg' and s.rv.agg == 'array' and s.span['mac'] == 'vec':
            arrs.append(simplify(z.rvalue(s.rv, 0, ())))
    ok = len(arrs) == 1 and len(arrs[0][3]) == 1 and match(core(arrs[0][3][0]), ('agg', 'adt', Pred(lambda n: n.endswith('TokenInput::Regular')), (('arg', 2, ANY),)))
    ctx.require(ok, b, 'unsplit', 'without parsing the result is vec![Regular(s)]', None)


@rule('C01', 'R-C01-4', 'T2 CHAIN (character tokenizer)',
      'the character tokenizer maps every Character of CS::new(text, use_graphemes) to exactly one token (no filter, no '
      'shortcut that bypasses the segmentation): a single code point as itself, a multi code point cluster as the unknown '
      'token; unknown vocabulary entries fall back to unk_token_id()')
def r4(ctx):
    cands = [x for x in ctx.facts.bodies if x.path.endswith('::process_token_input') and x.kind != 'Closure' and x.impl_self and CHAR in x.impl_self]
    if len(cands) != 1:
        raise AnchorMissing('CharTokenizer::process_token_input (found %d)' % len(cands))
    b = cands[0]
    ctx.stats['bodies_inspected'].add(b.path)
    R.clear()
    R['tokens'] = _one(b, r'^std::vec::Vec<tokenization::VocabToken<', 'token vector')
    segs = seq_of_var(ctx.facts, b, R['tokens'])
    top = segs[0] if segs is not None and len(segs) == 1 else None
    ok = top is not None and top.kind == 'nest' and match(core(top.src), ('arg', 2, ANY)) and not top.conds
    ctx.require(ok, b, 'per-input', 'tokens are appended once per input piece, in order', 'token construction: %s' % [repr(x)[:200] for x in segs or ()])
    seen = {}
    isitem = lambda v: Pred(lambda u: core(u) == ('field', ('variant', ITEM, v), 0))
    for s_ in (top.inner if ok else ()):
        arm = [c[2] for c, p in s_.conds if p and c[0] == 'is' and c[1] == ITEM and len(c[2]) == 1]
        other = [c for c, p in s_.conds if not (p and c[0] == 'is' and c[1] == ITEM)]
        kind = None
        if s_.kind == 'one' and arm == [('Special',)] and not other:
            kind = 'special' if match(core(s_.elem), ('agg', 'adt', Pred(lambda n: n.endswith('VocabToken::Special')), (isitem('Special'),))) else None
        elif s_.kind == 'each' and arm == [('Regular',)] and not other and match(core(s_.src), Call(
                'CharString::chars', Call('CharString::new', isitem('Regular'), ('field', ('field', ('arg', 1, ANY), 'config'), 'use_graphemes')))):
            kind = 'regular'
            toks = {}
            al_ = value_alts(ctx.facts, b, s_.elem, expanded=True)
            # the code point iterator of the Character: the receiver of the next() whose payload becomes the token
            recv = None
            for a in al_:
                cv = core(a.value)
                if cv[0] == 'agg' and cv[2].endswith('VocabToken::Token') and cv[3] and core(cv[3][0])[0] == 'call' and core(cv[3][0])[1].endswith('::next'):
                    recv = nosite(core(core(cv[3][0])[2][0]))
            nxt = lambda u: match(u, Call('::next', ANY)) and (recv is None or nosite(core(u[2][0])) == recv)
            for a in al_:
                cv = core(a.value)
                more = {'Some': True, 'None': False}.get(a.state_of(nxt))
                if cv[0] == 'agg' and cv[2].endswith('VocabToken::Special'):
                    toks['unk'] = (more, has(cv, ('field', ('field', ANY, 'state'), 0)))
                elif cv[0] == 'agg' and cv[2].endswith('VocabToken::Token'):
                    toks['char'] = (more, has(cv, Call('::next', ANY)))
                else:
                    toks['other'] = (None, False)
            ctx.require(toks == {'unk': (True, True), 'char': (False, True)}, b, 'char-token',
                        'one token per Character: its single code point, or unk when a second code point exists', 'per-Character tokens: %s' % toks,
                        s_.term.span if s_.term else None)
        if kind is None:
            ctx.fail(b, 'unpaired-token-writer|' + s_.kind, 'tokens are also built by `%s` (line %d), which bypasses the per-Character mapping (e.g. an ASCII '
                     'fast path iterating code points gives two tokens for the grapheme "\\r\\n")' % (repr(s_)[:120], s_.term.span['line'] if s_.term else 0),
                     s_.term.span if s_.term else None)
            continue
        seen.setdefault(kind, []).append(s_)
    for k in ('regular', 'special'):
        ctx.require(len(seen.get(k, [])) == 1, b, 'token-writer|' + k, 'exactly one `%s` token writer' % k, 'found %d' % len(seen.get(k, [])))
    # lookup fallback
    tk = [x for x in ctx.facts.bodies if x.path.endswith('::tokenize') and x.impl_trait and x.impl_trait.endswith('Tokenize') and any('VocabTokenize' in p for p in x.preds_decl)]
    if len(tk) != 1:
        raise AnchorMissing('VocabTokenizer::tokenize')
    t = tk[0]
    framed = [c for c in t.calls(r'add_prefix_and_suffix$')]
    ok = len(framed) == 1
    if ok:
        segs = seq_of(ctx.facts, t, sym(t, framed[0].args[1]))
        ok = segs is not None and len(segs) == 1 and segs[0].kind == 'each' and not segs[0].conds
        if ok:
            al = value_alts(ctx.facts, t, segs[0].elem, expanded=True)
            unk = [a for a in al if match(core(a.value), Call('unk_token_id', ANY))]
            rest = [a for a in al if a not in unk]
            ok = bool(unk) and all(any(n == {'None'} for tt, n in a.variants) for a in unk) and bool(rest) and \
                all(match(core(a.value), Call('token_to_id', ANY, ANY)) for a in rest)
    ctx.require(ok, t, 'unk-fallback', 'a token missing from the vocabulary maps to unk_token_id()', None)
    sp = [c for c in t.calls(r'split_input$')]
    pt = [c for c in t.calls(r'process_token_input$')]
    ctx.require(len(sp) == 1 and len(pt) == 1 and nosite(core(sym(t, pt[0].args[1]))) == nosite(core(sym(t, sp[0].dest))), t, 'pipeline',
                'tokenize = process_token_input(split_input(s, ignore_special_tokens))', None)


@rule('C01', 'R-C01-5', 'prerequisite (vocabulary ids are injective)',
      'Vocab::build assigns start_id + position over the DE-DUPLICATED tokens and derives the reverse map from it (R-C04-3 '
      're-evaluated): two characters sharing an id decode to the same character')
def r5(ctx):
    from rules import c04
    c04.r3(ctx)
    # special-token ids start right behind the regular ids (byte tokenizer: 256): an offset of 255 makes the first special token
    # share its id with the byte 0xFF, which de_tokenize pushes as a raw byte (R-C04-2 re-evaluated)
    c04.r2(ctx)
    # decoding returns the joined tokens untouched (R-C04-11 re-evaluated): a decoder that cleans / trims the text cannot return the input
    c04.r11(ctx)


@rule('C01', 'R-C01-6', 'T11 SIBLING (matcher and lookup agree on what a special token is)',
      'the special-token matcher built in new_base_tokenizer is an exact matcher of the escaped token strings: no regex option that '
      'widens the match (case_insensitive, ignore_whitespace, swap_greed, unicode(false)) is set, because the vocabulary lookup that '
      'follows a match (special_vocab.token_to_id) is exact -- a near-spelling like <PAD> would be cut out of the text and have no id')
def r6(ctx):
    b = ctx.body(T + 'BaseTokenizer::new_base_tokenizer')
    made = [t for t in b.calls(r'Regex::new$|RegexBuilder::build$|RegexBuilder::new$')]
    if not made:
        raise AnchorMissing('construction of the special-token regex in new_base_tokenizer')
    WIDEN = {'case_insensitive': 1, 'ignore_whitespace': 1, 'swap_greed': 1, 'unicode': 0, 'multi_line': None, 'dot_matches_new_line': None, 'crlf': None}
    n = 0
    for t in b.calls(r'RegexBuilder::\w+$'):
        name = (t.callee_res() or '').rsplit('::', 1)[-1]
        if name not in WIDEN or WIDEN[name] is None or len(t.args) < 2:
            continue
        n += 1
        v = core(sym(b, t.args[1]))
        off = v[0] == 'const' and len(v) > 2 and v[2] == 1 - WIDEN[name]
        ctx.require(off, b, 'matcher-option|' + name, 'regex option %s is left at its exact-match setting' % name,
                    'the special-token regex is built with %s(%s) (line %d): the matcher accepts strings the exact vocabulary lookup does not know '
                    '(byte tokenizer: tokenize fails with "unknown special token"; character tokenizer: the characters of the near-spelling collapse into one unknown id)'
                    % (name, show_in(b, v), t.span['line']), t.span)
    esc = [t for t in b.calls(r'regex::escape$')] + [c for c in closures_in(ctx, b) for t in c.calls(r'regex::escape$')]
    ctx.require(bool(esc), b, 'matcher-escaped', 'the alternatives of the special-token regex are the escaped token strings (regex::escape)',
                'no regex::escape call on the way to the special-token regex: a token containing a regex metacharacter matches other text')


@rule('C01', 'R-C01-7', 'prerequisite (the segmentation primitive)',
      'CharString::new segments by graphemes(true) / chars() selected by the flag alone, grapheme segmentation happens in src/unicode.rs only, '
      'and chars() / get_char / byte_start_end / Character::code_points agree with the stored cluster lengths (R-C11-6 re-evaluated): '
      '"one id per character" and "one group per character" count these characters')
def r7(ctx):
    from rules import c11
    c11.charstring_primitive(ctx)

