"""C01 Byte and character tokenizers encode every character faithfully and losslessly."""
import re
from analysis.engine import rule, AnchorMissing
from analysis import cfg
from analysis.facts import norm_path
from analysis.sym import sym, show_in, nosite, peel, core, walk, ret_values, args_of, guards_at, atoms_at, \
    variant_facts_at, cmp_facts_at, init_value, edge_guards, symbolizer, simplify, loop_source, defs_of, var_defs, agg_field
from analysis.pat import match, Call, Cap, ANY, Pred, Const, has, chain_names, chain
from rules.common import closure_of, closures_in, body_for, BYTE, CHAR, narrowing_casts, state_locals, local_defs, V

T = 'tokenization::'
TOK = '<tokenization::BaseTokenizer as tokenization::Tokenize>::'


R = {}


def _var(name):
    """role based (never the debug name): R maps a role to the local chosen by type / structure"""
    return Pred(lambda t: isinstance(t, tuple) and t and t[0] == 'var' and len(t) > 2 and R.get(name) == t[2])


def _one(b, ty, what):
    c = state_locals(b, ty)
    if len(c) != 1:
        raise AnchorMissing('%s (mutable local of type %s): found %d' % (what, ty, len(c)))
    return c[0]


@rule('C01', 'R-C01-1', 'T2 CHAIN (framing)',
      'add_prefix_and_suffix returns prefix ids, then exactly the given ids, then suffix ids (unconditionally); every tokenizer '
      'passes its body ids through it')
def r1(ctx):
    b = ctx.body(T + 'BaseTokenizer::add_prefix_and_suffix')
    rv = ret_values(b)
    ok = len(rv) == 1
    e = {}
    ok = ok and match(core(rv[0][0]), Call('Iterator::collect', Call('Iterator::chain', Call('Iterator::chain', Cap('p'), Cap('body')), Cap('s'))), e)
    ok = ok and match(e['p'], Call('prefix_token_ids', ('arg', 1, ANY))) and match(e['body'], ('arg', 2, ANY)) and match(e['s'], Call('suffix_token_ids', ('arg', 1, ANY)))
    ctx.require(ok, b, 'framing', 'ids = prefix ++ token_ids ++ suffix on every path',
                'add_prefix_and_suffix returns %s (prefix and suffix must be added unconditionally, in this order)' % [show_in(b, v)[:200] for v, _ in rv])
    for nm, fld in (('prefix_token_ids', 'prefix_token_ids'), ('suffix_token_ids', 'suffix_token_ids')):
        acc = [x for x in ctx.facts.bodies if x.path.endswith('::' + nm) and x.impl_trait and x.impl_trait.endswith('BaseTokenize') and x.impl_self and 'BaseTokenizer<' in x.impl_self]
        if len(acc) != 1:
            raise AnchorMissing('BaseTokenizer::%s' % nm)
        rva = ret_values(acc[0])
        ctx.require(len(rva) == 1 and match(core(rva[0][0]), ('field', ('arg', 1, ANY), fld)), acc[0], 'accessor|' + nm, '%s() returns self.%s' % (nm, fld), None)
    for what, selfpat in (('byte', BYTE), ('char', None)):
        cands = [x for x in ctx.facts.bodies if x.path.endswith('::tokenize') and x.impl_trait and x.impl_trait.endswith('Tokenize') and
                 ((selfpat and x.impl_self and selfpat in x.impl_self) or (selfpat is None and any('VocabTokenize' in p for p in x.preds_decl)))]
        if len(cands) != 1:
            raise AnchorMissing('%s tokenizer tokenize()' % what)
        t = cands[0]
        ctx.stats['bodies_inspected'].add(t.path)
        oks = [v for v, blk in ret_values(t) if v[0] == 'agg' and v[2].endswith('Result::Ok')]
        ok = len(oks) == 1 and match(core(oks[0][3][0]), Call('Tokenization::new', Call('add_prefix_and_suffix', ('arg', 1, ANY), ANY), ANY))
        ctx.require(ok, t, 'framed|' + what, '%s tokenize() returns Tokenization::new(add_prefix_and_suffix(body ids), info)' % what,
                    '%s tokenize() returns %s' % (what, [show_in(t, v)[:160] for v in oks]))


@rule('C01', 'R-C01-2', 'T8 OFFSET (byte id space)',
      'byte <-> id is the identity below the 256 boundary: ids pushed for text are the bytes themselves (no arithmetic, no '
      'filter), de_tokenize turns ids < 256 (strict) back into that byte, everything else is a special id')
def r2(ctx):
    p = body_for(ctx, T + 'BaseTokenizer::process_input', BYTE)
    R.clear()
    R['tokens'] = _one(p, r'^std::vec::Vec<u32>$', 'id vector')
    ext = [t for t in p.calls(r'Extend>::extend$|Vec::extend$') if match(core(sym(p, t.args[0])), _var('tokens'))]
    ok = len(ext) == 1
    if ok:
        a = sym(p, ext[0].args[1])
        src, steps = chain(a)
        names = [s[0] for s in steps]
        ok = names == ['as_bytes', 'iter', 'map'] or [n for n in names if n not in ('iter', 'as_bytes', 'map', 'copied', 'cloned')] == []
        ok = ok and 'map' in names or names == ['as_bytes', 'iter', 'copied']
        if 'map' in names:
            clo = closure_of(ctx, [s for s in steps if s[0] == 'map'][0][2][0])
            crv = ret_values(clo)
            ok = ok and len(crv) == 1 and match(core(crv[0][0]), ('arg', 2, ANY)) and not narrowing_casts(clo)
    ctx.require(ok, p, 'byte-to-id', 'text bytes become ids by value: s.as_bytes().iter().map(|b| *b as u32), nothing dropped', None)
    d = body_for(ctx, TOK + 'de_tokenize', BYTE)
    pushes = [t for t in d.calls(r'Vec::push$')]
    ok = len(pushes) == 1
    if ok:
        v = core(sym(d, pushes[0].args[1]))
        at = [(core(tt), pol) for tt, pol, g in atoms_at(d, pushes[0].bb)]
        lt = any(pol is True and match(tt, ('bin', 'Lt', Pred(lambda u: nosite(u) == nosite(v)), Const(256))) for tt, pol in at)
        arith = [x for x in walk(v) if isinstance(x, tuple) and x and x[0] == 'bin']
        ok = lt and not arith
    ctx.require(ok, d, 'id-to-byte', 'de_tokenize pushes the id as a byte under the strict test id < 256', 'byte push: %s' % [show_in(d, sym(d, t.args[1])) for t in pushes])
    ext = [t for t in d.calls(r'Vec::extend$|Extend>::extend$|extend_from_slice$')]
    ok = len(ext) == 1 and has(core(sym(d, ext[0].args[1])), Call('Vocab::id_to_token', ('field', ('arg', 1, ANY), 'special_vocab'), ANY))
    if ok:
        at = [(core(tt), pol) for tt, pol, g in atoms_at(d, ext[0].bb)]
        ok = any(pol is False and tt[0] == 'bin' and tt[1] == 'Lt' for tt, pol in at) and any(pol is False and match(tt, ('arg', 3, ANY)) for tt, pol in at)
    ctx.require(ok, d, 'special-decode', 'ids >= 256 are decoded through the special vocabulary unless special tokens are ignored', None)
    fu = list(d.calls(r'String::from_utf8$'))
    ctx.require(len(fu) == 1 and not list(d.calls(r'from_utf8_lossy$')), d, 'utf8', 'the bytes are converted with String::from_utf8 (error, not lossy)', None)
    nx = [t for t in d.calls(r'::next$')]
    ok = any(match(chain_names(loop_source(d, t))[0], ('arg', 2, ANY)) and not [n for n in chain_names(loop_source(d, t))[1] if n in ('rev', 'skip', 'filter', 'step_by', 'take')] for t in nx)
    ctx.require(ok, d, 'id-order', 'ids are visited in the given order', None)
    it = body_for(ctx, TOK + 'id_to_token', BYTE)
    ok = any(match(core(g.atom()[0]), ('bin', 'Lt', ('arg', 2, ANY), Const(256))) for g in edge_guards(it))
    ctx.require(ok, it, 'id-to-token-boundary', 'id_to_token uses the same strict 256 boundary', None)


@rule('C01', 'R-C01-3', 'T2/T1 (special-token split tiles the text)',
      'split_input pushes the regular text between matches, every match, and the tail: slices [last, m.start) (if non-empty), '
      '[m.start, m.end), [last, ..) (if non-empty) with last := m.end; with parsing off the whole text is one regular piece')
def r3(ctx):
    b = ctx.body(T + 'BaseTokenizer::split_input')
    R.clear()
    R['splits'] = _one(b, r'^std::vec::Vec<tokenization::TokenInput<', 'piece vector')
    R['last'] = _one(b, r'^usize$', 'end of the previous match')
    pushes = [t for t in b.calls(r'Vec::push$') if match(core(sym(b, t.args[0])), _var('splits'))]
    kinds = {}
    nx = [t for t in b.calls(r'::next$')]
    if len(nx) != 1:
        raise AnchorMissing('match iteration of split_input')
    m = ('unwrap', nosite(sym(b, nx[0].dest)))
    ism = Pred(lambda u: nosite(core(u)) == nosite(core(m)))
    mstart, mend = Call('Match::start', ism), Call('Match::end', ism)
    last = _var('last')
    loop = cfg.innermost_loop(b, nx[0].bb)
    for t in pushes:
        v = core(sym(b, t.args[1]))
        if not (v[0] == 'agg' and v[1] == 'adt'):
            continue
        variant = v[2].rsplit('::', 1)[-1]
        sl = v[3][0]
        rng = sl[2][1] if sl[0] == 'call' and len(sl[2]) == 2 else (sl[2] if sl[0] == 'index' else None)
        base = sl[2][0] if sl[0] == 'call' else (sl[1] if sl[0] == 'index' else None)
        at = [(core(tt), pol) for tt, pol, g in atoms_at(b, t.bb)]
        if variant == 'Regular' and rng is not None and match(rng, ('agg', 'adt', Pred(lambda n: n.endswith('Range::Range')), (last, mstart))):
            ok = any(pol is True and (match(tt, ('bin', 'Gt', mstart, last)) or match(tt, ('bin', 'Lt', last, mstart))) for tt, pol in at) and t.bb in loop.blocks
            kinds['between'] = (t, ok)
        elif variant == 'Special' and rng is not None and match(rng, ('agg', 'adt', Pred(lambda n: n.endswith('Range::Range')), (mstart, mend))):
            kinds['match'] = (t, t.bb in loop.blocks and all(cfg.must_pass(b, nx[0].target, l, via_blocks=[t.bb]) for l in loop.latches))
        elif variant == 'Regular' and rng is not None and match(rng, ('agg', 'adt', Pred(lambda n: n.endswith('RangeFrom::RangeFrom')), (last,))):
            ok = any(pol is True and match(tt, ('bin', 'Lt', last, Call('str::len', ('arg', 2, ANY)))) for tt, pol in at) and t.bb not in loop.blocks
            kinds['tail'] = (t, ok)
        else:
            kinds['other:' + show_in(b, v)[:60]] = (t, False)
        if base is not None:
            ctx.require(match(base, ('arg', 2, ANY)), b, 'slice-of-input', 'pieces are slices of the input text', None, t.span)
    for k in ('between', 'match', 'tail'):
        ctx.require(k in kinds and kinds[k][1], b, 'piece|' + k, {'between': 'text between matches [last, m.start) is pushed when non-empty',
                                                                  'match': 'every match [m.start, m.end) is pushed as Special', 'tail': 'the tail [last, ..) is pushed when non-empty'}[k],
                    'split_input piece `%s` is missing or unguarded (pieces found: %s)' % (k, sorted(kinds)))
    ctx.require(set(kinds) <= {'between', 'match', 'tail'}, b, 'no-other-piece', 'no other piece is pushed', 'pieces: %s' % sorted(kinds))
    ld = local_defs(b, R['last'])
    vals = [core(v) for site, v in ld]
    ok = len(vals) == 2 and any(v[0] == 'const' and v[2] == 0 for v in vals) and any(match(v, mend) for v in vals)
    if ok:
        upd = [site for site, v in ld if match(core(v), mend)][0]
        ok = upd.bb in loop.blocks and all(cfg.must_pass(b, nx[0].target, l, via_blocks=[upd.bb]) for l in loop.latches) and \
            ('match' in kinds and cfg.dominates(b, kinds['match'][0].bb, upd.bb))
    ctx.require(ok, b, 'last', 'last starts at 0 and becomes m.end() after every match', 'last takes %s' % [show_in(b, v) for v in vals])
    fi = [t for t in b.calls(r'Regex::find_iter$')]
    ctx.require(len(fi) == 1 and match(core(sym(b, fi[0].args[1])), ('arg', 2, ANY)) and has(core(sym(b, fi[0].args[0])), ('field', ('arg', 1, ANY), 'special_token_pattern')), b,
                'pattern', 'matches come from self.special_token_pattern over the input', None)
    # parsing off: single Regular(s)
    early = [g for g in edge_guards(b) if g.atom()[1] is True and match(core(g.atom()[0]), ('arg', 3, ANY))]
    ctx.require(bool(early), b, 'ignore-flag', 'ignore_special_tokens short-circuits the split', None)
    arrs = []
    z = symbolizer(b)
    for s in b.stmts():
        if s.kind == 'assign' and s.rv.kind == 'agg' and s.rv.agg == 'array' and s.span['mac'] == 'vec':
            arrs.append(simplify(z.rvalue(s.rv, 0, ())))
    ok = len(arrs) == 1 and len(arrs[0][3]) == 1 and match(core(arrs[0][3][0]), ('agg', 'adt', Pred(lambda n: n.endswith('TokenInput::Regular')), (('arg', 2, ANY),)))
    ctx.require(ok, b, 'unsplit', 'without parsing the result is vec![Regular(s)]', None)


@rule('C01', 'R-C01-4', 'T2 CHAIN (character tokenizer)',
      'the character tokenizer maps every Character of CS::new(text, use_graphemes) to exactly one token (no filter, no '
      'shortcut that bypasses the segmentation): a single code point as itself, a multi code point cluster as the unknown '
      'token; unknown vocabulary entries fall back to unk_token_id()')
def r4(ctx):
    cands = [x for x in ctx.facts.bodies if x.path.endswith('::process_token_input') and x.kind != 'Closure' and x.impl_self and CHAR in x.impl_self]
    if len(cands) != 1:
        raise AnchorMissing('CharTokenizer::process_token_input (found %d)' % len(cands))
    b = cands[0]
    ctx.stats['bodies_inspected'].add(b.path)
    R.clear()
    R['tokens'] = _one(b, r'^std::vec::Vec<tokenization::VocabToken<', 'token vector')
    writers = [t for t in b.terms('call') if t.args and t.args[0].place is not None and b.local_ty(t.args[0].place.local).startswith('&mut') and
               match(core(sym(b, t.args[0])), _var('tokens'))]

    def arm_of(blk):
        for tt, names in variant_facts_at(b, blk):
            if names in ({'Regular'}, {'Special'}):
                return list(names)[0]
        return None
    seen = {}
    for t in writers:
        name = (t.callee_res() or '').rsplit('::', 1)[-1]
        arm = arm_of(t.bb)
        a = sym(b, t.args[1]) if len(t.args) > 1 else None
        kind = None
        if name == 'extend' and arm == 'Regular':
            src, steps = chain(a)
            names = [s[0] for s in steps]
            if names == ['new', 'chars', 'map'] and match(core(steps[0][3]), Call('CharString::new', ANY, ('field', ('field', ('arg', 1, ANY), 'config'), 'use_graphemes'))):
                kind = 'regular'
                clo = closure_of(ctx, steps[2][2][0])
                toks = {}
                for v, blk in ret_values(clo):
                    cv = core(v)
                    more = None
                    for tt, pol, g in atoms_at(clo, blk):
                        if match(core(tt), Call('Option::is_some', Call('::next', ANY))):
                            more = pol
                    if cv[0] == 'agg' and cv[2].endswith('VocabToken::Special'):
                        toks['unk'] = (more, has(cv, ('field', ('field', ANY, 'state'), 0)))
                    elif cv[0] == 'agg' and cv[2].endswith('VocabToken::Token'):
                        toks['char'] = (more, has(cv, Call('::next', ANY)))
                ctx.require(toks == {'unk': (True, True), 'char': (False, True)}, clo, 'char-token',
                            'one token per Character: its single code point, or unk when a second code point exists', 'per-Character tokens: %s' % toks)
        elif name == 'push' and arm == 'Special':
            kind = 'special' if match(core(a), ('agg', 'adt', Pred(lambda n: n.endswith('VocabToken::Special')), (ANY,))) else None
        if kind is None:
            ctx.fail(b, 'unpaired-token-writer|' + name, 'tokens.%s(%s) at line %d bypasses the per-Character mapping (e.g. an ASCII fast path '
                     'iterating code points gives two tokens for the grapheme "\\r\\n")' % (name, show_in(b, a)[:80] if a else '', t.span['line']), t.span)
            continue
        seen.setdefault(kind, []).append(t)
    for k in ('regular', 'special'):
        ctx.require(len(seen.get(k, [])) == 1, b, 'token-writer|' + k, 'exactly one `%s` token writer' % k, 'found %d' % len(seen.get(k, [])))
    # lookup fallback
    tk = [x for x in ctx.facts.bodies if x.path.endswith('::tokenize') and x.impl_trait and x.impl_trait.endswith('Tokenize') and any('VocabTokenize' in p for p in x.preds_decl)]
    if len(tk) != 1:
        raise AnchorMissing('VocabTokenizer::tokenize')
    t = tk[0]
    mp = [c for c in closures_in(ctx, t, recursive=False)]
    ok = False
    for c in mp:
        for v, blk in ret_values(c):
            cv = core(v)
            if match(cv, Call('unwrap_or_else', ANY, ANY)) or has(v, Call('Option::unwrap_or_else', ANY, ANY)):
                dflt = [x for x in walk(v) if isinstance(x, tuple) and x and x[0] == 'call' and x[1].endswith('unwrap_or_else')][0][2][1]
                dc = closure_of(ctx, dflt)
                drv = ret_values(dc)
                ok = len(drv) == 1 and match(core(drv[0][0]), Call('unk_token_id', ANY))
    ctx.require(ok, t, 'unk-fallback', 'a token missing from the vocabulary maps to unk_token_id()', None)
    sp = [c for c in t.calls(r'split_input$')]
    pt = [c for c in t.calls(r'process_token_input$')]
    ctx.require(len(sp) == 1 and len(pt) == 1 and nosite(core(sym(t, pt[0].args[1]))) == nosite(core(sym(t, sp[0].dest))), t, 'pipeline',
                'tokenize = process_token_input(split_input(s, ignore_special_tokens))', None)
