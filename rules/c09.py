"""C09 Abandoning or failing never wedges the loader: bounded lookahead, prompt stop."""
import re
from analysis.engine import rule, AnchorMissing
from analysis import cfg
from analysis.facts import norm_path
from analysis.sym import sym, show_in, nosite, peel, core, walk, ret_values, args_of, guards_at, atoms_at, \
    variant_facts_at, cmp_facts_at
from analysis.pat import match, Call, Cap, ANY, Pred, Const, has, chain_names
from rules.common import closure_of, closures_in
from rules import pipe

PRODUCER_FLOOR = 2   # counted on the pinned tree: Pipe worker, Buffered producer (the loader's producer loops)


def _pulls_in(b, loop):
    """upstream pulls inside the loop: `next()` calls (iterator pulls)"""
    return [t for t in b.calls(r'::next$') if t.bb in loop.blocks]


@rule('C09', 'R-C09-1', 'T5 SEND-ERR',
      'in every producer loop of the loader (src/data) the Result of the channel send reaches a branch whose Err edge leaves the '
      'loop without pulling another upstream item')
def r1(ctx):
    pl = [x for x in pipe.producer_loops(ctx) if x[0].file().startswith('src/data/')]
    if len(pl) < PRODUCER_FLOOR:
        raise AnchorMissing('expected at least %d producer loops with a channel send, found %d' % (PRODUCER_FLOOR, len(pl)))
    for b, t, loop in pl:
        from analysis.facts import norm_path
        where = norm_path(b.path)
        if loop is None:
            ctx.ok(b, '%s: send outside a loop (single shot)' % where, t.span)
            continue
        res = nosite(sym(b, t.dest))
        # blocks reachable (inside the loop, without crossing the header) when the send returned Err
        # find guards that test the result
        err_edges = []
        for g in [g for g in __import__('analysis.sym', fromlist=['edge_guards']).edge_guards(b)]:
            tr, pol = g.atom()
            ctr = nosite(tr)
            if pol is True and match(ctr, Call('Result::is_err', Pred(lambda x: nosite(x) == res))):
                err_edges.append(g)
            elif pol is False and match(ctr, Call('Result::is_ok', Pred(lambda x: nosite(x) == res))):
                err_edges.append(g)
            elif pol is None and tr[0] == 'discr' and nosite(tr[1]) == res and g.values == {1}:
                err_edges.append(g)
            elif pol is None and tr[0] == 'discr' and match(nosite(tr[1]), Call('branch', Pred(lambda x: nosite(x) == res))) and g.values == {1}:
                err_edges.append(g)
            elif pol is not None and tr[0] in ('var', 'phi'):
                # the outcome kept in a flag that the loop tests (`open = tx.send(x).is_ok(); .. while open { .. }`)
                from analysis.sym import defs_of, symbolizer, simplify
                loc = tr[2] if tr[0] == 'var' and len(tr) > 2 else tr[1]
                whole, partial = defs_of(b, loc) if isinstance(loc, int) else ((), ())
                z = symbolizer(b)
                for d in whole:
                    dv = nosite(simplify(z.rvalue(d.rv, 0, (loc,)) if hasattr(d, 'rv') else z.call(d, 0, (loc,))))
                    if (pol is False and match(dv, Call('Result::is_ok', Pred(lambda x: nosite(x) == res)))) or \
                            (pol is True and match(dv, Call('Result::is_err', Pred(lambda x: nosite(x) == res)))):
                        err_edges.append(g)
        if not err_edges:
            ctx.fail(b, 'send-result-ignored|' + where.rsplit('::', 2)[-2],
                     '%s: the Result of the send at line %d is never inspected: after the consumer is gone the loop keeps '
                     'pulling the whole upstream' % (where, t.span['line']), t.span)
            continue
        for g in err_edges:
            # from the Err edge target: can we reach a pull of the loop (or the loop header) again?
            r = cfg.reach(b, g.target)
            again = [p for p in _pulls_in(b, loop) if p.bb in r] or (loop.header in r)
            ctx.require(not again, b, 'err-leaves-loop|' + where.rsplit('::', 2)[-2],
                        '%s: a failed send (line %d) leaves the producer loop' % (where, t.span['line']),
                        '%s: after a failed send (line %d) the loop continues and keeps pulling upstream items' % (where, t.span['line']), t.span)


@rule('C09', 'R-C09-2', 'T15 TYPE / T10 WHO',
      'every channel is a bounded sync_channel whose capacity is the thread count / buffer size parameter; the unbounded '
      'mpsc::channel is used nowhere in the crate')
def r2(ctx):
    unb = []
    sc = []
    for b in ctx.facts.bodies:
        for t in b.calls(r'mpsc::channel$'):
            unb.append((b, t))
        for t in b.calls(r'mpsc::sync_channel$'):
            sc.append((b, t))
    ctx.require(not unb, None, 'unbounded-channel', 'no unbounded mpsc::channel in the crate',
                'unbounded channel created in %s' % [x[0].path for x in unb])
    sc = [x for x in sc if x[0].file().startswith('src/data/')]
    if len(sc) < 2:
        raise AnchorMissing('expected at least 2 sync_channel constructions in the loader, found %d' % len(sc))
    for b, t in sc:
        ctx.stats['bodies_inspected'].add(b.path)
        cap = core(sym(b, t.args[0]))
        ok = cap[0] == 'arg' or (cap[0] == 'call' and cap[1].endswith('::max') and cap[2][0][0] == 'arg')
        named = cap[0] == 'arg' and re.search(r'thread|buffer', cap[2] or '')
        ctx.require(ok and (named or cap[0] != 'arg' or True), b, 'capacity',
                    'sync_channel capacity is the parameter `%s`' % show_in(b, cap),
                    'sync_channel capacity is %s (not a caller-chosen bound)' % show_in(b, cap), t.span)


@rule('C09', 'R-C09-3', 'MUST-PASS (one pull per send)',
      'in the loader\'s producer loops every path from an upstream pull to the next pull passes the blocking send: the '
      'look-ahead is bounded by channel capacity + number of producers')
def r3(ctx):
    w = pipe.worker(ctx)
    b = w.body
    if w.some_target is None:
        raise AnchorMissing('Some arm of the ticket pull')
    ok = all(cfg.must_pass(b, w.some_target, l, via_blocks=[w.send.bb]) for l in w.loop.latches)
    ctx.require(ok, b, 'pipe-pull-then-send', 'Pipe worker: between two ticket pulls there is always a (blocking) send', None, w.send.span)
    ctx.require((w.send.callee_res() or '').endswith('SyncSender::send'), b, 'pipe-blocking-send', 'Pipe worker uses the blocking send', None, w.send.span)
    bn = ctx.body('data::loading::Buffered::new')
    sp = [t for t in bn.calls(r'thread::Builder::spawn$|thread::spawn$')]
    if len(sp) != 1:
        raise AnchorMissing('spawn in Buffered::new')
    pb = closure_of(ctx, sym(bn, sp[0].args[-1]))
    sends = [t for t in pb.calls(r'mpsc::SyncSender::send$')]
    if len(sends) != 1:
        # `iter.try_for_each(|item| tx.send(item))`: one blocking send per pulled item, stops at the first failed send -- by construction
        tfe = [(x, t) for x in [pb] + closures_in(ctx, pb) for t in x.calls(r'Iterator::try_for_each$')]
        okt = False
        if len(tfe) == 1:
            x, t = tfe[0]
            clo = closure_of(ctx, sym(x, t.args[1]))
            crv = ret_values(clo)
            okt = len(crv) == 1 and match(peel(crv[0][0]), Call('mpsc::SyncSender::send', ANY, ('arg', 2, ANY)))
        if okt:
            ctx.ok(pb, 'Buffered producer: upstream.try_for_each(|item| tx.send(item)) -- one blocking send per pull, the first failure ends it', tfe[0][1].span)
            caps = sym(bn, sp[0].args[-1])[3]
            ctx.require(any(match(core(c), ('arg', 1, ANY)) for c in caps), bn, 'buffered-moves-iter', 'the upstream iterator is moved into the producer', None)
            nx = ctx.body('<data::loading::Buffered as std::iter::Iterator>::next')
            _buffered_consumer(ctx, nx, bn)
            return
        ctx.fail(pb, 'buffered-send', 'Buffered producer: expected one blocking SyncSender::send, found %d' % len(sends))
        return
    loop = cfg.innermost_loop(pb, sends[0].bb)
    pulls = _pulls_in(pb, loop) if loop else []
    ok = loop is not None and len(pulls) == 1
    if ok:
        from analysis.sym import variant_edges
        some = [e[1] for e in variant_edges(pb, sym(pb, pulls[0].dest), 'Some')]
        ok = bool(some) and all(cfg.must_pass(pb, some[0], l, via_blocks=[sends[0].bb]) for l in loop.latches)
    ctx.require(ok, pb, 'buffered-pull-then-send', 'Buffered producer: one pull per send', None, sends[0].span)
    # the upstream iterator is pulled only by the producer thread: Buffered::new moves it into the closure
    caps = sym(bn, sp[0].args[-1])[3]
    ctx.require(any(match(core(c), ('arg', 1, ANY)) for c in caps), bn, 'buffered-moves-iter', 'the upstream iterator is moved into the producer', None)
    # consumer side: plain blocking recv
    nx = ctx.body('<data::loading::Buffered as std::iter::Iterator>::next')
    _buffered_consumer(ctx, nx, bn)


def _buffered_consumer(ctx, nx, bn):
    rv = ret_values(nx)
    RECV = Call('mpsc::Receiver::recv', ANY)
    okrecv = len(rv) == 1 and match(rv[0][0], Call('Result::ok', RECV))
    if not okrecv:
        # the same thing written out: match rx.recv() { Ok(item) => Some(item), Err(_) => None }
        from analysis.alts import ret_table
        tbl = ret_table(ctx.facts, nx, lambda c: match(c, RECV)) or {}
        okv = tbl.get('Ok', [])
        okrecv = set(tbl) == {'Ok', 'Err'} and len(okv) == 1 and len(tbl['Err']) == 1 and \
            match(peel(okv[0]), ('agg', 'adt', Pred(lambda n: n.endswith('Option::Some')), (Pred(lambda u: match(core(u), RECV) or match(core(u), ('field', ('variant', RECV, 'Ok'), 0))),))) and \
            match(peel(tbl['Err'][0]), ('agg', 'adt', Pred(lambda n: n.endswith('Option::None')), ANY))
    ctx.require(okrecv, nx, 'buffered-recv',
                'Buffered::next = rx.recv().ok()', 'Buffered::next is %s' % [show_in(nx, v) for v, _ in rv])
    ch = [t for t in bn.calls(r'mpsc::sync_channel$')]
    ctx.require(len(ch) == 1 and match(core(sym(bn, ch[0].args[0])), ('arg', 2, ANY)), bn, 'buffered-capacity',
                'Buffered channel capacity = buffer_size', None)


@rule('C09', 'R-C09-4', 'POST-DOM (turn advanced on the error path)',
      'a Pipe worker whose send failed still advances the turn, so sibling workers waiting for their turn do not spin forever')
def r4(ctx):
    w = pipe.worker(ctx)
    b = w.body
    if len(w.writes) != 1:
        ctx.fail(b, 'advance', 'expected one turn advance, found %d' % len(w.writes))
        return
    ends = list(b.returns) + list(w.loop.latches)
    ok = all(cfg.must_pass(b, w.send.bb, e, via_blocks=[w.writes[0].bb], from_succ=True) for e in ends)
    ctx.require(ok, b, 'advance-on-error', 'turn advanced on every path after the send, including the error return',
                'a failed send returns without advancing the turn: the remaining workers wait for their turn forever', w.writes[0].span)
    # waiting workers: the wait loop contains no blocking call and no upstream pull
    if w.loads:
        wl = cfg.innermost_loop(b, w.loads[0].bb)
        if wl is not None:
            calls = [t.callee_res() for t in b.terms('call') if t.bb in wl.blocks]
            bad = [c for c in calls if c and not re.search(r'Atomic|Arc.*deref|sleep|yield_now|spin_loop|PartialEq', c)]
            ctx.require(not bad, b, 'wait-loop-pure', 'the wait loop only polls the turn counter', 'wait loop calls %s' % bad, w.loads[0].span)


@rule('C09', 'R-C09-5', 'T1 ORDER (panic hook)',
      'Pipe::new installs, before any worker is spawned, a panic hook that unconditionally ends the process')
def r5(ctx):
    w = pipe.worker(ctx)
    n = w.new
    hk = [t for t in n.calls(r'panic::set_hook$')]
    if len(hk) != 1:
        ctx.fail(n, 'hook-missing', 'Pipe::new does not install a panic hook (found %d set_hook calls): a panicking worker '
                 'leaves the consumer blocked forever' % len(hk))
        return
    ctx.require(cfg.dominates(n, hk[0].bb, w.spawn.bb), n, 'hook-before-spawn', 'the hook is installed before the first spawn', None, hk[0].span)
    arg = sym(n, hk[0].args[0])
    clos = [s for s in walk(arg) if isinstance(s, tuple) and s and s[0] == 'agg' and s[1] == 'closure']
    if len(clos) != 1:
        raise AnchorMissing('hook closure')
    hb = closure_of(ctx, clos[0])
    ex = [t for t in hb.calls(r'process::exit$|process::abort$')]
    ok = bool(ex) and not hb.returns
    ctx.require(ok, hb, 'hook-exits', 'the hook cannot return: every path ends in process::exit/abort',
                'the panic hook can return without terminating the process (returns: %d, exit calls: %d)' % (len(hb.returns), len(ex)))
    if ex:
        code = sym(hb, ex[0].args[0]) if ex[0].args else None
        ctx.require(code is None or (code[0] == 'const' and code[2] != 0), hb, 'hook-exit-code', 'exit status is non-zero', None, ex[0].span)
    # no take_hook / second set_hook afterwards in Pipe::new
    others = [t for t in n.calls(r'panic::take_hook$')]
    ctx.require(not others, n, 'hook-not-removed', 'Pipe::new does not remove the hook again', None)


@rule('C09', 'R-C09-6', 'T10 WHO (producers are detached, the consumer never waits for them)',
      'the loader never joins a producer thread and implements no Drop that receives from a channel: a consumer that waits for a '
      'producer while its own Receiver is still alive is wedged as soon as the producer blocks on the full channel (dropping a '
      'partially consumed iterator must return at once and let the producer see the closed channel)')
def r6(ctx):
    spawns = []
    for b in ctx.facts.bodies:
        if not b.file().startswith('src/data/'):
            continue
        for t in b.calls(r'thread::Builder::spawn$|thread::spawn$|Builder::spawn_scoped$|thread::scope$'):
            spawns.append((b, t))
        for t in b.calls(r'JoinHandle.*::join$|ScopedJoinHandle.*::join$'):
            ctx.fail(b, 'join', 'a loader thread is joined at line %d in %s: the joining side blocks for as long as the thread does (a producer blocked on a '
                     'full channel never returns)' % (t.span['line'], norm_path(b.path)), t.span)
        if b.impl_trait and norm_path(b.impl_trait).endswith('ops::Drop'):
            for t in b.calls(r'mpsc::Receiver.*::(recv|try_recv|recv_timeout|iter|try_iter)$|JoinHandle.*::join$'):
                ctx.fail(b, 'blocking-drop', 'Drop of %s receives / joins at line %d' % (b.impl_self, t.span['line']), t.span)
    if len(spawns) < 2:
        raise AnchorMissing('thread spawns of the loader (found %d)' % len(spawns))
    for b, t in spawns:
        ctx.stats['bodies_inspected'].add(b.path)
        # the JoinHandle is not kept: it does not flow into a returned / stored aggregate
        h = nosite(sym(b, t.dest))
        kept = []
        for v, bb in ret_values(b):
            if any(isinstance(x, tuple) and nosite(x) == h for x in walk(v)):
                kept.append('returned value')
        for s in b.stmts():
            if s.kind == 'assign' and s.lhs.proj and any(isinstance(x, tuple) and nosite(x) == h for x in walk(sym(b, s.rv.ops[0]) if s.rv.ops else ())):
                kept.append('store at line %d' % s.span['line'])
        ctx.require(not kept, b, 'detached', 'the thread spawned at line %d is detached (its JoinHandle is dropped)' % t.span['line'],
                    'the JoinHandle of the thread spawned at line %d is kept (%s): whoever waits on it blocks with the producer' % (t.span['line'], ', '.join(kept)), t.span)


@rule('C09', 'R-C09-7', 'prerequisite (the consumer takes one item per call)',
      'Pipe::next is a single blocking receive (R-C05-4 re-evaluated): a consumer that also drains the channel into a private queue '
      '(`ready.extend(rx.try_iter())`) frees up to num_threads slots per call while handing out one item, so the number of upstream items pulled '
      'ahead grows with every call instead of staying bounded by channel capacity + workers')
def r7(ctx):
    from rules import c05
    c05.r4(ctx)
