"""C19 BPE training is greedy-correct and always emits a well-formed merge table."""
import re
from analysis.engine import rule, AnchorMissing
from analysis import cfg
from analysis.facts import norm_path
from analysis.sym import sym, show_in, nosite, peel, core, walk, ret_values, args_of, guards_at, atoms_at, \
    variant_facts_at, cmp_facts_at, init_value, edge_guards, symbolizer, simplify, loop_source, defs_of, var_defs, agg_field
from analysis.pat import match, Call, Cap, ANY, Pred, Const, has, chain_names
from rules.common import closure_of, closures_in, state_locals, local_defs, V
from rules import pipe

T = 'tokenization::'


R = {}


def _var(name):
    """role based (never the debug name): R maps a role to the local chosen by type / structure"""
    return Pred(lambda t: isinstance(t, tuple) and t and t[0] == 'var' and len(t) > 2 and R.get(name) == t[2])


def _one(b, ty, what):
    c = state_locals(b, ty)
    if len(c) != 1:
        raise AnchorMissing('%s (mutable local of type %s): found %d' % (what, ty, len(c)))
    return c[0]


def N(b, name):
    d = [nosite(core(v)) for site, v in var_defs(b, name)]

    def f(t):
        if t[0] == 'var' and t[1] == name:
            return True
        ct = nosite(core(t))
        return any(ct == x for x in d)
    return Pred(f)


@rule('C19', 'R-C19-1', 'T2 CHAIN (positive, maximal frequency)',
      'the pair to merge is chosen as stats.iter().filter(freq > 0).max_by_key(freq): a pair that no longer occurs is never '
      'selected and the selected pair has maximal frequency')
def r1(ctx):
    b = ctx.body(T + 'max_byte_pair')
    rv = ret_values(b)
    e = {}
    ok = len(rv) == 1 and match(core(rv[0][0]), Call('Option::map', Call('Iterator::max_by_key', Cap('src'), Cap('key')), Cap('proj')), e)
    if not ok and not list(b.calls(r'Iterator::max_by_key$|Iterator::max_by$|Iterator::max$|Iterator::min_by_key$')) and cfg.loops(b):
        # a hand-written selection loop: the rule has no normal form for an arg-max scan
        raise AnchorMissing('max_byte_pair: selection is not an iterator max_by_key chain (hand-written scan)')
    ctx.require(ok, b, 'selection', 'max_byte_pair = (..).max_by_key(freq).map(pair)', 'max_byte_pair = %s' % [show_in(b, v) for v, _ in rv])
    if not ok:
        return
    key = closure_of(ctx, e['key'])
    krv = ret_values(key)
    ctx.require(len(krv) == 1 and match(core(krv[0][0]), ('field', ('field', ('arg', 2, ANY), 1), 'freq')), key, 'max-key', 'the maximisation key is the pair frequency', None)
    src = e['src']
    flt = [x for x in walk(src) if isinstance(x, tuple) and x and x[0] == 'call' and x[1].endswith('Iterator::filter')]
    ok = len(flt) == 1 and match(flt[0][2][0], ('arg', 1, ANY))
    why = 'no filter on the frequency: once the corpus is exhausted a pair with frequency 0 is selected (junk entries, overwritten ids)'
    if ok:
        fc = closure_of(ctx, flt[0][2][1])
        frv = ret_values(fc)
        ok = len(frv) == 1 and (match(core(frv[0][0]), ('bin', 'Gt', ('field', ('field', ('arg', 2, ANY), 1), 'freq'), Const(0))) or
                                match(core(frv[0][0]), ('bin', 'Ne', ('field', ('field', ('arg', 2, ANY), 1), 'freq'), Const(0))) or
                                match(core(frv[0][0]), ('bin', 'Ge', ('field', ('field', ('arg', 2, ANY), 1), 'freq'), Const(1))))
        why = 'filter predicate is %s' % (show_in(fc, frv[0][0]) if frv else '?')
    ctx.require(ok, b, 'positive-frequency', 'only pairs with freq > 0 are candidates', why)
    pr = closure_of(ctx, e['proj'])
    prv = ret_values(pr)
    ctx.require(len(prv) == 1 and match(core(prv[0][0]), ('field', ('arg', 2, ANY), 0)), pr, 'projection', 'the result is the selected pair itself', None)


@rule('C19', 'R-C19-2', 'MUST-PASS (merge loop)',
      'each iteration of the merge loop selects a pair (None ends the loop), replaces it in the vocabulary, updates the '
      'statistics and records pair.merge() under the loop index merge_idx in 0..num_merges, in this order')
def r2(ctx):
    b = ctx.body(T + 'train_bpe')
    R.clear()
    R['merge_ops'] = _one(b, r'^std::collections::HashMap<std::vec::Vec<u8>, u32>$', 'merge table')
    R['vocab'] = _one(b, r'^std::vec::Vec<\(std::vec::Vec<std::vec::Vec<u8>>, usize\)>$', 'word vocabulary')
    R['stats'] = _one(b, r'^std::collections::HashMap<tokenization::BytePair, tokenization::BytePairInfo>$', 'pair statistics')
    ins = [t for t in b.calls(r'HashMap::insert$') if match(core(sym(b, t.args[0])), _var('merge_ops'))]
    if len(ins) != 1:
        raise AnchorMissing('merge_ops.insert(..) in train_bpe (found %d)' % len(ins))
    loop = cfg.innermost_loop(b, ins[0].bb)
    if loop is None:
        raise AnchorMissing('merge loop')
    sel = [t for t in b.calls(T + 'max_byte_pair$') if t.bb in loop.blocks]
    rep = [t for t in b.calls(T + 'replace_pair$') if t.bb in loop.blocks]
    upd = [t for t in b.calls(T + 'update_stats$') if t.bb in loop.blocks]
    ok = len(sel) == 1 and len(rep) == 1 and len(upd) == 1
    ctx.require(ok, b, 'steps', 'one selection, one replacement, one statistics update per iteration', 'found %d/%d/%d' % (len(sel), len(rep), len(upd)))
    if not ok:
        return
    ctx.require(cfg.dominates(b, sel[0].bb, rep[0].bb) and cfg.dominates(b, rep[0].bb, upd[0].bb) and cfg.dominates(b, upd[0].bb, ins[0].bb), b, 'order',
                'select -> replace_pair -> update_stats -> insert', None)
    pair = ('unwrap', nosite(sym(b, sel[0].dest)))
    isp = Pred(lambda u: nosite(core(u)) == nosite(core(pair)))
    ctx.require(match(core(sym(b, rep[0].args[1])), isp) and match(core(sym(b, upd[0].args[1])), isp) and
                match(core(sym(b, rep[0].args[0])), _var('vocab')) and match(core(sym(b, rep[0].args[2])), _var('stats')) and
                match(core(sym(b, upd[0].args[0])), _var('stats')) and nosite(core(sym(b, upd[0].args[2]))) == nosite(core(sym(b, rep[0].dest))), b, 'dataflow',
                'replace_pair(&mut vocab, &pair, &stats) -> changes -> update_stats(&mut stats, &pair, &changes)', None)
    k, v = core(sym(b, ins[0].args[1])), core(sym(b, ins[0].args[2]))
    nx = [t for t in b.calls(r'::next$') if t.bb in loop.blocks and t.bb == loop.header or (t.bb in loop.blocks and cfg.dominates(b, t.bb, sel[0].bb))]
    src = core(loop_source(b, nx[0])) if nx else ()
    idx = ('unwrap', nosite(sym(b, nx[0].dest))) if nx else None
    ok = match(k, Call('BytePair::merge', isp)) and idx is not None and nosite(v) == nosite(core(idx)) and \
        has(src, ('agg', 'adt', Pred(lambda n: n.endswith('Range::Range')), (Const(0), Call('saturating_sub', Call('saturating_sub', ('arg', 2, ANY), Const(256)), ('arg', 3, ANY)))))
    ctx.require(ok, b, 'record', 'merge_ops.insert(pair.merge(), merge_idx) with merge_idx iterating 0..num_merges',
                'insert(%s, %s) over %s' % (show_in(b, k), show_in(b, v), show_in(b, src)))
    # exits: range exhausted, None selection, or error of update_stats
    for (u, w) in loop.exits(b):
        ok = False
        for g in edge_guards(b):
            if g.block == u and g.target == w and g.t[0] == 'discr':
                inner = nosite(g.t[1])
                if nx and inner == nosite(sym(b, nx[0].dest)):
                    ok = True
                if inner == nosite(sym(b, sel[0].dest)):
                    ok = True
                if match(inner, Call('branch', Pred(lambda x: nosite(x) == nosite(sym(b, upd[0].dest))))):
                    ok = True
        ctx.require(ok, b, 'loop-exit', 'merge loop exit bb%d->bb%d is range end / no pair left / update error' % (u, w), None, b.blocks[u].term.span)
    # merge() concatenates first then second
    m = ctx.body(T + 'BytePair::merge')
    rv = ret_values(m)
    ok = len(rv) == 1 and match(core(rv[0][0]), Call('concat', ('agg', 'array', '', (Pred(lambda u: has(u, ('field', ('arg', 1, ANY), 'first'))), Pred(lambda u: has(u, ('field', ('arg', 1, ANY), 'second')))))))
    ctx.require(ok, m, 'merge-order', 'pair.merge() = concat(first, second)', None)
    sv = [t for t in b.calls(r'::save$')]
    ctx.require(any(match(core(sym(b, t.args[0])), _var('merge_ops')) for t in sv), b, 'saved', 'the table written is merge_ops', None)


@rule('C19', 'R-C19-3', 'T8 OFFSET',
      'num_merges = vocab_size - 256 - num_special_tokens (saturating): the same 256 byte ids as the tokenizer')
def r3(ctx):
    b = ctx.body(T + 'train_bpe')
    nm = [core(sym(b, t.dest)) for t in b.calls(r'saturating_sub$') if match(core(sym(b, t.dest)), Call('saturating_sub', Call('saturating_sub', ANY, ANY), ANY))]
    ok = len(nm) == 1 and match(nm[0], Call('saturating_sub', Call('saturating_sub', ('arg', 2, ANY), Const(256)), ('arg', 3, ANY)))
    ctx.require(ok, b, 'num-merges', 'num_merges = vocab_size.saturating_sub(256).saturating_sub(num_special_tokens)', 'num_merges = %s' % [show_in(b, x) for x in nm])


@rule('C19', 'R-C19-4', 'T11 SIBLING / T5 (counting workers)',
      'words are split with the tokenizer\'s pattern; counting workers leave their loop only when the corpus is exhausted or '
      'the channel is closed and send the counts of every pulled line; the reducer only adds per key (independent of '
      'thread count and schedule)')
def r4(ctx):
    b = ctx.body(T + 'train_bpe')
    sp = [t for t in b.calls(r'thread::Builder::spawn$|thread::spawn$')]
    if len(sp) != 1:
        raise AnchorMissing('worker spawn in train_bpe')
    w = closure_of(ctx, sym(b, sp[0].args[-1]))
    pull, send, loop = pipe.worker_exit_check(ctx, w, 'train_bpe worker')
    cw = [t for t in w.calls(r'text::count_words_whitespace$')]
    ctx.require(len(cw) == 1, w, 'word-split', 'workers count words with text::count_words_whitespace (the tokenizer\'s pattern, R-C02-3)', None)
    c = ctx.body('text::count_words_whitespace')
    rn = [sym(c, t.args[0]) for t in c.calls(r'regex::Regex::new$')]
    from rules.common import word_pattern_is_whitespace_only
    word_pattern_is_whitespace_only(ctx, c, 'training')
    ctx.require(any(x == ('static', 'text::SPLIT_WORD_WHITESPACE_PATTERN') for x in rn), c, 'pattern', 'count_words_whitespace compiles text::SPLIT_WORD_WHITESPACE_PATTERN', None)
    sent = core(sym(w, send.args[1]))
    ctx.require(has(sent, Call('count_words_whitespace', ANY, ANY)) or has(init_value(w, sent), Call('count_words_whitespace', ANY, ANY)), w, 'sent-counts',
                'the value sent is the word count of the pulled line', 'sent: %s' % show_in(w, sent))
    # the keys of the counts are the words as counted: a transformation of the keys AFTER counting (normalising each distinct word instead of
    # the line) makes distinct keys equal, and collecting into a HashMap keeps only one of their counts
    from analysis.seq import seq_of, ITEM as _ITEM
    sv = init_value(w, sym(w, send.args[1]))
    segs = seq_of(ctx.facts, w, sym(w, send.args[1]))
    if segs is not None and len(segs) == 1 and segs[0].kind == 'each' and has(core(segs[0].src), Call('count_words_whitespace', ANY, ANY)):
        e = core(segs[0].elem)
        keep = e == _ITEM or (e[0] == 'agg' and e[1] == 'tuple' and len(e[3]) == 2 and core(e[3][0]) == ('field', _ITEM, 0) and core(e[3][1]) == ('field', _ITEM, 1))
        ctx.require(keep, w, 'count-keys-unchanged', 'the (word, count) pairs are sent as counted (the key is only converted to an owned string)',
                    'the counted words are transformed after counting (`%s`) and collected into a map: words that become equal overwrite each other and their '
                    'counts are lost' % show_in(w, segs[0].elem)[:120], send.span)
    # the corpus reader: an unreadable line is skipped, it does not end the file (map_while / take_while / scan on `lines()` stop at the
    # first Err and silently drop the rest of the file from the counts)
    from rules.common import closures_in as _cl
    for x in [b] + _cl(ctx, b):
        for t in x.calls(r'BufRead::lines$'):
            users = [u for u in x.terms('call') if any(isinstance(y, tuple) and y and y[0] == 'call' and y[1].endswith('BufRead::lines') for a_ in u.args for y in walk(sym(x, a_)))]
            cut = [u for u in users if re.search(r'::(map_while|take_while|scan|skip_while)$', u.callee_res() or '')]
            ctx.require(not cut, x, 'corpus-not-truncated', 'the line reader of the corpus has no adaptor that ends at the first unreadable line',
                        'the corpus lines are read through `%s` (line %d): the first line that cannot be decoded ends the file, the rest of it is not counted' % (
                            (cut[0].callee_res() or '').rsplit('::', 1)[-1] if cut else '', cut[0].span['line'] if cut else 0), cut[0].span if cut else t.span)
    # reducer: fold closure adds counts
    # reducer (a fold closure over the receiver, or a loop over it in train_bpe itself): per key, counts are only added
    from rules.common import closures_in
    wk = {w.path} | {x.path for x in closures_in(ctx, w)}
    cands = [x for x in [b] + closures_in(ctx, b) if x.path not in wk]
    ok = False
    n_ent = 0
    for fc in cands:
        ent = [t for t in fc.calls(r'Entry.*::or_insert$|Entry.*::or_default$') if
               'String' in fc.local_ty(t.args[0].place.local if t.args[0].place is not None else 0)]
        if not ent:
            continue
        n_ent += len(ent)
        adds = [t for t in fc.calls(r'AddAssign>::add_assign$')]
        stores = []
        zz = symbolizer(fc)
        for s in fc.stmts():
            if s.kind == 'assign' and s.lhs.proj:
                val = core(simplify(zz.rvalue(s.rv, 0, ())))
                tgt = nosite(core(sym(fc, s.lhs)))
                if val[0] == 'bin' and val[1] == 'Add' and tgt in (nosite(val[2]), nosite(val[3])):
                    stores.append(s)
        ok = (bool(adds) or bool(stores)) and len(ent) == 1 and match(core(sym(fc, ent[0].args[1])) if len(ent[0].args) > 1 else ('const', '0', 0), Const(0))
    if n_ent == 0:
        raise AnchorMissing('the reducer of the word counts (entry(word).or_insert(0) += count)')
    ok = ok and n_ent == 1
    ctx.require(ok, b, 'reducer-adds', 'the reducer accumulates `*acc.entry(word).or_insert(0) += count`', None)
    # lines are pulled in the same statement as the lock (no line taken outside the mutex)
    ctx.require(has(sym(w, pull.args[0]), Call('Mutex::lock')), w, 'pull-under-lock', 'lines are pulled under the mutex', None)
    dr = [t for t in b.terms('drop') if 'SyncSender' in t.raw['ty']] + [t for t in b.calls(r'mem::drop$') if 'SyncSender' in b.local_ty(t.args[0].place.local)]
    ctx.require(bool(dr), b, 'sender-dropped', 'the main thread drops its sender so the reducer terminates', None)


@rule('C19', 'R-C19-5', 'T13 PAIR (incremental statistics guards)',
      'update_stats touches a neighbour pair only under its guard: old prev (i > 0), old next (i < len-2 and not followed by '
      'another occurrence), new prev (i > 0), new next (i < len-1 and new[i+1] != merged, else the merged-merged pair is '
      'counted twice)')
def r5(ctx):
    b = ctx.body(T + 'update_stats')
    pairs = []
    z = symbolizer(b)
    for s in b.stmts():
        if s.kind == 'assign' and s.rv.kind == 'agg' and s.rv.agg == 'adt' and s.rv.raw['adt'].endswith('BytePair') and not s.span['exp']:
            t = simplify(z.rvalue(s.rv, 0, ()))
            pairs.append((s, core(t)))
    if len(pairs) != 4:
        raise AnchorMissing('the four neighbour pairs built in update_stats (found %d)' % len(pairs))
    got = {}
    for s, t in pairs:
        first, second = t[3][0], t[3][1]
        word = 'old' if has(first, Pred(lambda u: isinstance(u, tuple) and u and u[0] == 'field' and u[2] == 1)) else ('new' if has(first, Pred(lambda u: isinstance(u, tuple) and u and u[0] == 'field' and u[2] == 2)) else '?')
        # prev: (w[i-1], w[i]); next old: (w[i+1], w[i+2]); next new: (w[i], w[i+1])
        fi = [x for x in walk(first) if isinstance(x, tuple) and x and x[0] == 'index']
        kind = 'prev' if fi and fi[0][2][0] == 'bin' and fi[0][2][1] == 'Sub' else 'next'
        atoms = [(core(tt), pol) for tt, pol, g in atoms_at(b, s.bb)]
        got[(word, kind)] = (s, atoms)
    need = {('old', 'prev'), ('old', 'next'), ('new', 'prev'), ('new', 'next')}
    ctx.require(set(got) == need, b, 'pairs', 'prev/next pairs for the old and the new word', 'pairs found: %s' % sorted(got))
    cnt = [l for l in state_locals(b, r'^usize$') if any(core(v)[0] == 'const' and core(v)[2] == 0 for _, v in local_defs(b, l))]
    if len(cnt) != 1:
        raise AnchorMissing('position counter of update_stats (found %d)' % len(cnt))
    i = V(cnt[0])
    for key, (s, atoms) in got.items():
        word, kind = key
        if kind == 'prev':
            ok = any(pol is True and (match(t, ('bin', 'Gt', i, Const(0))) or match(t, ('bin', 'Ne', i, Const(0)))) for t, pol in atoms)
            ctx.require(ok, b, 'guard|%s-%s' % key, '%s prev pair only if i > 0' % word, None, s.span)
        elif word == 'old':
            ok = any(pol is True and match(t, ('bin', 'Lt', i, ('bin', 'Sub', Call('Vec::len', ANY), Const(2)))) for t, pol in atoms)
            if not ok:
                # the same bounds written with slice::get (`if let Some(after) = old_word.get(i + 2)`, `get(i + 3) == Some(..)`): in range exactly
                # when the comparison holds, but the overlap test is then a computed boolean this rule cannot take apart
                from analysis.sym import variant_facts_at as _vfa
                viaget = any(n_ == {'Some'} and match(core(t_), Call('get', ANY, ('bin', 'Add', i, Const(2)))) for t_, n_ in _vfa(b, s.bb))
                if viaget:
                    raise AnchorMissing('update_stats: the old-word next-pair guards as index comparisons (they are written with slice::get)')
            ctx.require(ok, b, 'guard|old-next', 'old next pair only if i < len - 2', None, s.span)
            # .. and not when the next two symbols are another occurrence of the merged pair (old[i+2] == first && i < len-3 && old[i+3] == second): that
            # occurrence decrements the pair between them itself; counting it twice drives the per-word occurrence count to 0 while an occurrence
            # remains, replace_pair then skips the word, and two later merges produce the same bytes (a hole in the id range)
            from analysis.sym import edge_guards
            i2 = ('bin', 'Add', i, Const(2))
            i3 = ('bin', 'Add', i, Const(3))
            esc = []
            esc_kinds = set()
            for g in edge_guards(b):
                t_, pol_ = g.atom()
                c_ = core(t_)
                if pol_ is None or c_[0] != 'bin':
                    continue
                ne = (c_[1] == 'Ne' and pol_) or (c_[1] == 'Eq' and not pol_)
                ge = (c_[1] == 'Ge' and pol_) or (c_[1] == 'Lt' and not pol_)
                if ne and (has(c_, ('index', ANY, i2)) or has(c_, ('index', ANY, i3))):
                    esc.append((g.block, g.target))
                    esc_kinds.add('i+2' if has(c_, ('index', ANY, i2)) else 'i+3')
                elif ge and match(c_[2], i) and match(core(c_[3]), ('bin', 'Sub', Call('Vec::len', ANY), Const(3))):
                    esc.append((g.block, g.target))
                    esc_kinds.add('bound')
            lt = [g for g in edge_guards(b) if g.atom()[1] is True and match(core(g.atom()[0]), ('bin', 'Lt', i, ('bin', 'Sub', Call('Vec::len', ANY), Const(2)))) and
                  cfg.edge_dominates(b, (g.block, g.target), s.bb)]
            ok3 = bool(lt) and bool(esc) and cfg.must_pass(b, lt[0].target, s.bb, via_edges=esc)
            ctx.require(ok3, b, 'guard|old-next-overlap', 'old next pair is skipped when the next two symbols are another occurrence of the merged pair',
                        'the old-word next pair is decremented even when it lies between two adjacent occurrences of the merged pair (`a b a b`): it is decremented '
                        'twice, its per-word count reaches 0 although an occurrence remains, and the word is skipped when that pair is merged later', s.span)
            # ... and ONLY then: the pair is decremented as soon as old[i+2] is not the first symbol, or no symbol i+3 exists, or it is not the
            # second one. Skipping on `old[i+2] == first` alone (`x y x z`) leaves a pair with a positive count that no longer occurs; it is
            # selected later and the table gets an entry for a pair that does not occur
            if esc_kinds:
                ctx.require(esc_kinds >= {'i+2', 'i+3'}, b, 'guard|old-next-only-on-full-occurrence',
                            'the old next pair is skipped only when a FULL occurrence follows (old[i+2] == first and old[i+3] == second)',
                            'the old-word next pair is skipped on %s alone: in `x y x z` the pair (y, x) keeps a positive count although it is gone, is merged later '
                            'and the table gets an entry for a pair that does not occur' % sorted(esc_kinds), s.span)
        else:
            ok1 = any(pol is True and match(t, ('bin', 'Lt', i, ('bin', 'Sub', Call('Vec::len', ANY), Const(1)))) for t, pol in atoms)
            ok2 = any(pol is True and t[0] == 'bin' and t[1] == 'Ne' and has(t, ('bin', 'Add', i, Const(1))) for t, pol in atoms) or \
                any(pol is False and t[0] == 'bin' and t[1] == 'Eq' and has(t, ('bin', 'Add', i, Const(1))) for t, pol in atoms)
            ctx.require(ok1 and ok2, b, 'guard|new-next', 'new next pair only if i < len - 1 and new_word[i+1] != merged',
                        'the new-word next pair is counted without `new_word[i+1] != merged`: a pair of two freshly merged tokens is counted twice and '
                        'later beats a pair of higher true frequency', s.span)
    # the merged pair itself is reset
    rs = [s for s in b.stmts() if s.kind == 'assign' and s.lhs.proj and match(core(sym(b, s.lhs)), ('field', ANY, 'freq')) and s.rv.kind == 'use' and s.rv.ops[0].is_const()
          and s.rv.ops[0].int_value() == 0]
    ctx.require(len(rs) == 1, b, 'reset-merged', 'the merged pair\'s frequency is reset to 0', None)


@rule('C19', 'R-C19-6', 'T13 PAIR (occurrence counts) / T2 (byte symbols)',
      'byte_pair_stats counts EVERY occurrence of a pair inside a word (first occurrence inserts 1, each further one adds 1): '
      'update_stats decrements this count and replace_pair skips words whose count is 0; the training corpus starts from single '
      'BYTES of each word (the 256 base tokens of the tokenizer), not from characters')
def r6(ctx):
    from rules.common import closures_in
    b = ctx.body(T + 'byte_pair_stats')
    bodies = [b] + closures_in(ctx, b)
    found = 0
    for x in bodies:
        for t in x.calls(r'Entry.*::or_insert$'):
            e = peel(sym(x, t.args[0]))
            v = core(sym(x, t.args[1]))
            # the per-word occurrence map: HashMap<usize, usize>
            ent = [y for y in walk(e) if isinstance(y, tuple) and y and y[0] == 'call' and y[1].endswith('HashMap::entry')]
            if not ent:
                continue
            rcv = ent[-1][2][0]
            ty = ''
            for tt in x.calls(r'HashMap::entry$'):
                if nosite(sym(x, tt.dest)) == nosite(ent[-1]):
                    ty = x.local_ty(tt.args[0].place.local) if tt.args[0].place is not None else ''
            if 'HashMap<usize, usize>' not in ty:
                continue
            found += 1
            if match(v, Const(1)):
                am = e[0] == 'call' and e[1].endswith('Entry::and_modify')
                inc = False
                if am:
                    clo = closure_of(ctx, e[2][1])
                    zc = symbolizer(clo)
                    for s in clo.stmts():
                        if s.kind == 'assign' and s.lhs.proj:
                            val = core(simplify(zc.rvalue(s.rv, 0, ())))
                            if match(val, ('bin', 'Add', ANY, Const(1))):
                                inc = True
                ctx.require(am and inc, x, 'occurrence-count', 'a repeated occurrence of the pair in the same word adds 1 to its count (line %d)' % t.span['line'],
                            'the occurrence count of a pair in a word is set to 1 and never incremented (line %d): a pair that occurs twice in a word is recorded once, '
                            'update_stats then drives the count to 0 while the pair is still there and replace_pair skips the word' % t.span['line'], t.span)
            elif match(v, Const(0)):
                # `*entry(k).or_insert(0) += 1`
                ok = any(s.kind == 'assign' and s.lhs.proj and match(core(sym(x, s.rv.ops[0]) if s.rv.kind == 'use' and s.rv.ops else ()), ('bin', 'Add', ANY, Const(1)))
                         for s in x.stmts())
                ctx.require(ok, x, 'occurrence-count', 'every occurrence adds 1 to the count (line %d)' % t.span['line'], None, t.span)
            else:
                ctx.fail(x, 'occurrence-count', 'the occurrence count starts at %s (line %d)' % (show_in(x, v), t.span['line']), t.span)
    if found == 0:
        raise AnchorMissing('the per-word occurrence count of byte_pair_stats')
    # initial symbols of the training corpus
    from analysis.seq import seq_of, ITEM
    tr = ctx.body(T + 'train_bpe')
    n = 0
    for c in closures_in(ctx, tr):
        for v, bb in ret_values(c):
            if v[0] == 'agg' and v[1] == 'tuple' and len(v[3]) == 2 and 'Vec<std::vec::Vec<u8>>' in (c.local_ty(0) or ''):
                segs = seq_of(ctx.facts, c, v[3][0])
                n += 1
                ok = segs is not None and len(segs) == 1 and segs[0].kind == 'each' and not segs[0].conds and \
                    not has(segs[0].src, Call('str::chars', ANY)) and not has(segs[0].src, Call('char_indices', ANY)) and \
                    match(core(segs[0].src), ('field', ('arg', 2, ANY), 0))
                ctx.require(ok, c, 'byte-symbols', 'the initial symbols of a word are its single bytes',
                            'the initial symbols of a word are %s: training must start from the 256 byte tokens the tokenizer starts from (a multi-byte character as one '
                            'symbol yields entries that are not the concatenation of two tokens)' % [repr(x)[:140] for x in segs or ()])
    if n == 0:
        raise AnchorMissing('construction of the (symbols, count) training vocabulary')


@rule('C19', 'R-C19-7', 'MUST-PASS (the table is always written)',
      'every successful return of train_bpe passes merge_ops.save(out_file): a request that yields zero merges still writes an '
      '(empty) table instead of leaving a stale or missing file behind')
def r7(ctx):
    b = ctx.body(T + 'train_bpe')
    sv = [t for t in b.calls(r'::save$') if t.args and 'HashMap<std::vec::Vec<u8>, u32>' in b.local_ty(t.args[0].place.local if t.args[0].place is not None else 0)]
    if len(sv) != 1:
        raise AnchorMissing('merge_ops.save(..) in train_bpe (found %d)' % len(sv))
    for v, blk in ret_values(b):
        if v[0] == 'agg' and v[2].endswith('Result::Ok'):
            ok = cfg.must_pass(b, 0, blk, via_blocks=[sv[0].bb])
            ctx.require(ok, b, 'save-before-ok', 'Ok(()) at line %d is returned only after the table was saved' % b.blocks[blk].term.span['line'],
                        'train_bpe returns Ok(()) at line %d without writing the merge table: the output file is missing or still holds the table of an earlier run' % b.blocks[blk].term.span['line'],
                        b.blocks[blk].term.span)


@rule('C19', 'R-C19-8', 'T13 PAIR (applying a merge to the word table)',
      'replace_pair_in_word copies every symbol of the word, in order, or -- exactly when the previous output symbol is pair.first and the '
      'symbol is pair.second -- appends it to the previous output symbol (left-to-right, non-overlapping merge; nothing dropped); '
      'replace_pair rewrites vocab[idx] with that result, keeps the frequency, and records (idx, old word, new word, freq) for every word '
      'whose recorded occurrence count is >= 1 -- the change list update_stats consumes')
def r8(ctx):
    from rules.common import iteration_table, full_traversal
    w = ctx.body(T + 'replace_pair_in_word')
    if full_traversal(ctx, w, ('arg', 1, ANY), 'merge-visits-all', 'replace_pair_in_word') < 1:
        raise AnchorMissing('the symbol loop of replace_pair_in_word')
    lps = cfg.loops(w)
    if len(lps) != 1:
        raise AnchorMissing('one loop in replace_pair_in_word (found %d)' % len(lps))
    nx = [t for t in w.calls(r'::next$') if t.bb in lps[0].blocks]
    item = ('unwrap', nosite(sym(w, nx[0].dest)))
    is_item = Pred(lambda u: nosite(core(u)) == nosite(core(item)))
    rows = iteration_table(w, lps[0], {})
    if not rows:
        raise AnchorMissing('iteration paths of replace_pair_in_word')
    kinds = set()
    for row in rows:
        pushes = [(t, a) for t, a in row['calls'] if (t.callee_res() or '').endswith('Vec::push')]
        exts = [(t, a) for t, a in row['calls'] if re.search(r'Vec::extend$|Extend>::extend$|extend_from_slice$|Vec::append$', t.callee_res() or '')]
        atoms = [(core(t), pol) for t, pol in row['atoms']]
        if len(pushes) == 1 and not exts:
            kinds.add('copy')
            ctx.require(match(core(pushes[0][1][1]), is_item), w, 'copy-symbol', 'a symbol that is not merged is copied unchanged', 'the symbol pushed is %s' % show_in(w, pushes[0][1][1])[:80],
                        pushes[0][0].span)
        elif len(exts) == 1 and not pushes:
            kinds.add('merge')
            eqs = [t for t, pol in atoms if pol is True and ((t[0] == 'bin' and t[1] == 'Eq') or (t[0] == 'call' and t[1].endswith('::eq')))]
            sides = [(t[2], t[3]) if t[0] == 'bin' else (t[2][0], t[2][1]) for t in eqs]
            first = any(has(a, Call('last_mut', ANY)) and match(core(b_), ('field', ('arg', 2, ANY), 'first')) or
                        has(b_, Call('last_mut', ANY)) and match(core(a), ('field', ('arg', 2, ANY), 'first')) for a, b_ in sides)
            second = any(match(core(a), is_item) and match(core(b_), ('field', ('arg', 2, ANY), 'second')) or
                         match(core(b_), is_item) and match(core(a), ('field', ('arg', 2, ANY), 'second')) for a, b_ in sides)
            ctx.require(first and second and has(exts[0][1][0], Call('last_mut', ANY)) and match(core(exts[0][1][1]), is_item), w, 'merge-condition',
                        'a symbol is appended to the previous output symbol exactly under last == pair.first && symbol == pair.second',
                        'a symbol is merged into the previous one under %s' % [('' if pol else '!') + show_in(w, t)[:50] for t, pol in atoms], exts[0][0].span)
        else:
            ctx.fail(w, 'symbol-lost', 'an iteration of replace_pair_in_word performs %d pushes and %d merges: a symbol is dropped or duplicated' % (len(pushes), len(exts)),
                     w.blocks[lps[0].header].term.span)
    ctx.require(kinds == {'copy', 'merge'}, w, 'merge-kinds', 'symbols are either copied or merged into their predecessor', 'iteration kinds: %s' % sorted(kinds))
    rv = ret_values(w)
    pushes = [t for t in w.calls(r'Vec::push$')]
    ctx.require(len(rv) == 1 and pushes and core(rv[0][0]) == core(sym(w, pushes[0].args[0])), w, 'merge-result', 'the new word is returned', None)
    # replace_pair
    r = ctx.body(T + 'replace_pair')
    lp = cfg.loops(r)
    if len(lp) != 1:
        raise AnchorMissing('the loop of replace_pair')
    nxr = [t for t in r.calls(r'::next$') if t.bb in lp[0].blocks]
    src = core(loop_source(r, nxr[0]))
    ctx.require(has(src, ('field', Call('index', ('arg', 3, ANY), ('arg', 2, ANY)), 'words')) or has(src, ('field', ('index', ('arg', 3, ANY), ('arg', 2, ANY)), 'words')), r, 'words-of-pair', 'replace_pair visits the words recorded for the pair (stats[pair].words)',
                'replace_pair iterates %s' % show_in(r, src)[:80])
    it = ('unwrap', nosite(sym(r, nxr[0].dest)))
    IDX = Pred(lambda u: nosite(core(u)) == nosite(core(('field', it, 0))))
    WORD = ('field', ('index', ('arg', 1, ANY), IDX), 0)
    FREQ = ('field', ('index', ('arg', 1, ANY), IDX), 1)
    NEW = Call(T + 'replace_pair_in_word', WORD, ('arg', 2, ANY))
    rows = iteration_table(r, lp[0], {}) or []
    work = skip = 0
    swapped = False
    for row in rows:
        ps = [(t, a) for t, a in row['calls'] if (t.callee_res() or '').endswith('Vec::push')]
        if not ps:
            skip += 1
            def zero(t, pol):
                # "the count is 0" in any spelling: occ < 1, occ <= 0, occ == 0, 1 > occ, !(occ >= 1), !(1 <= occ), ..
                c = core(t)
                if pol is None or c[0] != 'bin' or c[1] not in ('Lt', 'Le', 'Gt', 'Ge', 'Eq', 'Ne'):
                    return False
                op = c[1] if pol else {'Lt': 'Ge', 'Ge': 'Lt', 'Le': 'Gt', 'Gt': 'Le', 'Eq': 'Ne', 'Ne': 'Eq'}[c[1]]
                a, b_ = core(c[2]), core(c[3])
                if a[0] == 'const':
                    a, b_ = b_, a
                    op = {'Lt': 'Gt', 'Gt': 'Lt', 'Le': 'Ge', 'Ge': 'Le'}.get(op, op)
                k = b_[2] if b_[0] == 'const' and len(b_) > 2 else None
                return (op == 'Lt' and k == 1) or (op == 'Le' and k == 0) or (op == 'Eq' and k == 0)
            ok = any(zero(t, pol) for t, pol in row['atoms'])
            ctx.require(ok, r, 'skip-dead-words', 'a word is skipped only when its recorded occurrence count is 0', 'a word is skipped under %s' % [
                ('' if pol else '!') + show_in(r, t)[:50] for t, pol in row['atoms']])
            continue
        work += 1
        v = peel(ps[0][1][1])
        # the old word: a copy of vocab[idx].0, or what `mem::replace(&mut vocab[idx].0, new_word)` hands back (which also does the update)
        SWAP = Call('mem::replace', WORD, NEW)
        ok = len(ps) == 1 and v[0] == 'agg' and v[1] == 'tuple' and len(v[3]) == 4 and match(core(v[3][0]), IDX) and \
            (match(core(v[3][1]), WORD) or match(core(v[3][1]), SWAP)) and match(core(v[3][2]), NEW) and match(core(v[3][3]), FREQ)
        if ok and match(core(v[3][1]), SWAP):
            swapped = True
        ctx.require(ok, r, 'change-record', 'the change record is (idx, old word, new word, freq)', 'the change record is %s' % show_in(r, ps[0][1][1])[:160], ps[0][0].span)
    ctx.require(work >= 1 and skip >= 1, r, 'replace-paths', 'replace_pair has a working and a skipping path', 'paths: %d working, %d skipping' % (work, skip))
    st = [s_ for s_ in r.stmts() if s_.kind == 'assign' and s_.lhs.proj and s_.bb in lp[0].blocks and match(core(sym(r, s_.lhs)), ('index', ('arg', 1, ANY), IDX))]
    ok = len(st) == 1
    if ok:
        from analysis.sym import symbolizer, simplify
        v = peel(simplify(symbolizer(r).rvalue(st[0].rv, 0, ())))
        ok = v[0] == 'agg' and v[1] == 'tuple' and len(v[3]) == 2 and match(core(v[3][0]), NEW) and match(core(v[3][1]), FREQ)
    ctx.require(ok or (swapped and not st), r, 'vocab-update', 'vocab[idx] := (replace_pair_in_word(word, pair), same freq)', None, st[0].span if st else None)


@rule('C19', 'R-C19-9', 'prerequisite (the corpus is counted in normal form)',
      'unicode::normalize, which train_bpe applies to every line when a normalisation is configured, always normalises (R-C20-10 re-evaluated)')
def r9(ctx):
    from rules.c20 import normalize_total
    normalize_total(ctx)


@rule('C19', 'R-C19-10', 'prerequisite (the corpus is counted as cleaned text over one definition of "character")',
      'text::clean, which train_bpe applies to every line before counting, keeps every non-whitespace character in order and collapses whitespace '
      'runs to one space (R-C11-1, R-C11-2 re-evaluated), over the shared CharString segmentation (R-C11-6): a cleaner that drops or reorders '
      'characters makes the counted pairs differ from the pairs of the corpus')
def r10(ctx):
    from rules import c11
    c11.r1(ctx)
    c11.r2(ctx)
    c11.charstring_primitive(ctx)


@rule('C19', 'R-C19-11', 'T11 SIBLING (one unit of length while counting the corpus)',
      'the counting workers of train_bpe clean and normalise every line with the same constant segmentation flag (grapheme clusters): cleaning by '
      'code points turns the space in front of a combining mark into a word separator, the corpus is segmented differently from the text the '
      'tokenizer later sees, and the table gains entries for pairs that do not occur')
def r11(ctx):
    from rules.c20 import segmentation_flags_agree
    root = ctx.body(T + 'train_bpe').path
    segmentation_flags_agree(ctx, lambda b: b.path == root or (b.kind == 'Closure' and (b.root == root or (b.parent or '').startswith(root))),
                             'train_bpe', 'train_bpe')


@rule('C19', 'R-C19-12', 'T5 (the reducer waits for every worker)',
      'train_bpe folds the per-line counts with blocking receives only: the fold ends when all counting workers have dropped their senders, not '
      'when they are slow')
def r12(ctx):
    from rules.common import blocking_receives_only
    blocking_receives_only(ctx, ctx.body(T + 'train_bpe').path, 'train_bpe')


def _lower_bound(t, depth=0):
    """a lower bound of an unsigned expression tree, None when the tree has a node this does not understand"""
    t = core(t) if isinstance(t, tuple) else t
    if depth > 12 or not isinstance(t, tuple) or not t:
        return None
    if t[0] == 'const':
        try:
            return t[2] if len(t) > 2 and isinstance(t[2], int) else None
        except (TypeError, ValueError):
            return None
    if t[0] == 'call' and t[2]:
        nm = t[1].rsplit('::', 1)[-1]
        a = [_lower_bound(x, depth + 1) for x in t[2]]
        if nm == 'max' and len(a) == 2:
            k = [x for x in a if x is not None]
            return max(k) if k else None
        if nm == 'min' and len(a) == 2:
            return None if None in a else min(a)
        if nm in ('len', 'count'):
            return 0
        return None
    if t[0] == 'bin' and len(t) >= 4:
        a, b_ = _lower_bound(t[2], depth + 1), _lower_bound(t[3], depth + 1)
        op = str(t[1]).lower()
        if op.startswith('div') or op.startswith('rem') or op.startswith('shr'):
            return 0
        if op.startswith('add'):
            return None if None in (a, b_) else a + b_
        if op.startswith('mul'):
            return None if None in (a, b_) else a * b_
        if op.startswith('sub'):
            return 0
        return None
    if t[0] in ('arg', 'var', 'upvar', 'field'):
        return 0
    if t[0] == 'cast' and len(t) >= 2:
        return _lower_bound(t[1], depth + 1)
    return None


@rule('C19', 'R-C19-16', 'T4 GUARD (a worker turn pulls at least one line)',
      'when the counting workers of train_bpe pull several lines per turn (`take(n)` on the shared line iterator) and treat an empty pull as the '
      'end of the corpus, n is at least 1 by construction (a positive constant, `.max(1)`): a share computed by division (`lines / threads`) is 0 '
      'for a corpus with fewer lines than threads, every worker leaves at once and an empty merge table is written')
def r16(ctx):
    from rules.common import resolve_upvars, closures_in
    b = ctx.body(T + 'train_bpe')
    sp = [t for t in b.calls(r'thread::Builder::spawn$|thread::spawn$')]
    if len(sp) != 1:
        raise AnchorMissing('worker spawn in train_bpe')
    w = closure_of(ctx, sym(b, sp[0].args[-1]))
    n = 0
    for x in [w] + closures_in(ctx, w):
        for t in x.calls(r'Iterator::take$'):
            recv = init_value(x, sym(x, t.args[0]))
            if not any(isinstance(y, tuple) and y and y[0] == 'call' and y[1].endswith('Mutex::lock') for y in walk(recv)):
                continue      # not a pull from the shared (locked) line iterator
            n += 1
            v = resolve_upvars(ctx, x, init_value(x, sym(x, t.args[1])))
            if b is not None:
                v = init_value(b, v)
            lb = _lower_bound(v)
            if lb is None:
                raise AnchorMissing('the number of lines a worker pulls per turn (line %d) is %s' % (t.span['line'], show_in(b, v)[:120]))
            ctx.require(lb >= 1, x, 'batch-at-least-one', 'a worker turn pulls at least %d line(s) (line %d)' % (lb, t.span['line']),
                        'a worker turn pulls `take(%s)` lines (line %d), which is 0 for some corpus / thread count: the workers take the empty pull for the '
                        'end of the corpus and nothing is counted' % (show_in(b, v)[:120], t.span['line']), t.span)
    ctx.ok(w, '%d bulk pull(s) in the counting workers inspected' % n)
